import os, sys, time, threading, logging
logging.disable(logging.CRITICAL)
sys.path.insert(0, '/repo')
from pyworkers.worker import Worker
from pyworkers.persistent_process import PersistentProcessWorker as ProcessWorker

def quick():
    return 'done'

def main():
    stop = threading.Event()
    def monitor():
        while not stop.is_set():
            for c in Worker.active_children():
                pass
    mon = threading.Thread(target=monitor, daemon=True)
    mon.start()
    bad = 0
    N = 40
    for i in range(N):
        w = ProcessWorker(quick); w.enqueue()
        t0 = time.monotonic()
        r = w.wait(timeout=30)
        dt = time.monotonic() - t0
        if not r:
            gone = False
            try:
                os.kill(w.pid, 0)
            except ProcessLookupError:
                gone = True
            bad += 1
            print(f'round {i}: wait(30) returned False after {dt:.2f} s; child process gone: {gone}; second wait -> {w.wait(timeout=5)}; result={w.result!r}', flush=True)
    stop.set(); mon.join(5)
    print(f'{bad} of {N} waits returned a spurious False')
    return 1 if bad else 0

if __name__ == '__main__':
    sys.exit(main())
