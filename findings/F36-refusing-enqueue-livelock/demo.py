"""F36: Pool.run never returns when a worker dies and the only idle worker is one the user's enqueue_fn refuses for the input that has to be retried.

handle_death() redistributes the dead worker's inputs with `while self._retries: idle = get_next_idle_worker(); ...; try_enqueue(idle)`.
try_enqueue() pops the head of the retry list, the enqueue function refuses it, handle_unused_data() puts it back at the head and try_enqueue returns -
the loop sees the same list and the same idle worker again, for ever.  exit code 0 = run() ended (normally or with PoolError), 1 = still running after 15 s.
"""
import os
import sys
import threading
import logging
logging.disable(logging.CRITICAL)
sys.path.insert(0, '/repo')
from pyworkers.pool import Pool, PoolError
from pyworkers.worker import WorkerType


def target(x):
    if x == 2:
        raise RuntimeError('poison')      # the worker that gets 2 dies
    return x * x


def main():
    outcome = []

    def body():
        with Pool(target, name='p') as pool:
            pool.add_worker(WorkerType.THREAD, userid=0)
            pool.add_worker(WorkerType.THREAD, userid=1)
            try:
                res = pool.run(iter([1, 2, 3]), enqueue_fn=lambda w, x: (w.enqueue(x) or True) if w.userid == 0 else False)
                outcome.append(('returned', res))
            except PoolError as e:
                outcome.append(('PoolError', e.partial_results))
    t = threading.Thread(target=body, daemon=True)
    t.start()
    t.join(15)
    if t.is_alive():
        print('Pool.run is still running after 15 s (livelock in handle_death)')
        os._exit(1)
    print('Pool.run ended:', outcome)
    return 0


if __name__ == '__main__':
    sys.exit(main())
