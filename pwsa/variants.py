"""Single-edit variants of the pyworkers sources used by the self-test (see selftest.py).

kind 'break'  : the edit breaks property `prop`; the rules of that property must report a finding
                (whose key contains `expect`, if given) that is not a listed known finding.
kind 'benign' : behaviour-preserving; every check must stay silent.
Edits are (relative path, old text, new text); old must occur exactly once.
"""

T = 'pyworkers/thread.py'
PR = 'pyworkers/process.py'
RM = 'pyworkers/remote.py'
W = 'pyworkers/worker.py'
U = 'pyworkers/utils.py'
PT = 'pyworkers/persistent_thread.py'
PP = 'pyworkers/persistent_process.py'
PRM = 'pyworkers/persistent_remote.py'
PE = 'pyworkers/persistent.py'
PO = 'pyworkers/pool.py'
RS = 'pyworkers/remote_server.py'
RC = 'pyworkers/remote_context.py'
RP = 'pyworkers/remote_pickle.py'
PK = 'pyworkers/_remote_pickle/remote_pickler_3_6.py'
ST = 'pyworkers/_remote_pickle/state.py'

VARIANTS = []


def br(prop, name, edits, expect=None):
    VARIANTS.append({'kind': 'break', 'prop': prop, 'name': f'{prop}:{name}', 'edits': edits if isinstance(edits, list) else [edits], 'expect': expect})


def ok(name, edits):
    VARIANTS.append({'kind': 'benign', 'prop': None, 'name': f'benign:{name}', 'edits': edits if isinstance(edits, list) else [edits], 'expect': None})


# =============================================================================================== C01
br('C01', 'thread-handler-narrowed', (T, "        except BaseException as e:\n            self._result = (False, e)", "        except Exception as e:\n            self._result = (False, e)"), 'exit-without-outcome')
br('C01', 'get_result-fallback-dropped', (PR, "            if self._result is None:\n                self._result = (False, None)\n            else:\n                self._result, self._user_state = self._result",
                                          "            if self._result is not None:\n                self._result, self._user_state = self._result"), 'slot-shape')
br('C01', 'fetch_results-handler-pass', (RM, "        except ConnectionClosedError:\n            self._result = (False, None)\n            logger.debug('Connection to the child has been closed before receiving the result')",
                                         "        except ConnectionClosedError:\n            logger.debug('Connection to the child has been closed before receiving the result')"), 'slot-shape')
br('C01', 'pipe-get-unmaps-EOF', (U, "        except (EOFError, OSError):\n            # OSError covers", "        except (BrokenPipeError,):\n            # OSError covers"), 'escape:')
br('C01', 'forced-kill-sends-True', (RM, "send_msg(self._socket, (False, None), comment='data: force terminate result')", "send_msg(self._socket, (True, None), comment='data: force terminate result')"), 'forced-kill-outcome')
br('C01', 'wait-overwrites-outcome', (T, "        self._child.join(timeout)\n        alive = self._child.is_alive()\n        if not alive:\n            self._dead = True\n        return not alive\n\n    def terminate",
                                      "        self._child.join(timeout)\n        alive = self._child.is_alive()\n        if not alive:\n            self._dead = True\n            self._result = (False, None)\n        return not alive\n\n    def terminate"), 'foreign-outcome-store')
br('C01', 'has_error-inverted', (W, "        graceful, _ = r\n        return not graceful", "        graceful, _ = r\n        return graceful"), 'decoder')
br('C01', 'error-returns-on-success', (W, "        graceful, result = r\n        if graceful:\n            return None\n        return result", "        graceful, result = r\n        return result"), 'decoder')
br('C01', 'backend-initial-None', (RM, "            result = (False, None) # reported if nothing better is known", "            result = None # reported if nothing better is known"), 'outcome-send-shape')
br('C01', 'not-run-outcome-false', (W, "            self._started = False\n            self._result = (True, None)", "            self._started = False\n            self._result = (False, None)"), 'not-run-outcome')
br('C01', 'server-process-start-stores-message', (RS, "            self._result, self._user_state = self._addr", "            self._result = self._addr"), 'slot-shape')
br('C01', 'persistent-frontend-default-dropped', (PRM, "            if self._result is None:\n                self._result = (False, None)\n            if not last_partial_result_signalled:", "            if not last_partial_result_signalled:"), 'slot-shape')
br('C01', 'thread-log-before-store', (T, "            self._result = (False, e)\n            logger.exception('Exception occurred while running the main function')",
                                      "            logger.exception('Exception occurred while running the main function')\n            self._result = (False, e)"), 'land@logger.exception')
br('C01', 'get_result-unpickle-handler-dropped', (PR, "                except Exception:\n                    # the child has sent something which cannot be recreated on our side\n                    logger.exception('Could not receive the result from the child')\n                    self._result = ((False, None), self._user_state)\n", ""), 'accessor-raises')

# =============================================================================================== C02
br('C02', 'run-drops-kwargs', (W, "        return self._target(*args, **kwargs)", "        return self._target(*args)"), 'target-call')
br('C02', 'do_work-drops-args', (W, "        return self.run(*self._args, **self._kwargs)", "        return self.run(**self._kwargs)"), 'do_work-forwarding')
br('C02', 'payload-order-swapped', (RM, "                self._target, self._args, self._kwargs = remote_pickle.loads(self._payload)", "                self._target, self._kwargs, self._args = remote_pickle.loads(self._payload)"), 'payload-order')
br('C02', 'factory-wrong-class-name', (W, "            cls_name = 'Persistent{}'.format(cls_name)", "            cls_name = 'Persistant{}'.format(cls_name)"), 'factory')
br('C02', 'factory-wrong-module', (W, "            mod_name = 'persistent_{}'.format(mod_name)", "            mod_name = 'persistent{}'.format(mod_name)"), 'factory')
br('C02', 'not-run-started-true', (W, "            self._started = False\n            self._result = (True, None)", "            self._started = True\n            self._result = (True, None)"), 'not-run-started-flag')
br('C02', 'process-success-sends-None', (PR, "            self._comms.child_end.put(((True, result), self._user_state))", "            self._comms.child_end.put(((True, None), self._user_state))"), 'success-payload')
br('C02', 'thread-double-do_work', (T, "            self._result = (True, self.do_work())", "            self.do_work()\n            self._result = (True, self.do_work())"), 'do_work')
br('C02', 'run-swallows-exceptions', (W, "        return self._target(*args, **kwargs)", "        try:\n            return self._target(*args, **kwargs)\n        except Exception:\n            return None"), 'swallows-user-exception')
br('C02', 'context-payload-order', (RC, "            self._target, self._args, self._kwargs, self._extra_state = loads(self._payload)", "            self._target, self._args, self._extra_state, self._kwargs = loads(self._payload)"), 'payload-order')
br('C02', 'remote-failure-payload-wrong', (RM, "            except Exception as e:\n                logger.exception('Exception occurred while running the main function')\n                result = (False, e)",
                                           "            except Exception as e:\n                logger.exception('Exception occurred while running the main function')\n                result = (False, None)"), 'user-exception-not-recorded')
br('C02', 'args-default-shared', (W, "        self._args = args or []", "        self._args = []"), 'ctor-arg-def')

# =============================================================================================== C03
br('C03', 'thread-injects-tid', (T, "            foreign_raise(self._ident, WorkerTerminatedError)", "            foreign_raise(self._tid, WorkerTerminatedError)"), 'injection-target')
br('C03', 'remote-terminate-args-swapped', (RM, "send_msg(self._ctrl_sock, ('terminate', (remote_timeout, force)), comment='terminate')", "send_msg(self._ctrl_sock, ('terminate', (force, remote_timeout)), comment='terminate')"), 'arg-binding')
br('C03', 'dispatch-strings-swapped', (RM, "                if cmd == 'terminate':\n                    logger.debug('Calling local terminate...')\n                    result = self.terminate(*args)\n                elif cmd == 'wait':",
                                       "                if cmd == 'wait':\n                    logger.debug('Calling local terminate...')\n                    result = self.terminate(*args)\n                elif cmd == 'terminate':"), 'branch-calls')
br('C03', 'server-terminate-drops-release', (RM, "            self._ctrl_comms.parent_end.send('terminate')\n            self._release_child()\n", "            self._ctrl_comms.parent_end.send('terminate')\n"), 'release')
br('C03', 'ctrl_fn-drops-release_self', (PR, "        foreign_raise(self._ident, WorkerTerminatedError)\n        self._release_self()\n", "        foreign_raise(self._ident, WorkerTerminatedError)\n"), 'no-release-self')
br('C03', 'process-handler-narrowed', (PR, "        except Exception as e:\n            logger.exception('Exception occurred while running the main function')\n            self._comms.child_end.put(((False, e), self._user_state))",
                                       "        except (ValueError, RuntimeError) as e:\n            logger.exception('Exception occurred while running the main function')\n            self._comms.child_end.put(((False, e), self._user_state))"), 'land@')
br('C03', 'thread-set-outside-try', (T, "        try:\n            self._startup_sync.set()\n            assert self.is_child", "        self._startup_sync.set()\n        try:\n            assert self.is_child"), 'land@_startup_sync.set')
br('C03', 'injects-wrong-exception', (PR, "        foreign_raise(self._ident, WorkerTerminatedError)\n        self._release_self()", "        foreign_raise(self._ident, KeyboardInterrupt)\n        self._release_self()"), 'injection-exception')
br('C03', 'local-ctrl-ignores-terminate', (RM, "            if sig is not None:\n                assert sig == 'terminate'", "            if sig is None:\n                assert sig == 'terminate'"), 'token-not-injected')
br('C03', 'persistent-thread-release-token', (PT, "        self._args_pipe.parent_end.put(None)\n        self._closed = True", "        self._args_pipe.parent_end.put(False)\n        self._closed = True"), 'stop-token')
br('C03', 'persistent-thread-loop-ignores-none', (PT, "            if extra is None:\n                break\n            extra_args, extra_kwargs = extra", "            if extra is None:\n                continue\n            extra_args, extra_kwargs = extra"), 'stop-token')
br('C03', 'ctrl-thread-started-after-sync', (PR, "        self._ctrl_thread.start()\n        self._ctrl_thread_sync.wait()\n\n        self._comms.parent_end.close()\n        #self._ctrl_comms.parent_end.close()\n\n        try:\n            #assert self.is_child\n            self._comms.child_end.put((self._pid, self._tid, self._ident))\n",
                                             "        self._comms.parent_end.close()\n        #self._ctrl_comms.parent_end.close()\n\n        try:\n            #assert self.is_child\n            self._comms.child_end.put((self._pid, self._tid, self._ident))\n            self._ctrl_thread.start()\n            self._ctrl_thread_sync.wait()\n"), 'ctrl-thread-after-sync')
br('C03', 'do_work-swallows-terminate', (PT, "            result = self.run(*args, **kwargs)\n            self._send_result(result)\n\n        return self._counter",
                                         "            try:\n                result = self.run(*args, **kwargs)\n            except Exception:\n                continue\n            self._send_result(result)\n\n        return self._counter"), 'swallows-async')
br('C03', 'foreign_raise-clears-after', (U, "    ret = ctypes.pythonapi.PyThreadState_SetAsyncExc(_ctype_tid, _ctype_ex_obj)\n", "    ret = ctypes.pythonapi.PyThreadState_SetAsyncExc(_ctype_tid, _ctype_ex_obj)\n    ctypes.pythonapi.PyThreadState_SetAsyncExc(_ctype_tid, ctypes.py_object())\n"), 'request-cancelled')
br('C03', 'remote-backend-inner-handler-narrowed', (RM, "            except Exception as e:\n                logger.exception('Exception occurred while running the main function')\n                result = (False, e)\n            finally:",
                                                    "            except (ValueError, KeyError) as e:\n                logger.exception('Exception occurred while running the main function')\n                result = (False, e)\n            finally:"), None)

# =============================================================================================== C04
br('C04', 'join-without-timeout', (PR, "                    self._early_result = ((False, None), self._user_state)\n        self._child.join(timeout)", "                    self._early_result = ((False, None), self._user_state)\n        self._child.join()"), 'unbounded-join')
br('C04', 'drain-wait-without-timeout', (PR, "            ready = mp.connection.wait([self._comms.parent_end, self._child.sentinel], timeout)", "            ready = mp.connection.wait([self._comms.parent_end, self._child.sentinel])"), 'unbounded-wait')
br('C04', 'final-return-True', (T, "        alive = self._child.is_alive()\n        if not alive:\n            self._dead = True\n        return not alive\n\n    def _get_result", "        alive = self._child.is_alive()\n        if not alive:\n            self._dead = True\n        return True\n\n    def _get_result"), 'return-True-unguarded')
br('C04', 'terminate-dead-guard-dropped', (T, "        if not self.is_alive():\n            return True\n\n        try:\n            foreign_raise", "        try:\n            foreign_raise"), 'use-before-guard')
br('C04', 'force-kill-without-join', (PR, "                    self._child.terminate()\n                    self._child.join(timeout)\n", "                    self._child.terminate()\n"), 'force-kill-without-join')
br('C04', 'ack-read-unguarded', (PR, "                if self._ctrl_comms.parent_end.poll(timeout): # an unresponsive child might never acknowledge\n                    self._ctrl_comms.parent_end.get()", "                self._ctrl_comms.parent_end.get()"), 'unbounded-read')
br('C04', 'thread-terminate-unguarded-injection', (T, "        try:\n            foreign_raise(self._ident, WorkerTerminatedError)\n        except ValueError:\n            pass # the thread has finished in the meantime\n", "        foreign_raise(self._ident, WorkerTerminatedError)\n"), 'escapes:ValueError')
br('C04', 'remote-wait-unguarded-rpc', (RM, "                try:\n                    send_msg(self._ctrl_sock, ('wait', (remote_timeout, )), comment='ctrl: wait')\n                    result = recv_msg(self._ctrl_sock, comment='ctrl: wait result')\n                    logger.debug('Remote wait result: {}', result)\n                except ConnectionClosedError:\n                    # connection closed, nothing more to do than assume the child is dead\n                    # at the remote side\n                    logger.details('Connection to the remote control thread is closed - assuming child dead')\n                    self._remote_dead = True\n                    result = True\n",
                                        "                send_msg(self._ctrl_sock, ('wait', (remote_timeout, )), comment='ctrl: wait')\n                result = recv_msg(self._ctrl_sock, comment='ctrl: wait result')\n                logger.debug('Remote wait result: {}', result)\n"), 'escapes:ConnectionClosedError')
br('C04', 'stale-liveness', (PR, "        self._join(timeout)\n        alive = self._child.is_alive()\n        if not alive:\n            self._dead = True\n        return not alive\n\n    def terminate", "        alive = self._child.is_alive()\n        self._join(timeout)\n        if not alive:\n            self._dead = True\n        return not alive\n\n    def terminate"), 'return-stale')
br('C04', 'force-default-false', (PR, "    def terminate(self, timeout=1, force=True):\n        ''' Default timeout is 1 sec", "    def terminate(self, timeout=1, force=False):\n        ''' Default timeout is 1 sec"), 'force-default')
br('C04', 'force-kill-condition', (PR, "            if self._child.is_alive():\n                if force:\n                    self._child.terminate()", "            if self._child.is_alive():\n                if force and timeout:\n                    self._child.terminate()"), 'force-kill-condition')
br('C04', 'remote-wait-without-timeout-arg', (RM, "send_msg(self._ctrl_sock, ('wait', (remote_timeout, )), comment='ctrl: wait')", "send_msg(self._ctrl_sock, ('wait', (None, )), comment='ctrl: wait')"), 'unbounded-rpc')
br('C04', 'dead-flag-without-evidence', (PP, "        self._join(timeout)\n        alive = self._child.is_alive()\n        if not alive:\n            self._dead = True\n        return not alive", "        self._join(timeout)\n        alive = self._child.is_alive()\n        self._dead = True\n        return not alive"), 'dead-flag-without-evidence')
br('C04', 'ctrl-sock-use-after-close', (RM, "            if not self._remote_dead:\n                logger.debug('Sending a wait message with args: {}', (remote_timeout, ))", "            if True:\n                logger.debug('Sending a wait message with args: {}', (remote_timeout, ))"), 'ctrl-sock-use-after-close')

# =============================================================================================== C05
br('C05', 'deepcopy-hoisted', (PT, "        while not self._stop:\n            args = list(copy.deepcopy(self._args))\n            kwargs = copy.deepcopy(self._kwargs)\n", "        args = list(copy.deepcopy(self._args))\n        kwargs = copy.deepcopy(self._kwargs)\n        while not self._stop:\n"), 'defaults-not-per-iteration')
br('C05', 'deepcopy-to-copy', (PP, "            kwargs = copy.deepcopy(self._kwargs)", "            kwargs = copy.copy(self._kwargs)"), 'defaults-not-deepcopied')
br('C05', 'slice-changed', (PRM, "            args[0:len(extra_args)] = extra_args", "            args[0:len(args)] = extra_args"), 'positional-merge')
br('C05', 'kwargs-update-removed', (PT, "            kwargs.update(extra_kwargs)\n", ""), 'keyword-merge')
br('C05', 'counter-not-incremented', (PT, "        self._counter += 1\n        self._results_pipe.child_end.put((self._counter, True, result, self.id))", "        self._results_pipe.child_end.put((self._counter, True, result, self.id))"), 'counter-increments')
br('C05', 'counter-incremented-twice', (PP, "        self._counter += 1\n        self._results_pipe.child_end.put((self._counter, True, result, self.id))", "        self._counter += 1\n        self._counter += 1\n        self._results_pipe.child_end.put((self._counter, True, result, self.id))"), 'counter-increments')
br('C05', 'enqueue-guard-loses-closed', (PT, "        if not self.is_alive() or self._closed:\n            raise WorkerClosedError(self)\n        self._args_pipe.parent_end.put((args, kwargs))", "        if not self.is_alive():\n            raise WorkerClosedError(self)\n        self._args_pipe.parent_end.put((args, kwargs))"), 'guard-missing:closed')
br('C05', 'release_child-loses-closed-flag', (PT, "        self._args_pipe.parent_end.put(None)\n        self._closed = True", "        self._args_pipe.parent_end.put(None)"), 'closed-flag-not-set')
br('C05', 'tuple-defaults-again', (PRM, "            args = list(copy.deepcopy(self._args))", "            args = copy.deepcopy(self._args)"), 'merge-target-not-list')
br('C05', 'result-sent-twice', (PP, "            result = self.run(*args, **kwargs)\n            self._send_result(result)", "            result = self.run(*args, **kwargs)\n            self._send_result(result)\n            self._send_result(result)"), 'send-result-sites')
br('C05', 'do_work-returns-zero', (PT, "            self._send_result(result)\n\n        return self._counter", "            self._send_result(result)\n\n        return 0"), 'return-not-counter')
br('C05', 'counter-not-reset', (PE, "    def _init_child(self):\n        self._counter = 0\n        self._stop = False", "    def _init_child(self):\n        self._stop = False"), 'counter-not-reset')
br('C05', 'send_result-sends-args', (PRM, "            result = self.run(*args, **kwargs)\n            self._send_result(result)", "            result = self.run(*args, **kwargs)\n            self._send_result(args)"), 'send-result-arg')
br('C05', 'wait-does-not-close', (PP, "        if not self.is_alive():\n            return True\n        self.close()\n        self._join(timeout)", "        if not self.is_alive():\n            return True\n        self._join(timeout)"), 'wait-does-not-release')
br('C05', 'result-message-flag', (PT, "        self._results_pipe.child_end.put((self._counter, True, result, self.id))", "        self._results_pipe.child_end.put((self._counter, False, result, self.id))"), None)

# =============================================================================================== C06
br('C06', 'thread-cleanup-not-in-finally', (T, "            logger.exception('Exception occurred while running the main function')\n        finally:\n            self._cleanup()", "            logger.exception('Exception occurred while running the main function')\n        self._cleanup()"), 'exit-without-cleanup')
br('C06', 'frontend-fabrication-removed', (PRM, "                    if not last_partial_result_signalled:\n                        self._results_pipe.child_end.put((counter, False, None, self.id))\n                        last_partial_result_signalled = True\n                    break",
                                           "                    last_partial_result_signalled = True\n                    break"), 'exit-without-marker')
br('C06', 'next_result-always-blocking', (PE, "        if not self.is_alive():\n            ret = self.results_endpoint.get_nowait()\n        else:\n            ret = self.results_endpoint.get(block=block, timeout=timeout)", "        ret = self.results_endpoint.get(block=block, timeout=timeout)"), 'blocking-read-when-dead')
br('C06', 'frontend-counter-belief-back', (PRM, "                        if remote_counter != counter:\n", "                        assert remote_counter == counter, f'{remote_counter} {counter}'\n                        if remote_counter != counter:\n"), 'marker-counter-belief')
br('C06', 'counter-only-in-init_child', (PE, "        self._counter = 0\n        self._stop = False\n        super().__init__(target, **kwargs)", "        super().__init__(target, **kwargs)"), 'cleanup-reads-undefined')
br('C06', 'frontend-finally-removed-close', (PRM, "                self._results_pipe.child_end.put((counter, False, None, self.id))\n            self._results_pipe.child_end.close()", "                self._results_pipe.child_end.put((counter, False, None, self.id))"), 'exit-without-close')
br('C06', 'process-cleanup-no-marker', (PP, "        self._results_pipe.child_end.put((self._counter, False, None, self.id))\n        self._results_pipe.child_end.close()\n        self._args_pipe.child_end.close()", "        self._results_pipe.child_end.close()\n        self._args_pipe.child_end.close()"), 'marker-count')
br('C06', 'pipe-get-nonblocking-without-poll', (U, "        if not block:\n            try:\n                if not self._pipe.poll():\n                    raise queue.Empty\n            except (BrokenPipeError, OSError):\n                raise queue.Empty\n", ""), 'nonblocking-read-without-poll')
br('C06', 'process-run-cleanup-removed', (PR, "        finally:\n            self._cleanup()\n            if self._ctrl_thread.is_alive()", "        finally:\n            if self._ctrl_thread.is_alive()"), 'cleanup')
br('C06', 'marker-on-wrong-channel', (PT, "        self._results_pipe.child_end.put((self._counter, False, None, self.id))", "        self._args_pipe.child_end.put((self._counter, False, None, self.id))"), 'marker-channel')
br('C06', 'frontend-forwarded-marker-flag-not-set', (PRM, "                        self._results_pipe.child_end.put(result)\n                        last_partial_result_signalled = True\n                        if remote_counter != counter:", "                        self._results_pipe.child_end.put(result)\n                        if remote_counter != counter:"), 'double-marker')
br('C06', 'results_iter-ignores-empty', (PE, "            except queue.Empty:\n                break", "            except queue.Empty:\n                continue"), 'iter-does-not-stop')

# =============================================================================================== C07
br('C07', 'death-loses-retries', (PO, "                if self._retry:\n                    self._retries.extend(self._pending_per_worker[worker.id])\n\n", ""), 'pending-lost-on-death')
br('C07', 'death-not-marked-closed', (PO, "                self._closed.add(worker.id)\n                if worker_callback:\n                    worker_callback(worker, 'died')", "                if worker_callback:\n                    worker_callback(worker, 'died')"), 'death-not-marked-closed')
br('C07', 'pop-last', (PO, "                self._pending_per_worker[worker.id].pop(0)", "                self._pending_per_worker[worker.id].pop()"), 'pop-index')
br('C07', 'verdict-loses-retries', (PO, "            ok = (self._depleted and not self._pending and not self._retries)", "            ok = (self._depleted and not self._pending)"), 'verdict')
br('C07', 'eof-no-closing-message', (PO, "                        if wid not in self._closed:\n                            msg = (None, False, None, wid)\n                            logger.debug('Artificial closing message from worker {} created', wid)\n                        else:\n                            continue", "                        continue"), 'no-artificial-closing-message')
br('C07', 'closed-result-check-removed', (PO, "                    elif worker.id in self._closed:\n                        # the worker died after sending this result and its death has already been handled (while\n                        # enqueueing): its pending inputs have already been dropped or scheduled to be retried\n                        logger.debug('Ignoring a result from a worker which has already been closed: {}', worker)\n", ""), 'result-of-closed-worker-consumed')
br('C07', 'recv-handler-narrowed', (PO, "                    except (EOFError, OSError):", "                    except EOFError:"), 'recv-handler-misses')
br('C07', 'enqueue-counter-unpaired', (PO, "                self._pending += 1\n                self._pending_per_worker[worker.id].append(data)", "                self._pending_per_worker[worker.id].append(data)"), 'unpaired')
br('C07', 'input-dropped-on-live-failure', (PO, "                            if not worker.is_alive():\n                                handle_death(worker, 'while enqueueing')\n                                handle_unused_data(inp, from_retries)\n                                return True", "                            if not worker.is_alive():\n                                handle_death(worker, 'while enqueueing')\n                                return True"), 'input-lost')
br('C07', 'unused-data-dropped-with-retry', (PO, "                if from_retries:\n                    self._retries.insert(0, data)\n                else:\n                    self._retries.append(data)", "                if from_retries:\n                    self._retries.insert(0, data)"), 'unused-path-drops-input')
br('C07', 'loop-condition-loses-live-workers', (PO, "            while self._pending and set(self._get_all_workers_ids()).difference(self._closed):", "            while self._pending:"), 'loop-condition')
br('C07', 'map-guard-not-in-finally', (PO, "        finally:\n            self._map_guard = False\n\n        if not ok:", "        finally:\n            pass\n\n        self._map_guard = False\n        if not ok:"), 'map-guard')
br('C07', 'second-append', (PO, "                if worker_callback:\n                    worker_callback(worker, 'finished', result)\n                if return_results:\n                    ret.append(result)", "                if worker_callback:\n                    worker_callback(worker, 'finished', result)\n                    ret.append(result)\n                if return_results:\n                    ret.append(result)"), 'result-append-sites')
br('C07', 'death-clear-before-count', (PO, "                self._pending -= len(self._pending_per_worker[worker.id])\n                self._pending_per_worker[worker.id].clear()", "                self._pending_per_worker[worker.id].clear()\n                self._pending -= len(self._pending_per_worker[worker.id])"), 'counter-step')
br('C07', 'enqueue-both-pending-and-unused', (PO, "                        handle_enqueue(worker, inp)\n                        return True", "                        handle_enqueue(worker, inp)\n                        handle_unused_data(inp, from_retries)\n                        return True"), 'input-duplicated')

# =============================================================================================== C08
br('C08', 'partial-results-none', (PO, "partial_results=(ret if return_results else None))", "partial_results=None)"), 'partial-results-value')
br('C08', 'second-poolerror', (PO, "                    if msg is None:\n                        logger.warning('Received None message", "                    if msg is None:\n                        raise PoolError('None received')\n                        logger.warning('Received None message"), 'PoolError')
br('C08', 'poolerror-unguarded', (PO, "        if not ok:\n            raise PoolError(", "        if not ok or not return_results:\n            raise PoolError("), 'PoolError-not-guarded')
br('C08', 'closed-worker-handover-evidence-removed', (PO, "                            if not worker.is_alive():\n                                handle_death(worker, 'while enqueueing')\n                                handle_unused_data(inp, from_retries)\n                                return True\n                            else:",
                                                      "                            if True:\n                                handle_death(worker, 'while enqueueing')\n                                handle_unused_data(inp, from_retries)\n                                return True\n                            else:"), 'handover-without-death-evidence')
br('C08', 'return-value-not-results', (PO, "        if return_results:\n            return ret", "        if return_results:\n            return list(self._retries)"), 'return-value')
br('C08', 'poolerror-drops-partial-results', (PO, "        super().__init__(msg)\n        self.partial_results = partial_results", "        super().__init__(msg)\n        self.partial_results = None"), 'partial-results-not-stored')

# =============================================================================================== C09
br('C09', 'exit-error-branch-pass', (PO, "        if exc[0] is None:\n            self.close()\n        else:\n            self.terminate()", "        if exc[0] is None:\n            self.close()\n        else:\n            pass"), 'exit')
br('C09', 'escalation-needs-force', (PO, "                if alive and (force is not False or not graceful):", "                if alive and force:"), 'escalation-condition')
br('C09', 'prologue-loses-retries', (PO, "            self._pending_per_worker = { worker.id: [] for worker in self.workers }\n            self._retries = []\n", "            self._pending_per_worker = { worker.id: [] for worker in self.workers }\n"), 'not-reinitialised:_retries')
br('C09', 'restart-forgets-queue', (PO, "            self._workers[w.id] = w\n            self._queues[w.id] = queue.parent_end", "            self._workers[w.id] = w"), 'unpaired-map-update')
br('C09', 'failure-handler-no-terminate', (PO, "                    self._queues.pop(worker.id, None)\n\n                worker.terminate()\n            raise", "                    self._queues.pop(worker.id, None)\n\n            raise"), 'failure-handler')
br('C09', 'cleanup-skips-wait', (PO, "                alive = not worker.wait(timeout=timeout)\n", "                alive = worker.is_alive()\n"), None)
br('C09', 'closed-set-reset', (PO, "            self._retries = []\n            ret = []", "            self._retries = []\n            self._closed = set()\n            ret = []"), 'closed-set-reset')
br('C09', 'cleanup-threads-not-joined', (PO, "        try:\n            for t in _cleanup_jobs:\n                t.join()\n        except:\n            for t in _cleanup_jobs:\n                if t.is_alive():\n                    foreign_raise(t.ident, SystemExit)\n\n            raise\n", ""), 'cleanup-not-joined')
br('C09', 'add_worker-forgets-queue', (PO, "                self._workers[worker.id] = worker\n                self._queues[worker.id] = queue.parent_end", "                self._workers[worker.id] = worker"), 'unpaired-map-update')
br('C09', 'restart-reuses-pipe', (PO, "            w.restart(timeout=timeout, results_pipe=queue, **kwargs)", "            w.restart(timeout=timeout, **kwargs)"), 'restart-reuses-pipe')

# =============================================================================================== C10
br('C10', 'formats-differ', (RM, "    data_len = struct.pack('!I', len(data))", "    data_len = struct.pack('<I', len(data))"), 'header:format')
br('C10', 'empty-chunk-test-removed', (RM, "            if not chunk:\n                # end of stream before the requested number of bytes has arrived\n                raise ConnectionClosedError()\n", ""), 'exact-read')
br('C10', 'over-read', (RM, "            chunk = sock.recv(size - len(data))", "            chunk = sock.recv(size)"), 'exact-read')
br('C10', 'sendall-to-send', (RM, "        sock.sendall(data_len + data)", "        sock.send(data_len + data)"), 'write:send')
br('C10', 'recv-handler-narrowed', (RM, "    except OSError as e:\n        raise ConnectionClosedError() from e\n    return bytes(data)", "    except ConnectionResetError as e:\n        raise ConnectionClosedError() from e\n    return bytes(data)"), 'escape:OSError')
br('C10', 'header-size-wrong', (RM, "    data_len = struct.unpack('!I', _recv_exact(sock, 4))[0]", "    data_len = struct.unpack('!I', _recv_exact(sock, 2))[0]"), 'header:size')
br('C10', 'single-recv-header', (RM, "    data_len = struct.unpack('!I', _recv_exact(sock, 4))[0]", "    data_len = struct.unpack('!I', sock.recv(4))[0]"), None)
br('C10', 'body-order-swapped', (RM, "        sock.sendall(data_len + data)", "        sock.sendall(data + data_len)"), 'write:order')
br('C10', 'empty-chunk-breaks', (RM, "            if not chunk:\n                # end of stream before the requested number of bytes has arrived\n                raise ConnectionClosedError()", "            if not chunk:\n                # end of stream before the requested number of bytes has arrived\n                break"), 'exact-read')
br('C10', 'length-of-wrong-object', (RM, "    data_len = struct.pack('!I', len(data))", "    data_len = struct.pack('!I', len(msg))"), None)
br('C10', 'send-handler-removed', (RM, "    try:\n        sock.sendall(data_len + data)\n    except (BrokenPipeError, ConnectionResetError, ConnectionAbortedError, OSError) as e:\n        logger.debug('Sending failed: {}', e)\n        raise ConnectionClosedError() from e", "    sock.sendall(data_len + data)"), 'send_msg')
br('C10', 'body-size-wrong-var', (RM, "    data = _recv_exact(sock, data_len)", "    data = _recv_exact(sock, 4)"), 'body:size-arg')

# =============================================================================================== C11
br('C11', 'worker-read-handler-removed', (RS, "                        try:\n                            child = recv_msg(cli, { '_socket': cli, '_reset_sigterm_hnd': True }, comment='server: remote worker')\n                        except ConnectionClosedError:\n                            logger.info('Client disconnected before child was successfully created')\n                            cli.close()\n                            continue\n",
                                          "                        child = recv_msg(cli, { '_socket': cli, '_reset_sigterm_hnd': True }, comment='server: remote worker')\n"), 'uncontained')
br('C11', 'continue-without-close', (RS, "                            logger.warning('Context {} does not exist!', ctx_id)\n                            cli.close() # let the client know that nothing is going to happen\n                            continue", "                            logger.warning('Context {} does not exist!', ctx_id)\n                            continue"), 'abandon-without-close')
br('C11', 'header-handler-reraises', (RS, "                    logger.info('Client disconnected before sending a header')\n                    cli.close()\n                    continue", "                    logger.info('Client disconnected before sending a header')\n                    cli.close()\n                    raise"), 'uncontained')
br('C11', 'accept-not-multiplexed', (RM, "            ready = mp.connection.wait([incoming, self._socket])\n            if incoming not in ready:\n                incoming.close()\n                raise ConnectionClosedError()\n", ""), 'bare-accept')
br('C11', 'runtime-info-bare-recv', (RM, "            ready = mp.connection.wait([self._comms.parent_end, self._child.sentinel])\n            if self._comms.parent_end not in ready:\n                # the child died before it could tell us anything, the remote control thread cleans up\n                raise ConnectionClosedError()\n", ""), 'bare-startup-recv')
br('C11', 'setstate-raises-other', (RM, "            if incoming not in ready:\n                incoming.close()\n                raise ConnectionClosedError()", "            if incoming not in ready:\n                incoming.close()\n                raise RuntimeError('client gone')"), 'setstate-raises')
br('C11', 'reply-send-unguarded', (RS, "                    try:\n                        send_msg(cli, result, comment=f'server: context operation - {result}')\n                    except ConnectionClosedError:\n                        logger.info('Client disconnected before receiving the result of a context operation')\n                        cli.close()", "                    send_msg(cli, result, comment=f'server: context operation - {result}')"), 'uncontained')
br('C11', 'handler-breaks-loop', (RS, "                        logger.info('Client disconnected before a context operation was received')\n                        cli.close()\n                        continue", "                        logger.info('Client disconnected before a context operation was received')\n                        cli.close()\n                        break"), 'uncontained')

# =============================================================================================== C12
br('C12', 'reap-children-only', (RS, "            for child in itertools.chain(self.children, self.contexts.values()):", "            for child in self.children:"), 'registry-not-reaped')
br('C12', 'reap-no-sigterm', (RS, "                    child.terminate(timeout=1, force=True, _release_remote_ctrl=True)\n                    if child.is_alive():\n                        os.kill(child.pid, signal.SIGTERM)\n                except:\n                    logger.exception('Exception occurred while killing a remote child:')\n\n            self.children.clear()",
                              "                    child.terminate(timeout=1, force=True, _release_remote_ctrl=True)\n                except:\n                    logger.exception('Exception occurred while killing a remote child:')\n\n            self.children.clear()"), 'reap-no-sigterm-fallback')
br('C12', 'reap-force-false', (RS, "                    child.terminate(timeout=1, force=True, _release_remote_ctrl=True)\n                    if child.is_alive():\n                        os.kill(child.pid, signal.SIGTERM)\n                except:\n                    logger.exception('Exception occurred while killing a remote child:')\n\n            self.children.clear()",
                               "                    child.terminate(timeout=1, force=False, _release_remote_ctrl=True)\n                    if child.is_alive():\n                        os.kill(child.pid, signal.SIGTERM)\n                except:\n                    logger.exception('Exception occurred while killing a remote child:')\n\n            self.children.clear()"), 'reap-force')
br('C12', 'release_self-removed', (RS, "    def _release_self(self):\n        self._server.break_accept()\n", "    def _release_self(self):\n        pass\n"), 'release-self-missing')
br('C12', 'context-cleanup-not-finally', (RC, "        try:\n            ret = super().do_work()\n        finally:\n            self._target(None, _clean=True)", "        ret = super().do_work()\n        self._target(None, _clean=True)"), 'context-cleanup-not-in-finally')
br('C12', 'forced-kill-silent', (RM, "                    try:\n                        send_msg(self._socket, (False, None), comment='data: force terminate result')\n                        self._socket.close()\n                    except ConnectionClosedError:\n                        pass\n", ""), 'forced-kill')
br('C12', 'sentinel-no-close', (RM, "                    try:\n                        self._socket.shutdown(socket.SHUT_WR)\n                        self._socket.close()\n                    except OSError:\n                        pass\n                    raise GracefulExitError()", "                    raise GracefulExitError()"), 'child-death-socket-open')
br('C12', 'graceful-stop-reraised', (RS, "        except (WorkerTerminatedError, KeyboardInterrupt):\n            pass", "        except (WorkerTerminatedError, KeyboardInterrupt):\n            raise"), 'graceful-stop-not-absorbed')
br('C12', 'context-child-not-registered', (RC, "            child = recv_msg(cli, state_patches, comment='context: remote worker')\n            self._children.append(child)", "            child = recv_msg(cli, state_patches, comment='context: remote worker')"), 'context-child-not-registered')
br('C12', 'sigterm-handler-no-reraise', (RS, "            signal.signal(signal.SIGTERM, signal.SIG_DFL)\n            os.kill(os.getpid(), signal.SIGTERM)", "            signal.signal(signal.SIGTERM, signal.SIG_DFL)"), 'sigterm-not-reraised')

# =============================================================================================== C13
br('C13', 'issubclass-test-dropped', (PK, "                if issubclass(key, SupportRemoteGetState):\n                    return self.method", "                if True:\n                    return self.method"), 'routing-unconditional')
br('C13', 'reducer-drops-flag', (PK, "        state = obj.__getstate__(remote=self._remote)", "        state = obj.__getstate__()"), 'reducer-flag')
br('C13', 'copyreg-fallback-removed', (PK, "            self.dispatch_table = dyn_dispatch_table(self.remote_reduce, copyreg.dispatch_table)", "            self.dispatch_table = dyn_dispatch_table(self.remote_reduce)"), 'table-not-from-copyreg')
br('C13', 'registration-unconditional', (PK, "        if self._remote:\n            # a private dispatch table replaces the global one (it does not extend it), so start from copyreg's;\n            # without 'remote' no private table is needed at all and we behave like the standard pickler\n            self.dispatch_table = dyn_dispatch_table(self.remote_reduce, copyreg.dispatch_table)\n            for cls in SupportRemoteGetState.supported_classes:\n                self.dispatch_table[cls] = self.remote_reduce",
                                         "        self.dispatch_table = dyn_dispatch_table(self.remote_reduce, copyreg.dispatch_table)\n        for cls in SupportRemoteGetState.supported_classes:\n            self.dispatch_table[cls] = self.remote_reduce"), 'unconditional')
br('C13', 'getstate-default-true', (RM, "    def __getstate__(self, remote=False):\n        if not remote and not self._remote_side:", "    def __getstate__(self, remote=True):\n        if not remote and not self._remote_side:"), 'getstate-default')
br('C13', 'dumps-drops-flag', (RP, "    buff = io.BytesIO()\n    p = RemotePickler(buff, protocol, remote=remote, **kwargs)", "    buff = io.BytesIO()\n    p = RemotePickler(buff, protocol, **kwargs)"), 'remote_dumps-flag')
br('C13', 'warning-removed', (RP, "                        raise Warning(msg)", "                        pass"), 'inconsistent-chain-accepted')
br('C13', 'table-ctor-drops-content', (PK, "    def __init__(self, method, *args, **kwargs):\n        super().__init__(*args, **kwargs)", "    def __init__(self, method, *args, **kwargs):\n        super().__init__()"), 'table-ctor-drops-content')

# =============================================================================================== C14
br('C14', 'second-getstate', (PK, "        state = obj.__getstate__(remote=self._remote)\n", "        state = obj.__getstate__(remote=self._remote)\n        if not state:\n            state = obj.__getstate__(remote=self._remote)\n"), 'getstate')
br('C14', 'newargs-loses-args', (PK, "            newargs = (type(obj), *args)", "            newargs = (type(obj),)"), 'newobj-shapes')
br('C14', 'setstate-unguarded-again', (ST, "        orig_setstate = getattr(type(ret), '__setstate__', None) # a class does not have to define it", "        orig_setstate = ret.__setstate__.__func__"), 'unguarded-hook')
br('C14', 'reduce-order', (PK, "        return (newobj, newargs, state, listitems, dictitems)", "        return (newobj, newargs, state, dictitems, listitems)"), 'reduce-order')
br('C14', 'helper-not-used', (PK, "        newobj = RemoteState.recreate_obj_and_patch_setstate\n", ""), None)
br('C14', 'break_patches-not-called', (ST, "        RemoteState.break_patches(children_names)\n        return ret", "        return ret"), 'helper-break-patches')
br('C14', 'close-does-not-decrement', (ST, "        del cls._active_contexts.stack[cls.patches_iter()]\n        cls.decrement_patches_iter()", "        del cls._active_contexts.stack[cls.patches_iter()]"), 'pop-effect')
br('C14', 'getstate-of-type', (PK, "        state = obj.__getstate__(remote=self._remote)", "        state = type(obj).__getstate__(remote=self._remote)"), 'getstate-call')

# =============================================================================================== C15
br('C15', 'conditional-init', (ST, "            RemoteState._active_contexts.stack = []\n            RemoteState._active_contexts.iter = -1", "            if not hasattr(RemoteState._active_contexts, 'stack'):\n                RemoteState._active_contexts.stack = []\n            RemoteState._active_contexts.iter = -1"), 'field-not-reinitialised:stack')
br('C15', 'fake-local', (ST, "    _active_contexts = threading.local()", "    _active_contexts = fake_threading_local"), 'state-not-thread-local')
br('C15', 'second-merge-site', (ST, "                parent_patches[obj_name] = obj\n\n        cls.close_current_ctx()", "                parent_patches[obj_name] = obj\n\n        obj.__dict__.update(cls.current_patches())\n        cls.close_current_ctx()"), 'merge-sites')
br('C15', 'loads-outside-context', (RP, "    with RemoteState.context(extra_kwargs):\n        return pickle.loads(buff, **kwargs)", "    RemoteState.context(extra_kwargs)\n    return pickle.loads(buff, **kwargs)"), 'remote_loads-outside-context')
br('C15', 'merge-parent-patches', (ST, "                patched_state.update(RemoteState.current_patches())", "                patched_state.update(RemoteState.parent_patches())"), 'merge-source')
br('C15', 'loads-drops-patches', (RP, "    with RemoteState.context(extra_kwargs):\n        return pickle.loads(buff, **kwargs)", "    with RemoteState.context({}):\n        return pickle.loads(buff, **kwargs)"), 'remote_loads-patches-dropped')
br('C15', 'iter-not-reinitialised', (ST, "            RemoteState._active_contexts.iter = -1\n            RemoteState._active_contexts.unused = True", "            RemoteState._active_contexts.unused = True"), 'field-not-reinitialised:iter')

# =============================================================================================== C16
br('C16', 'exception-path-sends-None-state', (PR, "            self._comms.child_end.put(((False, e), self._user_state))", "            self._comms.child_end.put(((False, e), None))"), 'report-without-state')
br('C16', 'result-state-swapped', (RM, "            send_msg(self._socket, result, 'data: result')\n            send_msg(self._socket, self._user_state, 'data: user state')", "            send_msg(self._socket, self._user_state, 'data: user state')\n            send_msg(self._socket, result, 'data: result')"), 'state-not-after-outcome')
br('C16', 'setter-guard-removed', (W, "        if not self.is_child:\n            raise RuntimeError('user_state can only be modified from within the worker')\n        self._user_state = value", "        self._user_state = value"), 'setter')
br('C16', 'restart-args-drop-state', (W, "'set_names': self._set_names, 'init_state': self._user_state }", "'set_names': self._set_names }"), 'restart-args-without-state')
br('C16', 'restart-no-get_result', (PE, "        self._get_result() # this is required to sync user state in some cases (fetch results, at least persistant process)\n", ""), 'restart-order')
br('C16', 'getter-does-not-sync', (W, "        self._sync_user_state()\n        return self._user_state", "        return self._user_state"), 'getter-does-not-sync')
br('C16', 'frontend-drops-state', (RM, "            self._user_state = recv_msg(self._socket, comment='data: user state')\n            logger.debug('User state received')\n        logger.details('Result: {}', self._result)", "            recv_msg(self._socket, comment='data: user state')\n            logger.debug('User state received')\n        logger.details('Result: {}', self._result)"), 'frontend-state-store')
br('C16', 'wait-writes-state', (PR, "        alive = self._child.is_alive()\n        if not alive:\n            self._dead = True\n        return not alive\n\n    def terminate", "        alive = self._child.is_alive()\n        if not alive:\n            self._dead = True\n            self._user_state = None\n        return not alive\n\n    def terminate"), 'foreign-state-writer')
br('C16', 'process-sync-hook-removed', (PR, "    def _sync_user_state(self):\n        if not self._is_child:\n            self._get_result() # the final state arrives together with the result\n", "    def _sync_user_state(self):\n        pass\n"), 'getter-does-not-sync')

# =============================================================================================== C17
br('C17', 'raise-removed', (PE, "            if self.is_alive():\n                raise RuntimeError(f'Could not stop a worker!')\n", ""), 'clear-without-death-evidence')
br('C17', 'name-dropped', (W, "'kwargs': self._kwargs, 'name': self._name, 'userid': self._userid,", "'kwargs': self._kwargs, 'userid': self._userid,"), 'restart-arg-missing:name')
br('C17', 'is_restart-dropped', (PE, "**ctor_kwargs, _is_restart=True)", "**ctor_kwargs)"), 'reinit-not-marked-restart')
br('C17', 'remote-host-dropped', (RM, "        kwargs.update({ 'host': self._target_host, 'context': self._context, 'main_path': self._main_path })", "        kwargs.update({ 'context': self._context, 'main_path': self._main_path })"), 'restart-arg-missing:host')
br('C17', 'userid-wrong-attr', (W, "'userid': self._userid, 'run'", "'userid': self._name, 'run'"), 'restart-arg-value')
br('C17', 'restart-no-wait', (PE, "        if not self.wait(timeout=timeout):\n            self.terminate(*args, **kwargs)\n            if self.is_alive():\n                raise RuntimeError(f'Could not stop a worker!')\n", "        self.terminate(*args, **kwargs)\n"), 'clear-without-death-evidence')
br('C17', 'results-pipe-dropped', (PE, "type(self).__init__(self, *ctor_args, results_pipe=results_pipe, **ctor_kwargs, _is_restart=True)", "type(self).__init__(self, *ctor_args, **ctor_kwargs, _is_restart=True)"), 'reinit-results-pipe')
br('C17', 'pool-restart-keeps-old-key', (PO, "            self._workers[w.id] = w\n            self._queues[w.id] = queue.parent_end", "            self._workers[oldid] = w\n            self._queues[oldid] = queue.parent_end"), 'pool-restart-rekey')

# =============================================================================================== C18
br('C18', 'duplicate-check-removed', (RS, "                        if ctx_id in self.contexts:\n                            logger.warning('Context {} already exists', ctx_id)\n                            result = False\n                        else:\n                            self.contexts[ctx_id] = context", "                        self.contexts[ctx_id] = context"), 'context-overwrite')
br('C18', 'pop-without-default', (RS, "                        current = self.contexts.pop(ctx_id, None)", "                        current = self.contexts.pop(ctx_id)"), 'raising-lookup:pop')
br('C18', 'subscript-lookup', (RS, "                        ctx = self.contexts.get(ctx_id, None)", "                        ctx = self.contexts[ctx_id]"), 'raising-lookup:subscript')
br('C18', 'injected-key-renamed', (RC, "                '_target': self._target,\n                '_args': self._args,", "                '_fn': self._target,\n                '_args': self._args,"), 'injected-keys')
br('C18', 'client-ignores-false', (RC, "            if not result:\n                raise ValueError(f'Context with id {self._id} already exists on the target host {self._target_host!r}')\n", ""), 'duplicate-not-reported')
br('C18', 'delete-without-terminate', (RS, "                            if not current.wait(timeout=5):\n                                result = current.terminate(timeout=0.1)\n", ""), 'delete-chain')
br('C18', 'duplicate-answers-true', (RS, "                            logger.warning('Context {} already exists', ctx_id)\n                            result = False", "                            logger.warning('Context {} already exists', ctx_id)"), 'duplicate-not-refused')
br('C18', 'patch-value-wrong', (RC, "                '_kwargs': self._kwargs,\n                **self._extra_state", "                '_kwargs': self._args,\n                **self._extra_state"), 'patch-value')
br('C18', 'context-op-unanswered', (RS, "                    try:\n                        send_msg(cli, result, comment=f'server: context operation - {result}')\n                    except ConnectionClosedError:\n                        logger.info('Client disconnected before receiving the result of a context operation')\n                        cli.close()", "                    pass"), 'context-op-unanswered')

# =============================================================================================== C19
br('C19', 'pruned-list-elsewhere', (W, "            Worker._active_children = [child for child in Worker._active_children if child.is_alive()]", "            Worker._children = [child for child in Worker._active_children if child.is_alive()]"), 'pruned-list-stored-to')
br('C19', 'lock-removed', (W, "        with Worker._children_lock:\n            if not any(child is other for other in Worker._active_children):\n                Worker._active_children.append(child)", "        if not any(child is other for other in Worker._active_children):\n            Worker._active_children.append(child)"), 'unlocked-access')
br('C19', 'terminate-fallback-removed', (W, "            if not child.wait(timeout=0.1):\n                child.terminate(timeout=0.1)", "            child.wait(timeout=0.1)"), 'missing-terminate')
br('C19', 'restart-excluded-again', (W, "            if not self._dead:\n                Worker.register_child(self)", "            if not self._dead and not _is_restart:\n                Worker.register_child(self)"), 'restart-excluded')
br('C19', 'yield-under-lock', (W, "            cpy = copy.copy(Worker._active_children)\n        for child in cpy:\n            yield child", "            cpy = copy.copy(Worker._active_children)\n            for child in cpy:\n                yield child"), 'yield-under-lock')
br('C19', 'register-not-idempotent', (W, "            if not any(child is other for other in Worker._active_children):\n                Worker._active_children.append(child)", "            Worker._active_children.append(child)"), 'non-idempotent')
br('C19', 'no-pruning', (W, "            Worker._active_children = [child for child in Worker._active_children if child.is_alive()]\n", ""), 'no-pruning')
br('C19', 'autoclose-not-finally', (W, "    try:\n        yield\n    finally:\n        for child in Worker.active_children():", "    yield\n    if True:\n        for child in Worker.active_children():"), 'autoclose')

# =============================================================================================== C20
br('C20', 'set-only-on-success', (RM, "                except OSError:\n                    pass\n            self._startup_sync.set()\n            return", "                except OSError:\n                    pass\n            return"), 'exit-without-set')
br('C20', 'sentinel-dropped', (PR, "        ready = mp.connection.wait([self._comms.parent_end, self._child.sentinel])\n        if self._comms.parent_end in ready:", "        ready = mp.connection.wait([self._comms.parent_end])\n        if self._comms.parent_end in ready:"), 'bare-startup-recv')
br('C20', 'register-before-start', (W, "            self._start()\n            if not self._dead:\n                Worker.register_child(self)", "            Worker.register_child(self)\n            self._start()"), 'register-before-start')
br('C20', 'startup-error-not-raised', (RM, "        if self._startup_error is not None:\n            self._child.join()\n            self._dead = True\n            raise self._startup_error\n", ""), 'startup-error-not-raised')
br('C20', 'server-process-bare-recv', (RS, "        ready = mp.connection.wait([self._comms.parent_end, self._child.sentinel])\n        if self._comms.parent_end not in ready:\n            # the server process died without telling us its address\n            self._addr = None\n            return\n", ""), 'bare-startup-recv')
br('C20', 'frontend-handler-narrowed', (RM, "        except BaseException as e:\n            # the main thread is waiting for us - tell it that the child could not be created", "        except ConnectionClosedError as e:\n            # the main thread is waiting for us - tell it that the child could not be created"), 'exit-without-set')
br('C20', 'ctrl_fn-sets-late', (PR, "        self._ctrl_thread_sync.set()\n        sig = self._ctrl_comms.child_end.recv()", "        sig = self._ctrl_comms.child_end.recv()\n        self._ctrl_thread_sync.set()"), 'exit-without-set')
br('C20', 'frontend-failure-leaks-sockets', (RM, "            for sock in (ctrl_sock, self._socket):\n                try:\n                    if sock is not None:\n                        sock.close()\n                except OSError:\n                    pass\n            self._startup_sync.set()", "            self._startup_sync.set()"), 'failure-handler-leaks-sockets')

# =============================================================================================== benign
ok('rename-local-in-recv_exact', [(RM, "    data = bytearray()\n    try:\n        while len(data) < size:\n            chunk = sock.recv(size - len(data))\n            if not chunk:", "    buf = bytearray()\n    try:\n        while len(buf) < size:\n            chunk = sock.recv(size - len(buf))\n            if not chunk:"),
                                  (RM, "            data += chunk\n    except OSError as e:\n        raise ConnectionClosedError() from e\n    return bytes(data)", "            buf += chunk\n    except OSError as e:\n        raise ConnectionClosedError() from e\n    return bytes(buf)")])
ok('extra-log-in-thread-run', (T, "            self._init_child()\n            self._result = (True, self.do_work())", "            self._init_child()\n            logger.debug('child initialised')\n            self._result = (True, self.do_work())"))
ok('swap-ifs-in-error', (W, "        graceful, result = r\n        if graceful:\n            return None\n        return result", "        graceful, result = r\n        if not graceful:\n            return result\n        return None"))
ok('copy-to-list', (W, "            cpy = copy.copy(Worker._active_children)", "            cpy = list(Worker._active_children)"))
ok('guard-rewritten-if-else', (T, "        if not self.is_alive():\n            return True\n        self._child.join(timeout)\n        alive = self._child.is_alive()\n        if not alive:\n            self._dead = True\n        return not alive\n\n    def terminate",
                               "        if not self.is_alive():\n            return True\n        else:\n            self._child.join(timeout)\n            alive = self._child.is_alive()\n            if not alive:\n                self._dead = True\n            return not alive\n\n    def terminate"))
ok('extra-log-in-server-loop', (RS, "                logger.info('New client: {}', cli_addr)\n", "                logger.info('New client: {}', cli_addr)\n                logger.debug('serving {}', cli_addr)\n"))
ok('pool-message-text', (PO, "raise PoolError('Pool failed to process the whole input - all workers have died',", "raise PoolError('Pool failed to process the whole input: no worker is left',"))
ok('unused-append-vs-insert', (PO, "                    self._retries.append(data)", "                    self._retries.insert(len(self._retries), data)"))
ok('warning-text', (RS, "                            logger.warning('Context {} already exists', ctx_id)", "                            logger.warning('A context with id {} exists already', ctx_id)"))
ok('ctrl_fn_local-drops-release_self', (RM, "                foreign_raise(self._ident, WorkerTerminatedError)\n                self._release_self()\n", "                foreign_raise(self._ident, WorkerTerminatedError)\n"))
ok('args-list-normalised', (W, "        self._args = args or []", "        self._args = list(args or [])"))
ok('bytes-to-bytearray', (RM, "    return bytes(data)", "    return bytes(bytearray(data))"))
ok('trials-variable-removed', [(PO, "                trials = 0\n", ""), (PO, "                    trials += 1\n", "")])
ok('extra-log-in-cleanup', (PT, "        self._results_pipe.child_end.put((self._counter, False, None, self.id))\n        if hasattr", "        logger.debug('signalling the end of results')\n        self._results_pipe.child_end.put((self._counter, False, None, self.id))\n        if hasattr"))
ok('inline-extra-unpack', (PT, "            extra_args, extra_kwargs = extra\n            args[0:len(extra_args)] = extra_args\n            kwargs.update(extra_kwargs)", "            args[0:len(extra[0])] = extra[0]\n            kwargs.update(extra[1])"))
ok('rename-event-attr', [(T, "        self._startup_sync = threading.Event()", "        self._started_evt = threading.Event()"), (T, "        self._startup_sync.wait()", "        self._started_evt.wait()"), (T, "            self._startup_sync.set()", "            self._started_evt.set()")])
ok('comment-and-blank-lines', (PR, "        self._terminate_req = False\n", "        # no terminate request so far\n\n        self._terminate_req = False\n"))
ok('ack-read-in-helper-var', (PR, "                if self._ctrl_comms.parent_end.poll(timeout): # an unresponsive child might never acknowledge\n                    self._ctrl_comms.parent_end.get()", "                if self._ctrl_comms.parent_end.poll(timeout):\n                    self._ctrl_comms.parent_end.get() # acknowledged"))
ok('thread-store-then-extra-log', (T, "            self._result = (False, e)\n            logger.exception('Exception occurred while running the main function')", "            self._result = (False, e)\n            logger.exception('Exception occurred while running the main function')\n            logger.debug('outcome stored')"))
ok('dict-ctor-in-restart-args', (RM, "        kwargs.update({ 'host': self._target_host, 'context': self._context, 'main_path': self._main_path })", "        kwargs.update({ 'main_path': self._main_path, 'host': self._target_host, 'context': self._context })"))
ok('while-true-stop-check', (PT, "        while not self._stop:\n            args = list(copy.deepcopy(self._args))", "        while True:\n            if self._stop:\n                break\n            args = list(copy.deepcopy(self._args))"))
ok('server-log-before-close', (RS, "                    logger.info('Client disconnected before sending a header')\n                    cli.close()\n                    continue", "                    cli.close()\n                    logger.info('Client disconnected before sending a header')\n                    continue"))
ok('frontend-extra-debug', (PRM, "                    logger.debug('Connection closed by the remote peer')\n", "                    logger.debug('Connection closed by the remote peer')\n                    logger.debug('giving up')\n"))
ok('rename-dyn-table-class', [(PK, "class dyn_dispatch_table(dict):", "class DynDispatchTable(dict):"), (PK, "            self.dispatch_table = dyn_dispatch_table(self.remote_reduce, copyreg.dispatch_table)", "            self.dispatch_table = DynDispatchTable(self.remote_reduce, copyreg.dispatch_table)")])
ok('pool-exit-inverted', (PO, "        if exc[0] is None:\n            self.close()\n        else:\n            self.terminate()", "        if exc[0] is not None:\n            self.terminate()\n        else:\n            self.close()"))


def rn(name, rel, start, end, old, new):
    ok('rename-' + name, (rel, ('rename', start, end, old), new))


rn('pool-ok', PO, "    def run(self, *input_sources", "    def handle_new_worker(self, worker):", 'ok', 'success')
rn('pool-ret', PO, "    def run(self, *input_sources", "    def handle_new_worker(self, worker):", 'ret', 'gathered')
rn('pool-has_data', PO, "            def try_enqueue(worker):", "            def handle_new_result(worker, result):", 'has_data', 'got_one')
rn('pool-inp', PO, "            def try_enqueue(worker):", "            def handle_new_result(worker, result):", 'inp', 'item')
rn('pool-flag', PO, "            first_enqueue()\n", "            ok = (self._depleted", 'flag', 'valid')
rn('pool-wid', PO, "            first_enqueue()\n", "            ok = (self._depleted", 'wid', 'worker_key')
rn('pool-msg', PO, "            first_enqueue()\n", "            ok = (self._depleted", 'msg', 'message')
rn('process-wait-alive', PR, "    def wait(self, timeout=None):", "    def terminate(self, timeout=1, force=True):", 'alive', 'still_alive')
rn('process-terminate-alive', PR, "    def terminate(self, timeout=1, force=True):", "    def _get_result(self):", 'alive', 'still_alive')
rn('remote-wait-result', RM, "    def wait(self, timeout=None, remote_timeout=None):", "    def terminate(self, timeout=5, force=True", 'result', 'reply')
rn('recv_exact-chunk', RM, "def _recv_exact(sock, size):", "def recv_msg(sock", 'chunk', 'part')
rn('recv_exact-size', RM, "def _recv_exact(sock, size):", "def recv_msg(sock", 'size', 'nbytes')
rn('recv_msg-data_len', RM, "def recv_msg(sock", "def set_linger", 'data_len', 'length')
rn('do_work-extra', PT, "    def do_work(self):", "    def _send_result(self, result):", 'extra', 'item')
rn('do_work-args', PP, "    def do_work(self):", "    def _init_child(self):", 'args', 'positional')
rn('worker-result-r', W, "    def result(self):", "    def user_state(self):", 'r', 'res')
rn('thread-run-e', T, "    def _run(self):", "    def _cleanup(self):", 'e', 'exc')
rn('process-run-result', PR, "    def _run(self):", "    def _init_child(self):", 'result', 'value')
rn('backend-result', RM, "    def _run_backend(self):", "    def _init_child(self):", 'result', 'outcome')
rn('server-cli', RS, "    def run(self):\n        if self.closed:", "class RemoteServerProcess", 'cli', 'client')
rn('server-ctx_id', RS, "    def run(self):\n        if self.closed:", "class RemoteServerProcess", 'ctx_id', 'cid')
rn('server-header', RS, "    def run(self):\n        if self.closed:", "class RemoteServerProcess", 'header', 'hdr')
rn('frontend-flag', PRM, "    def _fetch_results(self):", "    # Do not transfer results queue", 'last_partial_result_signalled', 'end_signalled')
rn('frontend-valid', PRM, "    def _fetch_results(self):", "    # Do not transfer results queue", 'valid', 'is_result')
rn('break_patches-sub', ST, "    def break_patches(cls, names):", "    @staticmethod\n    def recreate_obj_and_patch_setstate", 'sub_patches', 'frames')
rn('break_patches-dummy', ST, "    def break_patches(cls, names):", "    @staticmethod\n    def recreate_obj_and_patch_setstate", 'dummy', 'placeholder')
rn('reduce-state', PK, "    def remote_reduce(self, obj):", "    def __init__(self, *args, remote=True", 'state', 'st')
rn('cleanup_worker-alive', PO, "        def cleanup_worker(worker):", "        _cleanup_jobs = []", 'alive', 'still_alive')
rn('restart-w', PO, "    def restart_workers(self", "    def run(self, *input_sources", 'w', 'wrk')
rn('restart-queue', PO, "    def restart_workers(self", "    def run(self, *input_sources", 'queue', 'pipe')
rn('ctrl_fn-sig', PR, "    def _ctrl_fn(self):", "ZZZ-END", 'sig', 'request')
rn('ctrl_fn_remote-cmd', RM, "    def _ctrl_fn_remote(self):", "ZZZ-END", 'cmd', 'command')
rn('setstate-ready', RM, "    def __setstate__(self, state):", "    def _run_backend(self):", 'ready', 'rdy')
rn('setstate-incoming', RM, "    def __setstate__(self, state):", "    def _run_backend(self):", 'incoming', 'listener')
rn('get_result-none', PR, "    def _start(self):", "    def _run(self):", 'ready', 'rdy')
rn('active_children-cpy', W, "    def active_children():", "    def register_child(child):", 'cpy', 'snapshot')
rn('autoclose-child', W, "def autoclose_active_children", "ZZZ-END", 'child', 'wrk')


ALL_FILES = [T, PR, RM, W, U, PT, PP, PRM, PE, PO, RS, RC, RP, PK, ST]
ok('reformat-every-module-with-ast-unparse', [(f, ('unparse',), None) for f in ALL_FILES])


# ----------------------------------------------------------------------------------------------- shapes of the independently seeded changes (see /verif/seeded)
br('C16', 'seed-restart-syncs-only-after-wait', (PE, "        if not self.wait(timeout=timeout):\n            self.terminate(*args, **kwargs)\n            if self.is_alive():\n                raise RuntimeError(f'Could not stop a worker!')\n\n        self._get_result() # this is required to sync user state in some cases (fetch results, at least persistant process)\n",
                                                 "        if self.wait(timeout=timeout):\n            self._get_result()\n        else:\n            self.terminate(*args, **kwargs)\n            if self.is_alive():\n                raise RuntimeError(f'Could not stop a worker!')\n"), 'restart-order')
br('C13', 'seed-provisional-verdict-cache', (RP, "        allow_remote = True\n        first_not_remote = None", "        cls._cls_check_cache[t] = False\n        allow_remote = True\n        first_not_remote = None"), 'rejected-class-cached')
br('C15', 'seed2-write-back-on-truthiness', (ST, "        if patches is not None:\n            obj_name = cls.current_child_name()", "        if patches:\n            obj_name = cls.current_child_name()"), 'write-back-skipped-for-real-frame')
br('C15', 'write-back-early-return-on-empty', (ST, "        patches = cls.current_patches()\n        if patches is not None:\n            obj_name", "        patches = cls.current_patches()\n        if not patches:\n            cls.close_current_ctx()\n            return\n        if patches is not None:\n            obj_name"), 'write-back-skipped-for-real-frame')
br('C15', 'real-frame-only-for-non-empty-dict', (ST, "                if isinstance(sub, dict):\n                    sub_patches.append", "                if sub and isinstance(sub, dict):\n                    sub_patches.append"), 'real-frame-guard')
ok('c15-write-back-guard-dropped', (ST, "        if patches is not None:\n            obj_name = cls.current_child_name()\n            parent_patches = cls.parent_patches()\n            assert bool(parent_patches) == bool(obj_name)\n            if parent_patches:\n                parent_patches[obj_name] = obj\n",
                                        "        obj_name = cls.current_child_name()\n        parent_patches = cls.parent_patches()\n        assert bool(parent_patches) == bool(obj_name)\n        if parent_patches:\n            parent_patches[obj_name] = obj\n"))
ok('c15-write-back-guard-isinstance', (ST, "        if patches is not None:\n            obj_name = cls.current_child_name()", "        if isinstance(patches, dict):\n            obj_name = cls.current_child_name()"))
br('C11', 'F31-explicit-submodule-import-removed', (RM, "import multiprocessing.connection #", "#import multiprocessing.connection #"), 'submodule-not-imported')
br('C20', 'F31-explicit-submodule-import-removed', (RM, "import multiprocessing.connection #", "#import multiprocessing.connection #"), 'submodule-not-imported')
ok('submodule-import-from-form', (RM, "import multiprocessing.connection #", "from multiprocessing import connection as _mpc #"))
br('C16', 'seed2-wait-fast-path-on-outcome', (RM, "            if not self._started or self._dead:\n                return True\n\n            if not self._remote_dead:\n                logger.debug('Sending a wait message",
     "            if not self._started or self._dead:\n                return True\n\n            if self._result is not None:\n                self._dead = True\n                return True\n\n            if not self._remote_dead:\n                logger.debug('Sending a wait message"), 'reports-death-before-frontend-joined')
br('C16', 'wait-returns-remote-answer-without-join', (RM, "                self._remote_dead = True\n\n            self._child.join(timeout)\n            alive = self._child.is_alive()\n            if not alive:\n                self._dead = True\n            return not alive\n\n    def terminate(self, timeout=5",
     "                self._remote_dead = True\n                if timeout == 0:\n                    return True\n\n            self._child.join(timeout)\n            alive = self._child.is_alive()\n            if not alive:\n                self._dead = True\n            return not alive\n\n    def terminate(self, timeout=5"), 'reports-death-before-frontend-joined')
br('C19', 'seed2-prune-on-a-copy-outside-the-lock', (W, "            Worker._active_children = [child for child in Worker._active_children if child.is_alive()]\n            cpy = copy.copy(Worker._active_children)\n",
     "            cpy = copy.copy(Worker._active_children)\n        cpy = [child for child in cpy if child.is_alive()]\n        with Worker._children_lock:\n            Worker._active_children = copy.copy(cpy)\n"), 'prune-not-atomic')
br('C14', 'seed2-falsy-state-dropped', (PK, "        state = obj.__getstate__(remote=self._remote)\n", "        state = obj.__getstate__(remote=self._remote)\n        if not state:\n            state = None\n"), 'state-replaced')
br('C14', 'state-key-popped', (PK, "            state = OrderedDict(state)\n", "            state = OrderedDict(state)\n            state.pop('_cache', None)\n"), 'state-mutated')
br('C14', 'state-sent-filtered', (PK, "            state = OrderedDict(state)\n", "            state = OrderedDict((k, v) for k, v in state.items() if v is not None)\n"), 'state-replaced')
ok('c14-state-rewrapped-dict', (PK, "            state = OrderedDict(state)\n", "            state = dict(state)\n"))
br('C14', 'seed-entry-belief-renamed', (ST, "            assert not hasattr(RemoteState._active_contexts, 'ctxs')", "            assert not hasattr(RemoteState._active_contexts, 'stack')"), 'belief-contradicted')
br('C15', 'seed-entry-belief-renamed', (ST, "            assert not hasattr(RemoteState._active_contexts, 'ctxs')", "            assert not hasattr(RemoteState._active_contexts, 'iter')"), 'belief-contradicted')
br('C11', 'seed-ctrl-sock-rebound-to-none', (RM, "            try:\n                self._ctrl_sock.close()\n            except OSError:\n                pass\n\n        logger.details('Closing remote control thread')", "            try:\n                self._ctrl_sock.close()\n            except OSError:\n                pass\n            self._ctrl_sock = None\n\n        logger.details('Closing remote control thread')"), 'socket-rebound')
br('C04', 'seed-is_alive-extra-conjunct', (RM, "            if self._child.is_alive():\n                return True\n\n            if not self._remote_dead:", "            if self._child.is_alive() and not self._remote_dead:\n                return True\n\n            if not self._remote_dead:"), 'dead-flag-without-evidence')
br('C18', 'seed-rollback-pops-context', (RS, "                        logger.info('Client disconnected before receiving the result of a context operation')\n                        cli.close()", "                        logger.info('Client disconnected before receiving the result of a context operation')\n                        cli.close()\n                        if context is not None:\n                            self.contexts.pop(ctx_id, None)"), 'context-removed-outside-delete')
br('C09', 'seed-first_enqueue-guard-removed', (PO, "                        if worker.id not in self._closed:\n                            more_data = try_enqueue(worker)\n                            if not more_data:\n                                return", "                        if not try_enqueue(worker):\n                            return"), 'try_enqueue-for-closed-worker')
br('C08', 'seed-first_enqueue-guard-removed', (PO, "                        if worker.id not in self._closed:\n                            more_data = try_enqueue(worker)\n                            if not more_data:\n                                return", "                        if not try_enqueue(worker):\n                            return"), 'try_enqueue-for-closed-worker')
br('C02', 'seed-backend-abortive-close', (RM, "        set_linger(self._socket, True, 5)", "        set_linger(self._socket, True, 0)"), 'abortive-close')
br('C04', 'seed-get-with-ignored-timeout', (PR, "                if self._ctrl_comms.parent_end.poll(timeout): # an unresponsive child might never acknowledge\n                    self._ctrl_comms.parent_end.get()", "                self._ctrl_comms.parent_end.get(timeout=timeout)"), 'unbounded-read')
br('C06', 'seed-pipe-get-connectionerror', (U, "        except (EOFError, OSError):\n            # OSError covers", "        except (EOFError, ConnectionError):\n            # OSError covers"), 'escape:OSError')
br('C05', 'seed-kwargs-dict-merge', [(PP, "            kwargs = copy.deepcopy(self._kwargs)\n", ""), (PP, "            kwargs.update(extra_kwargs)", "            kwargs = {**self._kwargs, **extra_kwargs}")], 'defaults-not')
br('C07', 'extra-bookkeeping-update', (PO, "                    if worker_callback:\n                        worker_callback(worker, 'idle')", "                    if worker_callback:\n                        worker_callback(worker, 'idle')\n                    self._retries.clear()"), 'unexpected-bookkeeping-update')
br('C05', 'closed-flag-reset-in-close', (PT, "            if not self.is_alive():\n                return\n            self._release_child()", "            if not self.is_alive():\n                return\n            self._release_child()\n            self._closed = False"), 'unexpected-state-update')
br('C04', 'dead-flag-set-in-close', (PP, "            #if not self.is_alive():\n            #    return\n            self._release_child()", "            self._release_child()\n            self._dead = True"), 'dead-flag-without-evidence')
# a benign counterpart: PipeEndpoint.get honours its timeout, terminate() uses it
ok('get-honours-timeout', [(U, "        try:\n            return self._pipe.recv()\n        except (EOFError, OSError):", "        try:\n            if timeout is not None and not self._pipe.poll(timeout):\n                raise queue.Empty\n            return self._pipe.recv()\n        except (EOFError, OSError):"),
                           (PR, "                if self._ctrl_comms.parent_end.poll(timeout): # an unresponsive child might never acknowledge\n                    self._ctrl_comms.parent_end.get()", "                self._ctrl_comms.parent_end.get(timeout=timeout)")])

br('C03', 'send_result-swallows-everything', (PRM, "        self._counter += 1\n        send_msg(self._socket, (self._counter, True, result, self.id), comment=f'data: partial result {self._counter}')",
                                              "        self._counter += 1\n        try:\n            send_msg(self._socket, (self._counter, True, result, self.id), comment=f'data: partial result {self._counter}')\n        except Exception:\n            logger.exception('could not send a result')"), 'closure-swallows-async')
br('C03', 'recv_msg-translates-everything', (RM, "    except OSError as e:\n        raise ConnectionClosedError() from e\n    return bytes(data)", "    except Exception as e:\n        raise ConnectionClosedError() from e\n    return bytes(data)"), 'closure-swallows-async')

br('C12', 'seed-registries-cleared-before-reaping', [(RS, "            for child in itertools.chain(self.children, self.contexts.values()):", "            closing = list(itertools.chain(self.children, self.contexts.values()))\n            self.children.clear()\n            self.contexts.clear()\n            for child in closing:")], 'registry-cleared-before-reaping')
ok('reap-loop-over-local-snapshot', (RS, "            for child in itertools.chain(self.children, self.contexts.values()):", "            closing = list(itertools.chain(self.children, self.contexts.values()))\n            for child in closing:"))

br('C19', 'seed-prune-outside-the-lock', (W, "            Worker._active_children = [child for child in Worker._active_children if child.is_alive()]\n            cpy = copy.copy(Worker._active_children)\n", "            cpy = copy.copy(Worker._active_children)\n        cpy = [child for child in cpy if child.is_alive()]\n        with Worker._children_lock:\n            Worker._active_children = cpy\n"), 'prune-not-atomic')

br('C05', 'seed2-deepcopy-memo-outside-loop', [(PT, "        while not self._stop:\n            args = list(copy.deepcopy(self._args))\n            kwargs = copy.deepcopy(self._kwargs)", "        memo = {}\n        while not self._stop:\n            args = list(copy.deepcopy(self._args, memo))\n            kwargs = copy.deepcopy(self._kwargs, memo)")], 'defaults-loop-carried')
br('C01', 'seed2-exitcode-shortcut-discards-outcome', (PR, "        if self._result is None:\n            self._result = self._early_result\n", "        if self._result is None:\n            if self._child.exitcode:\n                self._result = (False, None)\n                return self._result\n            self._result = self._early_result\n"), 'fallback-without-reading-the-pipe')
br('C07', 'seed2-next-input-taken-on-live-failure', (PO, "                                logger.exception('Enqueueing failed for current input and worker {} but the worker is still alive - will try next input', worker)\n                                continue", "                                logger.exception('Enqueueing failed for current input and worker {} but the worker is still alive - will try next input', worker)\n                                has_data, from_retries, inp = next_inputs(worker)\n                                continue"), 'input-taken-in-loop')
br('C10', 'seed2-chunked-send', (RM, "        sock.sendall(data_len + data)", "        sock.sendall(data_len)\n        view = memoryview(data)\n        for offset in range(0, len(view), 1 << 20):\n            sock.send(view[offset:offset + (1 << 20)])"), 'write:send')

br('C04', 'seed2-sigterm-handler-in-child', (PR, "        self._terminate_req = False\n        self._ctrl_thread_sync = threading.Event()", "        import signal\n        signal.signal(signal.SIGTERM, lambda s, f: (_ for _ in ()).throw(SystemExit(143)))\n        self._terminate_req = False\n        self._ctrl_thread_sync = threading.Event()"), 'sigterm-handler-in-child')

br('C03', 'seed2-poll-none-becomes-nonblocking', (U, "        if time == 0:\n            return self._pipe.poll()\n        else:\n            return self._pipe.poll(timeout)", "        if not timeout:\n            return self._pipe.poll()\n        return self._pipe.poll(timeout)"), 'poll-drops-infinite-timeout')
ok('poll-typo-fixed-properly', (U, "        if time == 0:\n            return self._pipe.poll()\n        else:\n            return self._pipe.poll(timeout)", "        if timeout == 0:\n            return self._pipe.poll()\n        else:\n            return self._pipe.poll(timeout)"))
br('C08', 'seed2-redistribution-fixed-count', (PO, "                while self._retries:\n                    idle = get_next_idle_worker()", "                for _ in range(len(self._retries)):\n                    idle = get_next_idle_worker()"), 'redistribution-loop')
br('C06', 'seed2-marker-forwarded-conditionally', (PRM, "                        self._results_pipe.child_end.put(result)\n                        last_partial_result_signalled = True\n                        if remote_counter != counter:", "                        if remote_counter == counter:\n                            self._results_pipe.child_end.put(result)\n                        last_partial_result_signalled = True\n                        if remote_counter != counter:"), 'exit-without-marker')

br('C03', 'frame-ident-overwritten-in-init-child', (PE, "    def _init_child(self):\n        self._counter = 0", "    def _init_child(self):\n        self._ident = None\n        self._counter = 0"), 'unexpected-writer:_ident')
br('C04', 'frame-remote-dead-reset-in-enqueue', (PRM, "        try:\n            send_msg(self._socket, (args, kwargs), comment='data: new args')", "        self._remote_dead = False\n        try:\n            send_msg(self._socket, (args, kwargs), comment='data: new args')"), 'unexpected-writer:_remote_dead')
br('C06', 'frame-cleaned-up-preset', (PT, "    def _send_result(self, result):\n        self._counter += 1", "    def _send_result(self, result):\n        self._cleaned_up = result is None\n        self._counter += 1"), 'unexpected-writer:_cleaned_up')

br('C09', 'seed2-pool-marked-closed-early', (PO, "        force_args = {}\n        if force is not None:", "        self._pool_closed = True\n        force_args = {}\n        if force is not None:"), 'pool-marked-closed-before-cleanup')

br('C02', 'f12-wait-joins-without-draining', (PR, "        if not self.is_alive():\n            return True\n        self._join(timeout)\n        alive = self._child.is_alive()\n        if not alive:\n            self._dead = True\n        return not alive\n\n    def terminate", "        if not self.is_alive():\n            return True\n        self._child.join(timeout)\n        alive = self._child.is_alive()\n        if not alive:\n            self._dead = True\n        return not alive\n\n    def terminate"), 'join-before-drain')
br('C01', 'f12-early-result-dropped', (PR, "        if self._result is None:\n            self._result = self._early_result\n", "        if self._result is None:\n"), 'early-read-not-used')
