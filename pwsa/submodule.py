"""Submodule-use rule shared by C11 and C20.

`import multiprocessing as mp` does not make `mp.connection` available: the attribute exists only after *somebody* has
imported the submodule.  The package waits with `mp.connection.wait([...])` at nine sites; each of them must have a
reason why multiprocessing.connection is loaded by then:

  explicit    the module itself imports multiprocessing.connection;
  connection  one of the waited objects is an end of a utils.Pipe (`.parent_end` / `.child_end`, the values of the pool's
              queue table) - a multiprocessing Connection exists only if multiprocessing.Pipe() ran, which imports the
              submodule - or the sentinel of the worker's own started child (the worker's pipes are created before it);
  child-side  the function is the work loop of a spawned child (do_work / _run*): the bootstrap of a spawned child
              unpickles the worker together with its pipe ends.

A site with none of them works only by the luck of import order - e.g. a wait on two *sockets* in the accept thread of a
stand-alone server (`python -m pyworkers.remote_server`), where no Process and no Pipe exists yet when the first client
connects: AttributeError instead of a served client.
"""
import ast

from .astutil import calls_in, dotted, loc, norm, walk_local


def explicit_import(mod, pkg, sub):
    for st in mod.tree.body:
        if isinstance(st, ast.Import) and any(a.name == f'{pkg}.{sub}' for a in st.names):
            return True
        if isinstance(st, ast.ImportFrom) and st.level == 0 and st.module == pkg and any(a.name == sub for a in st.names):
            return True
        if isinstance(st, ast.ImportFrom) and st.level == 0 and st.module == f'{pkg}.{sub}':
            return True
    return False


def check_submodule_use(ctx, rule, pkg='multiprocessing', sub='connection'):
    n = 0
    for mod in ctx.prog.modules.values():
        aliases = {k for k, v in mod.imports.items() if v == pkg}
        if not aliases:
            continue
        expl = explicit_import(mod, pkg, sub)
        for f in ctx.prog.funcs.values():
            if f.module is not mod:
                continue
            for c in calls_in(f.node):
                d = dotted(c.func) or ''
                parts = d.split('.')
                if len(parts) < 3 or parts[0] not in aliases or parts[1] != sub:
                    continue
                if not any(x is c for x in ast.walk(f.node) if True) or any(any(y is c for y in ast.walk(nf.node)) for nf in f.nested.values()):
                    continue          # reported with the closure it sits in
                n += 1
                reason = None
                if expl:
                    reason = 'explicit'
                else:
                    waited = c.args[0] if c.args else None
                    elts = []
                    if isinstance(waited, ast.List):
                        elts = [norm(e) for e in waited.elts]
                    elif waited is not None:
                        elts = [norm(waited)]
                    if any(e.endswith(('.parent_end', '.child_end')) or '_get_all_queues()' in e for e in elts):
                        reason = 'connection'
                    elif any(e == 'self._child.sentinel' for e in elts):
                        reason = 'connection'
                    elif f.name == 'do_work' or f.name.startswith('_run'):
                        reason = 'child-side'
                ctx.check(rule, f'{f.short}: `{norm(c.func)}` is used where {pkg}.{sub} is certainly imported ({reason})', reason is not None, f.short,
                          f'submodule-not-imported:{pkg}.{sub}:' + norm(c.args[0] if c.args else c.func),
                          f'{f.short} uses `{norm(c.func)}` but {mod.relpath} only imports `{pkg}`: nothing at this site guarantees that the submodule has been imported '
                          '(no Pipe end or child sentinel among the waited objects, not the work loop of a spawned child). In a stand-alone server '
                          '(`python -m pyworkers.remote_server`) the first client is answered with AttributeError("module \'multiprocessing\' has no attribute \'connection\'")',
                          where=loc(f, c))
    ctx.floor(f'uses of {pkg}.{sub} through the package alias', n, 8)
