"""Worker life-cycle facts shared by C01 / C02 / C03 / C06 / C16 / C20.

Everything is found by *role* (the function passed as target= to the Thread / Process created in
the resolved _start / __setstate__, the attribute returned by the resolved _get_result, the event
the resolved _start waits on ...), never by position or text.
"""
import ast

from .astutil import (AnalysisError, dotted, calls_in, last_attr, receiver, norm, is_name, walk_local, is_self_attr,
                      assigned_targets, short)
from .cfg import is_flow, NORMAL_KINDS

PUBLIC = ['ThreadWorker', 'ProcessWorker', 'RemoteWorker',
          'PersistentThreadWorker', 'PersistentProcessWorker', 'PersistentRemoteWorker']
INTERNAL = ['RemoteContextWorker', 'RemoteServerProcess']


def kind_of(cls):
    names = [c.name for c in cls.mro() if not isinstance(c, str)]
    for k, n in (('thread', 'ThreadWorker'), ('process', 'ProcessWorker'), ('remote', 'RemoteWorker')):
        if n in names:
            return k
    raise AnalysisError(f'{cls.name}: not a thread/process/remote worker')


def is_persistent(cls):
    return any(not isinstance(c, str) and c.name == 'PersistentWorker' for c in cls.mro())


def _thread_targets(func, ctor_suffixes):
    """[(Call, target attr name)] for Thread(...)/Process(...) creations with target=self.X in func."""
    out = []
    for c in calls_in(func.node):
        name = last_attr(c)
        if name in ctor_suffixes:
            for k in c.keywords:
                if k.arg == 'target' and is_self_attr(k.value):
                    out.append((c, k.value.attr))
    return out


def _is_pair(expr):
    """(True|False, x) -> (flag, payload) else None"""
    if isinstance(expr, ast.Tuple) and len(expr.elts) == 2 and isinstance(expr.elts[0], ast.Constant) \
            and isinstance(expr.elts[0].value, bool):
        return expr.elts[0].value, expr.elts[1]
    return None


class Recorder:
    def __init__(self, node, how, flag, payload, stmt, call=None, var=None):
        self.node = node        # CFG node whose *completion* means "recorded"
        self.how = how          # 'store' | 'send' | 'varstore'
        self.flag = flag        # True / False / None (variable)
        self.payload = payload  # ast expr
        self.stmt = stmt
        self.call = call
        self.var = var

    def __repr__(self):
        return f'<Rec {self.how} flag={self.flag} {short(self.stmt, 50)} @N{self.node.id}>'


class LifeCycle:
    """Facts about the child side of one concrete worker class."""

    def __init__(self, ctx_or_an, prog, cls):
        self.an = ctx_or_an
        self.prog = prog
        self.cls = cls
        self.kind = kind_of(cls)
        self.persistent = is_persistent(cls)
        self._find_roles()
        self._find_graph_facts()

    # ------------------------------------------------------------------ roles
    def _find_roles(self):
        cls = self.cls
        _, start = cls.resolve('_start')
        if start is None:
            raise AnalysisError(f'{cls.name}: no _start')
        self.start = start
        self.frontend = None
        if self.kind == 'thread':
            tt = self._targets_in_chain(start, ('Thread',))
            if not tt:
                raise AnalysisError(f'{cls.name}._start creates no thread')
            self.main = cls.resolve(tt[0][1])[1]
        elif self.kind == 'process':
            tt = self._targets_in_chain(start, ('Process',))
            if not tt:
                raise AnalysisError(f'{cls.name}._start creates no process')
            self.main = cls.resolve(tt[0][1])[1]
        else:
            tt = self._targets_in_chain(start, ('Thread',))
            if not tt:
                raise AnalysisError(f'{cls.name}._start creates no frontend thread')
            self.frontend = cls.resolve(tt[0][1])[1]
            _, setstate = cls.resolve('__setstate__')
            # for the persistent kind __setstate__ resolves to RemoteWorker's
            pt = []
            for c in cls.mro():
                if not isinstance(c, str) and '__setstate__' in c.methods:
                    pt = _thread_targets(c.methods['__setstate__'], ('Process',))
                    if pt:
                        self.setstate = c.methods['__setstate__']
                        break
            if not pt:
                raise AnalysisError(f'{cls.name}: server-side __setstate__ spawns no process')
            self.main = cls.resolve(pt[0][1])[1]
        if self.main is None:
            raise AnalysisError(f'{cls.name}: child-main not resolvable')
        # outcome slot: attribute returned by the resolved _get_result
        _, gr = cls.resolve('_get_result')
        self.get_result = gr
        slots = [n.value.attr for n in walk_local(gr.node) if isinstance(n, ast.Return) and is_self_attr(n.value)]
        if not slots:
            raise AnalysisError(f'{cls.name}._get_result does not return an attribute')
        self.slot = slots[-1]

    def _targets_in_chain(self, func, suffixes, depth=0):
        """thread targets in func or in the super() implementation it delegates to"""
        tt = _thread_targets(func, suffixes)
        if tt or depth > 3:
            return tt
        for c in calls_in(func.node):
            r = self.prog.resolve_call(c, func, self.cls)
            if r and r[0] == 'func' and r[1].name == func.name:
                return self._targets_in_chain(r[1], suffixes, depth + 1)
        return []

    # ------------------------------------------------------------------ graph facts
    def _find_graph_facts(self):
        g = self.g = self.an.cfg(self.main, self.cls)
        kind = self.kind
        self.recorders = []
        self.sync_nodes = []
        self.outcome_var = None
        self.outcome_channel = None
        self.ctrl_attr = None
        self.state_sends = []

        def completion(stmt, call=None):
            """node whose reaching means the statement's effect happened"""
            ns = [n for n in g.nodes if n.stmt is stmt and n.kind in ('stmt',)]
            if not ns:
                return []
            # one per finally copy: group by copy_of
            out = []
            for n in ns:
                if n.part == 'store' or (n.part is None):
                    out.append(n)
                elif n.part == 'post' and not any(m.stmt is stmt and m.part == 'store' and m.copy_of == n.copy_of for m in ns):
                    out.append(n)
            return out

        if kind == 'thread':
            # sync = set() of the event the resolved _start waits on
            ev = None
            for c in calls_in(self.start.node):
                if last_attr(c) == 'wait' and receiver(c) and receiver(c).startswith('self.') and not c.args:
                    ev = receiver(c).split('.')[1]
            if ev is None:
                raise AnalysisError(f'{self.cls.name}._start waits on no event')
            self.sync_event = ev
            for n in g.nodes:
                if n.kind == 'stmt' and n.part == 'post' and any(last_attr(c) == 'set' and receiver(c) == f'self.{ev}' for c in n.calls()):
                    self.sync_nodes.append(n)
            for st in walk_local(self.main.node):
                if isinstance(st, ast.Assign) and len(st.targets) == 1 and is_self_attr(st.targets[0], self.slot):
                    p = _is_pair(st.value)
                    for n in completion(st):
                        self.recorders.append(Recorder(n, 'store', p[0] if p else None, p[1] if p else st.value, st))
        elif kind == 'process':
            # outcome channel: attribute read by _get_result
            chan = None
            for c in calls_in(self.get_result.node):
                if last_attr(c) in ('get', 'recv', 'get_nowait') and receiver(c) and receiver(c).startswith('self.'):
                    chan = receiver(c).split('.')[1]
            if chan is None:
                raise AnalysisError(f'{self.cls.name}._get_result reads no channel')
            self.outcome_channel = chan
            for st in walk_local(self.main.node):
                if not isinstance(st, ast.Expr) or not isinstance(st.value, ast.Call):
                    continue
                c = st.value
                r = receiver(c) or ''
                if last_attr(c) in ('put', 'send') and r.startswith(f'self.{chan}.') and c.args:
                    a = c.args[0]
                    pair = _is_pair(a.elts[0]) if isinstance(a, ast.Tuple) and len(a.elts) == 2 else None
                    if pair:
                        for n in [x for x in g.nodes if x.stmt is st and x.part == 'post']:
                            self.recorders.append(Recorder(n, 'send', pair[0], pair[1], st, call=c))
                            self.state_sends.append((n, a.elts[1]))
                    elif isinstance(a, ast.Tuple) and len(a.elts) == 2 and isinstance(a.elts[0], ast.Name) and self._pair_var(a.elts[0].id):
                        # the outcome is collected in a local and reported by one send (the style of the remote backend)
                        self.outcome_var = a.elts[0].id
                        for n in [x for x in g.nodes if x.stmt is st and x.part == 'post']:
                            self.recorders.append(Recorder(n, 'send', None, a.elts[0], st, call=c, var=self.outcome_var))
                            self.state_sends.append((n, a.elts[1]))
                    else:
                        for n in [x for x in g.nodes if x.stmt is st and x.part == 'post']:
                            self.sync_nodes.append(n)
            if self.outcome_var:
                for st in walk_local(self.main.node):
                    if isinstance(st, ast.Assign) and len(st.targets) == 1 and is_name(st.targets[0], self.outcome_var):
                        p = _is_pair(st.value)
                        for n in completion(st):
                            self.recorders.append(Recorder(n, 'varstore', p[0] if p else None, p[1] if p else st.value, st, var=self.outcome_var))
        else:
            # remote backend: outcome variable = Name sent with send_msg(self._socket, <Name>) ; sync = runtime info on the start-up pipe
            sends = []
            for st in walk_local(self.main.node):
                if isinstance(st, ast.Expr) and isinstance(st.value, ast.Call) and last_attr(st.value) == 'send_msg' and len(st.value.args) >= 2:
                    sends.append(st)
            var_sends = [st for st in sends if isinstance(st.value.args[1], ast.Name)]
            if not var_sends:
                raise AnalysisError(f'{self.cls.name}: backend sends no outcome variable')
            self.outcome_var = var_sends[0].value.args[1].id
            self.outcome_socket = norm(var_sends[0].value.args[0])
            for st in var_sends:
                if st.value.args[1].id == self.outcome_var:
                    for n in [x for x in g.nodes if x.stmt is st and x.part == 'post']:
                        self.recorders.append(Recorder(n, 'send', None, st.value.args[1], st, call=st.value, var=self.outcome_var))
            for st in sends:
                if st not in var_sends or st.value.args[1].id != self.outcome_var:
                    a = st.value.args[1]
                    if is_self_attr(a) and 'state' in a.attr:
                        for n in [x for x in g.nodes if x.stmt is st and x.part == 'post']:
                            self.state_sends.append((n, a))
            for st in walk_local(self.main.node):
                if isinstance(st, ast.Assign) and len(st.targets) == 1 and is_name(st.targets[0], self.outcome_var):
                    p = _is_pair(st.value)
                    for n in completion(st):
                        self.recorders.append(Recorder(n, 'varstore', p[0] if p else None, p[1] if p else st.value, st, var=self.outcome_var))
                # sync: send on self._comms.child_end
                if isinstance(st, ast.Expr) and isinstance(st.value, ast.Call) and last_attr(st.value) in ('send', 'put') \
                        and (receiver(st.value) or '').endswith('.child_end') and (receiver(st.value) or '').startswith('self.'):
                    for n in [x for x in g.nodes if x.stmt is st and x.part == 'post']:
                        self.sync_nodes.append(n)
        self._recorders_via_helpers(kind)
        if not self.sync_nodes:
            raise AnalysisError(f'{self.cls.name}: start-up sync point of the child-main {self.main.short} not found')
        # control thread (injector) of process / remote kinds
        if kind in ('process', 'remote'):
            tt = _thread_targets(self.main, ('Thread',))
            for c, target in tt:
                # self.X = threading.Thread(...)
                for st in walk_local(self.main.node):
                    if isinstance(st, ast.Assign) and st.value is c and is_self_attr(st.targets[0]):
                        self.ctrl_attr = st.targets[0].attr
                        self.ctrl_fn = self.cls.resolve(target)[1]
            if self.ctrl_attr is None:
                raise AnalysisError(f'{self.cls.name}: child-main starts no control thread')
        # region: everything reachable from a sync node
        work = lambda n: n.stmt is not None and any(last_attr(c) == 'do_work' and receiver(c) == 'self' for c in n.calls())
        self.primary_sync = [s for s in self.sync_nodes if g.find_path([s], work, edge_ok=is_flow)]
        if not self.primary_sync:
            raise AnalysisError(f'{self.cls.name}: no start-up sync point of {self.main.short} leads to do_work()')
        self.region = g.reachable(self.primary_sync)
        self._compute_capable()
        # do_work call nodes
        self.work_nodes = [n for n in g.nodes if n.kind == 'stmt' and n.part in ('eval',) and any(last_attr(c) == 'do_work' and receiver(c) == 'self' for c in n.calls())]
        self.cleanup_nodes = [n for n in g.nodes if n.kind == 'stmt' and n.part in ('eval',) and any(last_attr(c) == '_cleanup' and receiver(c) == 'self' for c in n.calls())]

    def _pair_var(self, name):
        """every assignment to local `name` in the child-main stores a (bool, x) pair (and there is one)"""
        vals = [st.value for st in walk_local(self.main.node) if isinstance(st, ast.Assign) and len(st.targets) == 1 and is_name(st.targets[0], name)]
        return bool(vals) and all(_is_pair(v) for v in vals)

    def _recorders_via_helpers(self, kind):
        """a recorder extracted into a helper method: `self._report(False, e)` whose body stores / sends the pair"""
        if kind == 'remote':
            return
        g = self.g
        for st in walk_local(self.main.node):
            call = st.value if isinstance(st, ast.Expr) and isinstance(st.value, ast.Call) else None
            if call is None or receiver(call) != 'self':
                continue
            _, callee = self.cls.resolve(last_attr(call))
            if callee is None or callee.name in ('do_work', '_cleanup', '_init_child'):
                continue
            binding = {}
            params = [p_ for p_ in callee.params if p_ != 'self']
            for p_, a in zip(params, call.args):
                binding[p_] = a
            for k in call.keywords:
                if k.arg:
                    binding[k.arg] = k.value
            for cs in walk_local(callee.node):
                pair = None
                how = None
                if kind == 'thread' and isinstance(cs, ast.Assign) and len(cs.targets) == 1 and is_self_attr(cs.targets[0], self.slot) and isinstance(cs.value, ast.Tuple) and len(cs.value.elts) == 2:
                    pair, how = cs.value, 'store'
                if kind == 'process' and isinstance(cs, ast.Expr) and isinstance(cs.value, ast.Call) and last_attr(cs.value) in ('put', 'send') and \
                        (receiver(cs.value) or '').startswith(f'self.{self.outcome_channel}.') and cs.value.args and isinstance(cs.value.args[0], ast.Tuple) \
                        and len(cs.value.args[0].elts) == 2 and isinstance(cs.value.args[0].elts[0], ast.Tuple) and len(cs.value.args[0].elts[0].elts) == 2:
                    pair, how = cs.value.args[0].elts[0], 'send'
                if pair is None:
                    continue

                def subst(x):
                    return binding.get(x.id, x) if isinstance(x, ast.Name) else x
                fl, pl = subst(pair.elts[0]), subst(pair.elts[1])
                if not (isinstance(fl, ast.Constant) and isinstance(fl.value, bool)):
                    continue
                for n in [x for x in g.nodes if x.stmt is st and x.part == 'post']:
                    self.recorders.append(Recorder(n, how, fl.value, pl, st, call=call))
                    if how == 'send':
                        self.state_sends.append((n, subst(cs.value.args[0].elts[1])))

    def _compute_capable(self):
        """Nodes at which an asynchronous WorkerTerminatedError can still arrive (the injector may be alive)."""
        g = self.g
        if self.kind == 'thread':
            self.capable = set(self.region)
            return
        T = f'self.{self.ctrl_attr}'

        def edge_ok(e):
            src = e.src
            if src.stmt is not None and src.part == 'post' and e.kind == 'norm' and any(
                    last_attr(c) == 'join' and receiver(c) == T and not c.args and not c.keywords for c in src.calls()):
                return False      # the injector has been joined
            if src.kind == 'test' and e.kind == 'false' and isinstance(src.stmt, (ast.If, ast.While)):
                t = src.stmt.test
                if isinstance(t, ast.BoolOp) and isinstance(t.op, ast.And) and len(t.values) == 2 and \
                        norm(t.values[0]) == f"hasattr(self, '{self.ctrl_attr}')":
                    t = t.values[1]   # no such attribute = the injector was never created
                if isinstance(t, ast.Call) and last_attr(t) == 'is_alive' and receiver(t) == T:
                    return False  # found dead
            # the landing is the single fault of a path: it happens at a statement reached fault-free
            return is_flow(e)
        self.capable = g.reachable(self.primary_sync, edge_ok=edge_ok)

    # ------------------------------------------------------------------ queries
    def landing_edges(self):
        """async edges leaving landing-capable nodes of the region"""
        return [e for e in self.g.edges if e.kind == 'async' and e.src.id in self.capable and e.src.id in self.region]

    def recorder_nodes(self, pred=None):
        return {r.node.id for r in self.recorders if pred is None or pred(r)}


def lifecycle(ctx, cls):
    cache = ctx.an.__dict__.setdefault('_lifecycle_cache', {})
    if cls.qualname not in cache:
        cache[cls.qualname] = LifeCycle(ctx.an, ctx.prog, cls)
    return cache[cls.qualname]


def worker_classes(prog, internal=True):
    names = PUBLIC + (INTERNAL if internal else [])
    out = []
    for n in names:
        if not prog.has_cls(n):
            raise AnalysisError(f'worker class {n} not found')
        out.append(prog.cls(n))
    return out


def landing_label(node):
    """role-based label of a landing statement: the callee names it invokes"""
    if node.stmt is None:
        return node.kind
    names = []
    for c in node.calls() if not isinstance(node.stmt, (ast.If, ast.While, ast.For, ast.With, ast.Try)) else \
            [c for ex in ([node.stmt.test] if hasattr(node.stmt, 'test') else [getattr(node.stmt, 'iter', None)] if hasattr(node.stmt, 'iter') else
                          [it.context_expr for it in node.stmt.items] if hasattr(node.stmt, 'items') else []) if ex is not None for c in calls_in(ex)]:
        d = dotted(c.func) or last_attr(c) or '?'
        parts = d.split('.')
        names.append('.'.join(parts[-2:]) if len(parts) > 1 else parts[0])
    if not names:
        return node.kind + ':' + short(node.stmt, 40)
    return '+'.join(dict.fromkeys(names))


def handler_context(node):
    """'handler(Exception)' / 'finally' / 'body' - where in the try structure the node sits"""
    f = node.frame
    while f is not None:
        if f.kind == 'handler':
            return 'handler(' + ','.join(f.hnode.handler_types or []) + ')'
        f = f.outer
    if node.copy_of is not None:
        return 'finally'
    return 'body'
