"""C18 - remote contexts are unique per id, supply their workers' work, and clean up."""
import ast

from ..astutil import (canon, split_if, facts_at, late_bound_closures, AnalysisError, dotted, calls_in, last_attr, receiver, norm, is_name, walk_local, is_self_attr,
                       loc, short, parent_map, names_in)
from ..cfg import is_flow, path_str

EXPLANATION = (
    'Static decision of the context-table protocol. R1: in RemoteServer.run the create branch stores a context only under '
    '`ctx_id not in self.contexts` and answers False otherwise; the delete branch removes with a non-raising pop(id, None); '
    'every access keyed by the client-supplied id is non-raising (get / pop with default / membership test - no subscript '
    'load, no del, no one-argument pop), and a request naming an unknown context is skipped; every context operation is '
    'answered with a boolean. R2 key agreement: the attributes RemoteWorker.__getstate__(remote=True) removes from the state '
    'are among the keys the context helper injects as load-time patches (together with _socket), and the backend tests for '
    'exactly such an attribute before falling back to the payload. R3: delete waits for, then terminates the context; the '
    'context object forwards wait/terminate/close to its helper worker on the remote side and its helper reaps its workers '
    '(C12.R2). R4: on the client side a False reply to create raises ValueError, and delete maps the reply to the alive flag.'
    " R2 also: None is the protocol's only no-context value, so no name that denotes the context id (the attribute sent first in a request header, the constructor parameters stored into it, the server's unpacked local) is tested for truth - `x or default` included. R1 also: on every path from the head of the accept loop to the reply the reply variable is assigned in that iteration, and a context leaves the table only in the delete branch.")
TECHNIQUE = 'site/shape checks on the context table + key-set agreement between writer and reader'


def run(ctx):
    P = ctx.prog
    RS = P.cls('RemoteServer')
    f = RS.methods['run']
    ctx.used(f)
    # the id variable: first element unpacked from the header
    idv = None
    hdr = None
    cli = None
    for st in walk_local(f.node):
        if cli is None and isinstance(st, ast.Assign) and isinstance(st.value, ast.Call) and last_attr(st.value) == 'accept' and isinstance(st.targets[0], ast.Tuple):
            cli = st.targets[0].elts[0].id
        if hdr is None and isinstance(st, ast.Assign) and isinstance(st.targets[0], ast.Name) and isinstance(st.value, ast.Call) and last_attr(st.value) == 'recv_msg':
            hdr = st.targets[0].id
        if isinstance(st, ast.Assign) and isinstance(st.targets[0], ast.Tuple) and len(st.targets[0].elts) == 2 and hdr and is_name(st.value, hdr):
            idv = st.targets[0].elts[0].id
    ctx.require(idv is not None, 'RemoteServer.run: header unpacking not found')
    # further locals of run by role: the context payload, the reply, the looked-up context, the context being deleted
    PAY = RES = CTXV = CUR = None
    pm_run = parent_map(f.node)
    for st in walk_local(f.node):
        if isinstance(st, ast.Assign) and isinstance(st.targets[0], ast.Name) and isinstance(st.value, ast.Call):
            v, t = st.value, st.targets[0].id
            if last_attr(v) == 'recv_msg' and len(v.args) == 1 and t != hdr:
                PAY = t
            if last_attr(v) == 'get' and receiver(v) == 'self.contexts':
                CTXV = t
            if last_attr(v) == 'pop' and receiver(v) == 'self.contexts' and (CUR is None or PAY is None or (f'{PAY} is None', True) in facts_at(pm_run, st)):
                CUR = t
    for c in calls_in(f.node):
        if last_attr(c) == 'send_msg' and len(c.args) >= 2 and isinstance(c.args[1], ast.Name) and is_name(c.args[0], cli):
            RES = c.args[1].id
    ctx.require(PAY is not None, 'RemoteServer.run: the local receiving the context payload was not found')
    # a role nobody plays makes the rules about it fail as findings (not as an analysis error)
    RES, CTXV, CUR = RES or '<no-reply-variable>', CTXV or '<no-context-lookup>', CUR or '<no-context-removal>'
    # ---------------------------------------------------------------- R1 accesses keyed by the client id
    n_acc = 0
    for n in walk_local(f.node):
        if isinstance(n, ast.Subscript) and is_self_attr(n.value, 'contexts') and idv in names_in(n.slice):
            n_acc += 1
            if isinstance(n.ctx, ast.Store):
                pm = parent_map(f.node)
                stn = n
                while stn in pm and not isinstance(stn, ast.stmt):
                    stn = pm[stn]
                guarded = (f'{idv} in self.contexts', False) in facts_at(pm, stn)      # polarity-free
                ctx.check('R1', 'the context table is written only when the id is not registered yet', guarded, 'RemoteServer.run', 'context-overwrite',
                          'registering an id that already exists replaces the first context instead of failing: its workers lose their work and are never cleaned up', where=loc(f, n))
            elif isinstance(n.ctx, ast.Load):
                ctx.check('R1', f'lookup of the client-supplied id is non-raising', False, 'RemoteServer.run', 'raising-lookup:subscript',
                          f'`{norm(n)}` raises KeyError for an unknown context id: a request naming an unknown context kills the server', where=loc(f, n))
            else:
                ctx.check('R1', 'removal by the client-supplied id is non-raising', False, 'RemoteServer.run', 'raising-lookup:del',
                          f'`del {norm(n)}` raises KeyError for an unknown context id', where=loc(f, n))
        if isinstance(n, ast.Call) and (receiver(n) or '') == 'self.contexts' and n.args and idv in names_in(n.args[0]):
            n_acc += 1
            m = last_attr(n)
            if m == 'pop':
                ctx.check('R1', 'contexts.pop(id, default) is non-raising', len(n.args) >= 2, 'RemoteServer.run', 'raising-lookup:pop',
                          'contexts.pop(id) without a default raises KeyError when an unknown context is deleted: the server dies', where=loc(f, n))
            elif m == 'get':
                ctx.ob('R1', 'contexts.get(id, ...) is non-raising', True)
            else:
                ctx.ob('R1', f'contexts.{m}(id) access', True)
    ctx.floor('accesses to the context table keyed by the client id', n_acc, 3)
    # a context leaves the table only in the delete branch (the request whose payload is None)
    msg_vars = {st.targets[0].id for st in walk_local(f.node) if isinstance(st, ast.Assign) and isinstance(st.targets[0], ast.Name) and isinstance(st.value, ast.Call) and last_attr(st.value) == 'recv_msg'}
    pm0 = parent_map(f.node)
    loops0 = [n for n in walk_local(f.node) if isinstance(n, ast.While)]
    for n in walk_local(loops0[0] if loops0 else f.node):
        removal = None
        if isinstance(n, ast.Call) and last_attr(n) in ('pop', 'popitem', 'clear') and (receiver(n) or '') == 'self.contexts':
            removal = n
        if isinstance(n, ast.Delete) and any(isinstance(t, ast.Subscript) and is_self_attr(t.value, 'contexts') for t in n.targets):
            removal = n
        if removal is None:
            continue
        stn = removal
        while stn in pm0 and not isinstance(stn, ast.stmt):
            stn = pm0[stn]
        in_delete = bool({(f'{v} is None', True) for v in msg_vars} & facts_at(pm0, stn))      # polarity-free
        ctx.check('R1', 'a context is removed from the table only by a delete request', in_delete, 'RemoteServer.run', 'context-removed-outside-delete',
                  f'`{norm(removal)}` removes a context outside the delete branch: a context can disappear (e.g. the first one, when the reply to a refused duplicate cannot be delivered) '
                  'although nobody deleted it - its workers die and the id can be registered again', where=loc(f, removal))
    # duplicate -> False reply
    dup = [st for st in walk_local(f.node) if isinstance(st, ast.If) and canon(st.test)[0] == f'{idv} in self.contexts']
    dup_body = split_if(dup[0], lambda t: True)[0] if dup else []
    ok = bool(dup) and any(isinstance(x, ast.Assign) and is_name(x.targets[0], RES) and isinstance(x.value, ast.Constant) and x.value.value is False for x in dup_body)
    if dup and not ok:
        # ... or the reply was computed as the very test that sends a duplicate this way (`result = id not in contexts` just before `if result:`) and is not
        # assigned again in the duplicate branch
        pm_d = parent_map(f.node)
        for fld in ('body', 'orelse', 'finalbody'):
            lst = getattr(pm_d.get(dup[0]), fld, None)
            if isinstance(lst, list) and dup[0] in lst and lst.index(dup[0]) > 0:
                prev = lst[lst.index(dup[0]) - 1]
                if isinstance(prev, ast.Assign) and len(prev.targets) == 1 and is_name(prev.targets[0], RES) and canon(prev.value) == (f'{idv} in self.contexts', False) \
                        and not any(isinstance(x, ast.Assign) and is_name(x.targets[0], RES) for y in dup_body for x in ast.walk(y)):
                    ok = True
    ctx.check('R1', 'registering an existing id answers False', ok, 'RemoteServer.run', 'duplicate-not-refused', 'a duplicate registration is not refused', where=loc(f, dup[0]) if dup else loc(f, f.node))
    # unknown context for a worker request -> skipped
    unk = []
    for st in walk_local(f.node):
        if isinstance(st, ast.If):
            sp = split_if(st, lambda t: norm(t) in (f'{CTXV} is None', CTXV))
            if sp:
                unk.append(sp[0] if canon(st.test)[0] == f'{CTXV} is None' else sp[1])     # statements run when the context is unknown
    ok = bool(unk) and any(isinstance(x, ast.Continue) for x in unk[0])
    ctx.check('R1', 'a worker request naming an unknown context is skipped', ok, 'RemoteServer.run', 'unknown-context-not-skipped',
              'a worker request naming an unknown context is not skipped: ctx.call on None kills the server', where=loc(f, f.node))
    # every context operation is answered
    g = ctx.an.cfg(f, RS)
    op_recv = [n for n in g.nodes if n.stmt is not None and n.part == 'post' and isinstance(n.stmt, ast.Assign) and is_name(n.stmt.targets[0], PAY)]
    reply = {n.id for n in g.nodes if n.stmt is not None and n.part == 'eval' and any(last_attr(c) == 'send_msg' and len(c.args) >= 2 and is_name(c.args[1], RES) for c in n.calls())}
    heads = [n for n in g.nodes if n.kind == 'join' and isinstance(n.stmt, ast.While)]
    p = g.find_path(op_recv, lambda n: n in heads, edge_ok=lambda e: is_flow(e) and e.kind != 'exc', node_ok=lambda n: n.id not in reply)
    ctx.check('R1', 'every context operation is answered with `result`', bool(op_recv) and bool(reply) and p is None, 'RemoteServer.run', 'context-op-unanswered',
              'a context operation can complete without the client being answered: the client blocks in recv_msg', where=loc(f, f.node), path=path_str(p or []))
    # (a default value of the reply is not required: reply-carried-over below demands an assignment in the iteration on every path to the reply)
    # ... and it is a per-request default: on every path from the head of the accept loop to the reply, the reply variable is assigned in that iteration
    res_stores = {n.id for n in g.nodes if n.stmt is not None and n.part in (None, 'store') and isinstance(n.stmt, ast.Assign) and any(is_name(t, RES) for t in n.stmt.targets)}
    reply_nodes = [n for n in g.nodes if n.id in reply]
    p2 = g.find_path(heads, lambda n: n.id in reply, edge_ok=lambda e: is_flow(e) and e.kind != 'exc', node_ok=lambda n: n.id not in res_stores) if heads and reply_nodes else []
    ctx.check('R1', 'the reply of a context operation is decided within the request that is answered', p2 is None and bool(reply_nodes), 'RemoteServer.run', 'reply-carried-over',
              'the reply variable is not (re)assigned in every iteration of the accept loop before it is sent: once one request has been answered False (a refused duplicate), every later '
              'context operation is answered False as well although the server carries it out - a created context nobody holds a handle for, a deleted one reported alive',
              where=loc(f, f.node), path=path_str(p2 or []))

    # ---------------------------------------------------------------- R3 delete chain
    dele = [st for st in walk_local(f.node) if isinstance(st, ast.If) and canon(st.test)[0] == f'{PAY} is None']
    ok = False
    dele_body = split_if(dele[0], lambda t: True)[0] if dele else []
    if dele:
        calls = [(last_attr(c), receiver(c)) for x in dele_body for c in calls_in(x)]
        names = [m for m, r in calls if r == CUR]
        ok = 'wait' in names and 'terminate' in names and names.index('wait') < names.index('terminate')
        w = [c for x in dele_body for c in calls_in(x) if last_attr(c) == 'wait' and receiver(c) == CUR]
        ok = ok and bool(w) and any(k.arg == 'timeout' for k in w[0].keywords)
    ctx.check('R3', 'deleting a context waits (bounded) for it and then terminates it', ok, 'RemoteServer.run', 'delete-chain',
              'deleting a context does not end its helper (wait then terminate): its workers keep running and the id cannot be reused safely', where=loc(f, dele[0]) if dele else loc(f, f.node))
    RC = P.cls('RemoteContext')
    ctx.used(*[RC.methods[m] for m in ('wait', 'terminate', 'close', 'call', '__init__', '_try_del', '_create_worker', '__getstate__', '__setstate__')])
    # deleting the context ends *each* of its workers: whatever the helper starts per child is bound to that child (see C12.R2)
    cwf0 = RC.methods['_create_worker']
    for cl, v in late_bound_closures(cwf0.node):
        ctx.check('R3', 'RemoteContext._create_worker: a closure created per child is bound to that child', False, 'RemoteContext._create_worker', f'late-binding-closure:{v}',
                  f'`{short(cl, 60)}` reads the loop variable `{v}` when it runs: when a context with two or more live workers is deleted only the last one is ended, the others stay '
                  'alive and keep running the deleted context\'s target', where=loc(cwf0, cl))
    for m in ('wait', 'terminate', 'close', 'call'):
        mf = RC.methods[m]
        ok = any(last_attr(c) == m and receiver(c) == 'self._worker' for c in calls_in(mf.node))
        ctx.check('R3', f'RemoteContext.{m} forwards to the helper worker on the remote side', ok, f'RemoteContext.{m}', f'context-{m}-not-forwarded',
                  f'on the server RemoteContext.{m} does not reach the helper process', where=loc(mf, mf.node))
    ss = RC.methods['__setstate__']
    ok = any(isinstance(st, ast.Assign) and any(is_self_attr(t, '_worker') for t in st.targets) and isinstance(st.value, ast.Call) and last_attr(st.value) == 'RemoteContextWorker'
             for st in walk_local(ss.node))
    ctx.check('R3', 'a context arriving on the server starts its helper worker', ok, 'RemoteContext.__setstate__', 'helper-not-started', 'the server-side context has no helper worker', where=loc(ss, ss.node))

    # ---------------------------------------------------------------- R2 key agreement
    RW = P.cls('RemoteWorker')
    gs = RW.methods['__getstate__']
    removed = set()
    srets = [st.value.id for st in walk_local(gs.node) if isinstance(st, ast.Return) and isinstance(st.value, ast.Name)]
    STV = srets[-1] if srets else 'state'
    for st in walk_local(gs.node):
        if isinstance(st, ast.Delete):
            for t in st.targets:
                if isinstance(t, ast.Subscript) and is_name(t.value, STV) and isinstance(t.slice, ast.Constant):
                    removed.add(t.slice.value)
    cw = RC.methods['_create_worker']
    pvs = [c.args[1].id for c in calls_in(cw.node) if last_attr(c) == 'recv_msg' and len(c.args) >= 2 and isinstance(c.args[1], ast.Name)]
    SPV = pvs[0] if pvs else 'state_patches'
    injected = set()
    for st in walk_local(cw.node):
        if isinstance(st, ast.Assign) and isinstance(st.value, ast.Dict) and is_name(st.targets[0], SPV):
            for k in st.value.keys:
                if isinstance(k, ast.Constant):
                    injected.add(k.value)
    ctx.floor('attributes removed by RemoteWorker.__getstate__(remote=True)', len(removed), 3)
    ctx.check('R2', f'the context injects every attribute the remote state lacks ({sorted(removed)} within {sorted(injected)})', removed <= injected and '_socket' in injected,
              'RemoteContext._create_worker', 'injected-keys:' + ','.join(sorted(removed - injected)) or 'ok',
              f'the context helper does not inject {sorted(removed - injected)} (or `_socket`): a worker created in the context has no target/arguments/socket', where=loc(cw, cw.node))
    # values: the context's own target/args/kwargs
    for st in walk_local(cw.node):
        if isinstance(st, ast.Assign) and isinstance(st.value, ast.Dict) and is_name(st.targets[0], SPV):
            for k, v in zip(st.value.keys, st.value.values):
                if isinstance(k, ast.Constant) and k.value in removed:
                    ctx.check('R2', f'patch `{k.value}` carries the context\'s own self.{k.value}', is_self_attr(v, k.value), 'RemoteContext._create_worker', f'patch-value:{k.value}={norm(v)}',
                              f'the context injects `{norm(v)}` as {k.value}: its workers do not execute the context\'s target with the context\'s defaults', where=loc(cw, st))
    # the patches are handed to recv_msg
    ok = any(last_attr(c) == 'recv_msg' and len(c.args) >= 2 and is_name(c.args[1], SPV) for c in calls_in(cw.node))
    ctx.check('R2', 'the patches are applied while the worker is received', ok, 'RemoteContext._create_worker', 'patches-not-applied', 'state_patches are not passed to recv_msg', where=loc(cw, cw.node))
    rb = RW.methods['_run_backend']
    tests = [st for st in walk_local(rb.node) if isinstance(st, ast.If) and 'hasattr(self,' in norm(st.test)]
    probe = None
    for st in tests:
        for c in calls_in(st.test):
            if is_name(c.func, 'hasattr') and len(c.args) == 2 and isinstance(c.args[1], ast.Constant) and c.args[1].value in removed | injected:
                probe = c.args[1].value
    ctx.check('R2', 'the backend probes for an injected attribute before unpacking the payload', probe in removed, 'RemoteWorker._run_backend', f'backend-probe:{probe}',
              'the backend does not test for the attributes a context injects: the payload/patch decision is wrong', where=loc(rb, rb.node))
    # state with context has no payload: `if self._context is None: payload = ...`
    ok = any(isinstance(st, ast.If) and norm(st.test) == 'self._context is None' and any(f"{STV}['_payload']" in norm(x) for x in st.body) for st in walk_local(gs.node))
    ctx.check('R2', 'a worker created in a context ships no payload of its own', ok, 'RemoteWorker.__getstate__', 'payload-with-context', 'payload handling for context workers changed', where=loc(gs, gs.node))
    # the server hands the client socket to the context helper
    hand = [c for c in calls_in(f.node) if last_attr(c) == 'call' and receiver(c) == CTXV]
    ok = len(hand) == 1 and len(hand[0].args) == 1 and is_name(hand[0].args[0], cli)
    ctx.check('R2', 'the server hands the client socket to the context of that id', ok, 'RemoteServer.run', 'context-call', 'a worker-in-context request is not handed to the context helper', where=loc(f, f.node))
    look = [st for st in walk_local(f.node) if isinstance(st, ast.Assign) and is_name(st.targets[0], CTXV) and isinstance(st.value, ast.Call) and last_attr(st.value) == 'get'
            and st.value.args and is_name(st.value.args[0], idv)]
    ctx.check('R2', 'the context is looked up by the id sent by the client', bool(look), 'RemoteServer.run', 'context-lookup-key', 'the context is not looked up by the client-supplied id', where=loc(f, f.node))

    # ---------------------------------------------------------------- R1 nothing but hashability is required of an id
    # the ids are the keys of a dict: clients may register 1 and 'gpu' side by side.  An operation that orders the keys (sorted / min / max / .sort())
    # raises TypeError for such a table - in the accept loop that is not contained and stops the server with every context on it.
    n_order = 0
    for fn in RS.methods.values():
        for c in calls_in(fn.node):
            arg = None
            if isinstance(c.func, ast.Name) and c.func.id in ('sorted', 'min', 'max') and c.args:
                arg = c.args[0]
            elif last_attr(c) == 'sort' and isinstance(c.func, ast.Attribute):
                arg = c.func.value
            if arg is None:
                continue
            txt = norm(arg)
            if isinstance(arg, ast.Name):
                txt = ' '.join(norm(st.value) for st in walk_local(fn.node) if isinstance(st, ast.Assign) and any(is_name(tg, arg.id) for tg in st.targets)) or txt
            if 'self.contexts' in txt and '.values()' not in txt:
                n_order += 1
                ctx.check('R1', f'{fn.short}: the context ids are not ordered', False, fn.short, f'context-ids-ordered:{norm(c)[:50]}',
                          f'`{short(c)}` in {fn.short} orders the ids of the registered contexts: ids only have to be hashable, so two contexts registered as 1 and \'gpu\' make it raise '
                          'TypeError - evaluated in the accept loop (also as the argument of a log call, whatever the log level) it stops the server and every context on it',
                          where=loc(fn, c))
    ctx.ob('R1', 'no operation of the server orders the context ids (they need only be hashable)', n_order == 0)

    # ---------------------------------------------------------------- R2 the id sentinel
    # None is the protocol's only "no context" value: any other id the user chose (0, '', False, ()) is a context.  Every name that denotes the
    # id - the attribute sent as the first element of a request header, the constructor parameters stored into it, the server's unpacked local -
    # is therefore tested against None, never for its truth value.
    from ..astutil import truth_tested
    n_sites = 0
    id_tests = 0
    scopes = []
    for cname in ('RemoteWorker', 'RemoteContext'):
        c0 = P.cls(cname)
        attrs = set()
        for fn in c0.methods.values():
            for c in calls_in(fn.node):
                if last_attr(c) == 'send_msg' and len(c.args) >= 2 and isinstance(c.args[1], ast.Tuple) and len(c.args[1].elts) == 2 and \
                        isinstance(c.args[1].elts[1], ast.Constant) and isinstance(c.args[1].elts[1].value, bool) and is_self_attr(c.args[1].elts[0]):
                    attrs.add(c.args[1].elts[0].attr)
        ctx.require(attrs, f'{cname}: the request header (id, flag) was not found')
        for c1 in [c0] + [x for x in P.classes.values() if not isinstance(x, str) and c0 in [m for m in x.mro() if not isinstance(m, str)] and x is not c0]:
            for fn in c1.methods.values():
                names = {f'self.{a}' for a in attrs}
                for st in walk_local(fn.node):
                    if isinstance(st, ast.Assign) and any(is_self_attr(t, a) for t in st.targets for a in attrs):
                        names |= {x.id for x in ast.walk(st.value) if isinstance(x, ast.Name) and x.id in set(fn.params) | set(fn.kwonly)}
                scopes.append((fn, names))
    scopes.append((f, {idv}))
    for fn, names in scopes:
        ctx.used(fn)
        for n in walk_local(fn.node):
            if isinstance(n, ast.Compare) and len(n.ops) == 1 and isinstance(n.ops[0], (ast.Is, ast.IsNot)) and norm(n.left) in names:
                id_tests += 1
        for leaf, st in truth_tested(fn.node):
            if norm(leaf) in names:
                n_sites += 1
                ctx.check('R2', f'{fn.short}: the context id is compared with None, not tested for truth', False, fn.short, f'context-id-tested-by-truth:{norm(leaf)}',
                          f'`{short(st) if st is not None else norm(leaf)}` tests the context id `{norm(leaf)}` for its truth value: None is the only "no context" value of the protocol, so a context '
                          'whose id is 0, an empty string or False is treated as no context here and as a context everywhere else (its workers are never started, or run without '
                          'the context\'s target)', where=loc(fn, leaf))
    ctx.ob('R2', f'no name denoting the context id is tested for truth ({id_tests} None tests, {len(scopes)} functions)', n_sites == 0)
    ctx.floor('None tests of the context id', id_tests, 3)

    # ---------------------------------------------------------------- R4 client side
    ini = RC.methods['__init__']

    def reply_var(fn):
        vs = [st.targets[0].id for st in walk_local(fn.node) if isinstance(st, ast.Assign) and isinstance(st.targets[0], ast.Name) and isinstance(st.value, ast.Call) and last_attr(st.value) == 'recv_msg']
        return vs[-1] if vs else 'result'
    ok = any(isinstance(st, ast.If) and norm(st.test) == f'not {reply_var(ini)}' and any(isinstance(x, ast.Raise) and 'ValueError' in norm(x.exc) for x in st.body) for st in walk_local(ini.node))
    ctx.check('R4', 'RemoteContext.__init__: a False reply raises ValueError', ok, 'RemoteContext.__init__', 'duplicate-not-reported', 'a refused registration is not reported to the client as ValueError', where=loc(ini, ini.node))
    hdr = [c for c in calls_in(ini.node) if last_attr(c) == 'send_msg' and len(c.args) >= 2 and isinstance(c.args[1], ast.Tuple)]
    ok = bool(hdr) and norm(hdr[0].args[1]) == '(self._id, False)'
    ctx.check('R4', 'create sends the header (id, False) followed by the context', ok and any(last_attr(c) == 'send_msg' and len(c.args) >= 2 and is_name(c.args[1], 'self') for c in calls_in(ini.node)),
              'RemoteContext.__init__', 'create-protocol', 'the create request is not (id, False) followed by the context object', where=loc(ini, ini.node))
    td = RC.methods['_try_del']
    hdr = [c for c in calls_in(td.node) if last_attr(c) == 'send_msg' and len(c.args) >= 2]
    ok = len(hdr) == 2 and norm(hdr[0].args[1]) == '(self._id, False)' and isinstance(hdr[1].args[1], ast.Constant) and hdr[1].args[1].value is None
    ctx.check('R4', 'delete sends the header (id, False) followed by None', ok, 'RemoteContext._try_del', 'delete-protocol', 'the delete request is not (id, False) followed by None', where=loc(td, td.node))
    ok = any(isinstance(st, ast.Assign) and any(is_self_attr(t, '_alive') for t in st.targets) and norm(st.value) == f'not {reply_var(td)}' for st in walk_local(td.node))
    ctx.check('R4', 'delete maps the reply to the alive flag', ok, 'RemoteContext._try_del', 'delete-reply', 'the reply of a delete is not recorded', where=loc(td, td.node))
    ok = any(isinstance(st, ast.Assign) and any(is_self_attr(t, '_alive') for t in st.targets) and isinstance(st.value, ast.Constant) and st.value.value is True and st in ini.node.body
             for st in walk_local(ini.node))
    ctx.check('R4', 'a context is marked alive only after a successful registration', ok, 'RemoteContext.__init__', 'alive-flag', 'the context is marked alive before the server confirmed it', where=loc(ini, ini.node))
