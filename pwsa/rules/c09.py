"""C09 - no worker outlives its pool; a pool stays usable across runs and restarts."""
import ast
import copy

from ..astutil import (split_if, canon, canon_ast, facts_at, conjuncts, guards_of, edge_facts, AnalysisError, dotted, calls_in, last_attr, receiver, norm, is_name, walk_local, is_self_attr,
                       loc, short, parent_map, names_in)
from ..cfg import is_flow, path_str

EXPLANATION = (
    'Static decision of the Pool life-cycle code. R1: __exit__ reaches close() on the clean branch and terminate() on the '
    'exception branch; _close starts one clean-up thread per registered worker and joins them all; in cleanup_worker every '
    'path on which the worker is alive passes close() then wait(timeout) and, when it is still alive and forcing is not '
    'explicitly disabled (force is not False, or the pool is being terminated), terminate(timeout, ...) - force=None does not '
    'disable it. R2: _workers and _queues are updated pairwise under the same key in add_worker (under the lock), in its '
    'failure handler (both removed, worker terminated, exception re-raised), in attach and in restart_workers. R3: every '
    'bookkeeping attribute mutated by the closures of run is re-initialised in run\'s prologue, except _closed (dead workers '
    'never get work again - listed exception) and the guard. R4: the guard is cleared on every exit of run and _close refuses '
    'to run inside a run.')
TECHNIQUE = 'reachability / must-pass-through / paired-update checks on the CFG and AST of pool.py'


def run(ctx):
    P = ctx.prog
    pool = P.cls('Pool')
    need = ['__exit__', '_close', 'close', 'terminate', 'add_worker', 'attach', 'restart_workers', 'run']
    for n in need:
        ctx.require(n in pool.methods, f'Pool.{n} not found')
    ex, cl = pool.methods['__exit__'], pool.methods['_close']
    ctx.used(*[pool.methods[n] for n in need])

    # ---------------------------------------------------------------- R1 __exit__
    g = ctx.an.cfg(ex, pool)
    cids = {n.id for n in g.nodes if n.stmt is not None and n.part == 'post' and any(last_attr(c) in ('close', 'terminate') and receiver(c) == 'self' for c in n.calls())}
    p = g.find_path([g.entry], lambda n: n is g.exit, edge_ok=is_flow, node_ok=lambda n: n.id not in cids)
    ctx.check('R1', 'Pool.__exit__ reaches close() or terminate() on every path', p is None and bool(cids), 'Pool.__exit__', 'exit-without-close',
              'leaving the with-block can skip both close() and terminate(): the workers of the pool outlive it', where=loc(ex, ex.node), path=path_str(p or []))
    # exception branch -> terminate
    tests = [st for st in walk_local(ex.node) if isinstance(st, ast.If)]
    ok = False
    for t in tests:
        # polarity-free: (statements run when `<exc> is None` holds, statements run otherwise)
        sp = split_if(t, lambda x: isinstance(x, ast.Compare) and len(x.ops) == 1 and isinstance(x.ops[0], ast.Is) and isinstance(x.comparators[0], ast.Constant)
                      and x.comparators[0].value is None)
        if sp:
            ok = any(last_attr(c) == 'close' for st in sp[0] for c in calls_in(st)) and any(last_attr(c) == 'terminate' for st in sp[1] for c in calls_in(st))
    ctx.check('R1', 'Pool.__exit__: clean exit closes, exit by exception terminates', ok, 'Pool.__exit__', 'exit-branches',
              '__exit__ does not close on a clean exit and terminate on an exception', where=loc(ex, ex.node))
    for m, graceful in (('close', 'True'), ('terminate', 'False')):
        f = pool.methods[m]
        c = [x for x in calls_in(f.node) if last_attr(x) == '_close' and receiver(x) == 'self']
        ok = len(c) == 1 and len(c[0].args) == 3 and norm(c[0].args[2]) == graceful
        ctx.check('R1', f'Pool.{m} calls _close(timeout, force, {graceful})', ok, f'Pool.{m}', f'{m}-delegation', f'Pool.{m} does not delegate to _close(..., {graceful})', where=loc(f, f.node))
    # _close: one clean-up per worker, all joined
    # the per-worker clean-up job: the closure handed to Thread(target=...) in _close (found by role, not by name)
    targets = [k.value.id for c in calls_in(cl.node) if last_attr(c) == 'Thread' for k in c.keywords if k.arg == 'target' and isinstance(k.value, ast.Name) and k.value.id in cl.nested]
    # ... or a method of the Pool given the worker (and what the closure used to capture) as thread arguments
    mtargets = [k.value.attr for c in calls_in(cl.node) if last_attr(c) == 'Thread' for k in c.keywords if k.arg == 'target' and isinstance(k.value, ast.Attribute)
                and isinstance(k.value.value, ast.Name) and k.value.value.id in ('self', pool.name) and k.value.attr in pool.methods]
    ctx.require(targets or mtargets, 'Pool._close: the per-worker clean-up job (Thread target) was not found')
    if targets:
        cw = cl.nested[targets[0]]
        WV = cw.params[0] if cw.params else 'worker'
    else:
        cw = pool.methods[mtargets[0]]
        ps = [x for x in cw.params if x != 'self']
        WV = ps[0] if ps else 'worker'
    CWN = cw.name
    ctx.used(cw)
    loops = [n for n in walk_local(cl.node) if isinstance(n, ast.For) and 'self._workers' in norm(n.iter)]
    ok = bool(loops) and any(last_attr(c) == 'Thread' and any(k.arg == 'target' and (is_name(k.value, CWN) or (isinstance(k.value, ast.Attribute) and k.value.attr == CWN)) for k in c.keywords) for c in calls_in(loops[0])) \
        and any(last_attr(c) == 'start' for c in calls_in(loops[0]))
    ctx.check('R1', 'Pool._close starts one clean-up thread per registered worker', ok, 'Pool._close', 'cleanup-not-per-worker',
              '_close does not start a clean-up for every registered worker', where=loc(cl, cl.node))
    joins = [n for n in walk_local(cl.node) if isinstance(n, ast.For) and any(last_attr(c) == 'join' and not c.args for c in calls_in(n))]
    ctx.check('R1', 'Pool._close joins every clean-up thread', bool(joins), 'Pool._close', 'cleanup-not-joined', '_close returns before the clean-up threads have finished',
              where=loc(cl, cl.node))
    # cleanup_worker chain
    gw = ctx.an.cfg(cw, pool)

    def posts(name):
        # 'attempted': the call is started (its own failure is logged by the per-worker handler)
        return {n.id for n in gw.nodes if n.stmt is not None and n.part == 'eval' and any(last_attr(c) == name and receiver(c) == WV for c in n.calls())}
    alive_tests = [n for n in gw.nodes if n.kind == 'test' and norm(n.stmt.test) == f'not {WV}.is_alive()' and n.part in (None, 'post')]
    ctx.require(alive_tests, 'cleanup_worker: liveness test not found')
    starts = [e.dst for n in alive_tests for e in n.succ if e.kind == 'false']
    for name in ('close', 'wait'):
        ids = posts(name)
        # a failure *of close() itself* is logged by the per-worker handler and is not followed here (observation, not armed)
        ok_edge = lambda e: is_flow(e) and not (e.kind == 'exc' and e.call is not None and last_attr(e.call) == 'close')
        p = gw.find_path(starts, lambda n: n is gw.exit, edge_ok=ok_edge, node_ok=lambda n: n.id not in ids)
        ctx.check('R1', f'cleanup_worker: a live worker is always {name}()d', p is None and bool(ids), 'Pool._close.<cleanup_worker>', f'cleanup-skips-{name}',
                  f'the clean-up of a live worker can skip {name}()', where=loc(cw, cw.node), path=path_str(p or []))
    # the escalation condition
    def _terms(stmts):
        return [c for x in stmts for c in calls_in(x) if last_attr(c) == 'terminate' and receiver(c) == WV]
    esc = [st for st in walk_local(cw.node) if isinstance(st, ast.If) and (_terms(st.body) or _terms(st.orelse))
           and not any(isinstance(x, ast.If) and (_terms(x.body) or _terms(x.orelse)) for y in st.body + st.orelse for x in ast.walk(y))]
    ok = len(esc) == 1
    # the condition under which terminate() runs, spelled without negation (the call may sit in the else branch of the negated test)
    cond = None
    esc_body = []
    if ok:
        in_body = bool(_terms(esc[0].body))
        txt, truth = canon(esc[0].test, in_body)
        cond = txt if truth else f'not ({txt})'
        esc_body = esc[0].body if in_body else esc[0].orelse
    av = [st.targets[0].id for st in walk_local(cw.node) if isinstance(st, ast.Assign) and isinstance(st.targets[0], ast.Name) and isinstance(st.value, ast.UnaryOp)
          and isinstance(st.value.operand, ast.Call) and last_attr(st.value.operand) == 'wait']
    AL = av[-1] if av else 'alive'
    want = f'{AL} and (force is not False or not graceful)'
    if ok and cond != want:
        # the same condition spelled through locals that are bound once (`stopped = w.wait(...)`, `may_terminate = ...`): expand them and compare
        one = {}
        for st in walk_local(cw.node):
            if isinstance(st, ast.Assign) and len(st.targets) == 1 and isinstance(st.targets[0], ast.Name):
                one.setdefault(st.targets[0].id, []).append(st.value)
        one = {k: v[0] for k, v in one.items() if len(v) == 1}

        def expand(e, depth=0):
            e = copy.deepcopy(e)

            class T(ast.NodeTransformer):
                def visit_Name(self, x):
                    if x.id in one and depth < 3 and isinstance(x.ctx, ast.Load):
                        return expand(one[x.id], depth + 1)
                    return x
            return T().visit(e)
        in_body = bool(_terms(esc[0].body))
        txt2, truth2 = canon(expand(esc[0].test), in_body)
        cond2 = txt2 if truth2 else f'not ({txt2})'
        want2 = f'not {WV}.wait(timeout=timeout) and (force is not False or not graceful)'
        if cond2 == want2:
            cond, want, AL = cond2, want2, f'not {WV}.wait(timeout=timeout)'
    ctx.check('R1', 'cleanup_worker escalates to terminate() when the worker is still alive and forcing is not disabled', ok and cond == want, 'Pool._close.<cleanup_worker>',
              'escalation-condition:' + str(cond).replace(AL, 'ALIVE'), f'the escalation to terminate() is conditional on `{cond}` instead of `{want}`: '
              'a stuck worker outlives the pool (force=None must not disable the forced termination)', where=loc(cw, esc[0]) if ok else loc(cw, cw.node))
    if ok:
        t = [c for x in esc_body for c in calls_in(x) if last_attr(c) == 'terminate'][0]
        kw = {k.arg: norm(k.value) for k in t.keywords}
        ctx.check('R1', 'cleanup_worker: terminate is given the pool timeout', kw.get('timeout') == 'timeout', 'Pool._close.<cleanup_worker>', 'escalation-timeout',
                  'terminate() is not given the close timeout', where=loc(cw, t))
        # alive is computed from wait()
        a = [st for st in walk_local(cw.node) if isinstance(st, ast.Assign) and is_name(st.targets[0], AL) and isinstance(st.value, ast.UnaryOp)]
        ok2 = bool(a) and isinstance(a[-1].value.operand, ast.Call) and last_attr(a[-1].value.operand) == 'wait' and any(k.arg == 'timeout' for k in a[-1].value.operand.keywords)
        if not ok2 and AL == f'not {WV}.wait(timeout=timeout)':
            ok2 = True      # the expanded condition tests the negated result of wait(timeout=...) itself
        ctx.check('R1', 'cleanup_worker: `alive` is the negated result of wait(timeout=...)', ok2, 'Pool._close.<cleanup_worker>', 'alive-not-from-wait',
                  '`alive` is not computed from a bounded wait()', where=loc(cw, cw.node))
    # force_args: force passed only if not None
    fa = [st for st in walk_local(cl.node) if isinstance(st, ast.If) and norm(st.test) == 'force is not None']
    ctx.check('R1', '_close forwards an explicit force setting only', bool(fa), 'Pool._close', 'force-args', 'the force setting is not forwarded to terminate()', where=loc(cl, cl.node))
    # the guard may sit at the top level or inside a `with <lock>:` at the top level - what matters is that it precedes the clean-up jobs
    top = []
    for st in cl.node.body:
        top.append(st)
        if isinstance(st, ast.With):
            top.extend(st.body)
    guards = [st for st in top if isinstance(st, ast.If) and canon(st.test) == ('self._map_guard', True) and any(isinstance(x, ast.Raise) for x in st.body)]
    ctx.check('R4', '_close refuses to run inside Pool.run', bool(guards), 'Pool._close', 'close-inside-run', '_close can run while a run is in progress', where=loc(cl, cl.node))
    qs = [n for n in walk_local(cl.node) if isinstance(n, ast.For) and 'self._queues' in norm(n.iter) and any(last_attr(c) == 'close' for c in calls_in(n))]
    ctx.check('R1', '_close closes the result pipes and marks the pool closed', bool(qs) and any(isinstance(st, ast.Assign) and any(is_self_attr(t, '_pool_closed') for t in st.targets) for st in walk_local(cl.node)),
              'Pool._close', 'queues-not-closed', '_close leaves result pipes open / does not mark the pool closed', where=loc(cl, cl.node))

    # the pool is marked closed only after every clean-up thread has been joined (a close that was interrupted can be repeated)
    gcl = ctx.an.cfg(cl, pool)
    marks = [n for n in gcl.nodes if n.stmt is not None and n.part in (None, 'store') and isinstance(n.stmt, ast.Assign) and any(is_self_attr(t, '_pool_closed') for t in n.stmt.targets)
             and isinstance(n.stmt.value, ast.Constant) and n.stmt.value.value is True]
    join_done = {n.id for n in gcl.nodes if n.kind == 'for' and any(last_attr(c) == 'join' for c in calls_in(n.stmt))}
    # leaving the join loop normally = the 'false' edge of its for-step node
    after_join = {e.dst.id for n in gcl.nodes if n.id in join_done for e in n.succ if e.kind == 'false'}
    pth = gcl.find_path([gcl.entry], lambda n: n in marks, edge_ok=is_flow, node_ok=lambda n: n.id not in after_join) if marks else None
    ctx.check('R1', 'Pool._close marks the pool closed only after all clean-up threads have been joined', bool(marks) and pth is None, 'Pool._close', 'pool-marked-closed-before-cleanup',
              '_close sets _pool_closed before the per-worker clean-up has finished: if the close is interrupted (an exception while joining, e.g. Ctrl-C) the pool already counts as closed, '
              'every later close()/terminate() - the one of __exit__ included - returns at once and the workers outlive the pool', where=loc(cl, marks[0].stmt) if marks else loc(cl, cl.node),
              path=path_str(pth or []))
    # ---------------------------------------------------------------- R2 paired map updates
    def map_ops(func):
        ops = []
        for st in walk_local(func.node):
            if isinstance(st, ast.Assign):
                for t in st.targets:
                    if isinstance(t, ast.Subscript) and is_self_attr(t.value) and t.value.attr in ('_workers', '_queues'):
                        ops.append(('set', t.value.attr, norm(t.slice), st))
            if isinstance(st, ast.Delete):
                for t in st.targets:
                    if isinstance(t, ast.Subscript) and is_self_attr(t.value) and t.value.attr in ('_workers', '_queues'):
                        ops.append(('del', t.value.attr, norm(t.slice), st))
            if isinstance(st, ast.Expr) and isinstance(st.value, ast.Call) and last_attr(st.value) == 'pop' and (receiver(st.value) or '') in ('self._workers', 'self._queues'):
                ops.append(('del', receiver(st.value).split('.')[1], norm(st.value.args[0]), st))
        return ops
    n_sites = 0
    for name in ('add_worker', 'attach', 'restart_workers'):
        f = pool.methods[name]
        ops = map_ops(f)
        by = {}
        for op, m, key, st in ops:
            by.setdefault((op, key), set()).add(m)
        for (op, key), maps in sorted(by.items()):
            n_sites += 1
            ctx.check('R2', f'Pool.{name}: `{op}` under key {key} touches both _workers and _queues', maps == {'_workers', '_queues'}, f'Pool.{name}',
                      f'unpaired-map-update:{op}:{key}:' + ','.join(sorted(maps)),
                      f'Pool.{name} updates only {sorted(maps)} under key `{key}`: the worker table and the queue table go out of step '
                      '(results of that worker are never read, or a closed queue is polled)', where=loc(f, f.node))
    ctx.floor('paired map update sites', n_sites, 4)
    aw = pool.methods['add_worker']
    # registration under the lock
    pm = parent_map(aw.node)
    sets = [st for op, m, key, st in map_ops(aw) if op == 'set']
    locked = all(any(isinstance(x, ast.With) and '_workers_lock' in norm(x.items[0].context_expr) for x in _ancestors(pm, st)) for st in sets)
    ctx.check('R2', 'Pool.add_worker registers under the workers lock', bool(sets) and locked, 'Pool.add_worker', 'registration-unlocked',
              'add_worker registers the worker without holding the lock', where=loc(aw, aw.node))
    # failure handler: remove both, terminate, re-raise
    hs = [h for t in walk_local(aw.node) if isinstance(t, ast.Try) for h in t.handlers]
    ok = False
    if hs:
        h = hs[0]
        dels = {m for op, m, key, st in map_ops(aw) if op == 'del' and any(st is x for x in ast.walk(h))}
        # the local holding the new worker: what add_worker stores in the worker table
        wvs = [norm(st.value) for op, m, key, st in map_ops(aw) if op == 'set' and m == '_workers' and isinstance(st.value, ast.Name)]
        AWV = wvs[0] if wvs else 'worker'
        term = any(last_attr(c) == 'terminate' and receiver(c) == AWV for x in ast.walk(h) for c in ([x] if isinstance(x, ast.Call) else []))
        rer = any(isinstance(x, ast.Raise) and x.exc is None for x in h.body)
        ok = dels == {'_workers', '_queues'} and term and rer and h.type is None
        ctx.check('R2', 'Pool.add_worker: a failed registration removes the worker from both tables, terminates it and re-raises', ok, 'Pool.add_worker',
                  f'failure-handler:dels={sorted(dels)},terminate={term},reraise={rer}',
                  'a worker whose construction or registration fails is leaked (left running / left in a table) or the error is swallowed', where=loc(aw, h))
        # the handler decides whether there is a worker to clean up by testing the local for truth (`if worker:` - it is None until the constructor has
        # returned): that is only "a worker exists" as long as no class of the worker hierarchy gives its instances a truth value of their own
        from ..astutil import truth_tested
        truth_sites = [leaf for leaf, st in truth_tested(h) if is_name(leaf, AWV)]
        if truth_sites:
            W0 = ctx.prog.cls('Worker')
            redefs = [(c0, m) for c0 in ctx.prog.classes.values() if not isinstance(c0, str) and W0 in [x for x in c0.mro() if not isinstance(x, str)]
                      for m in ('__bool__', '__len__') if m in c0.methods]
            ctx.check('R2', f'Pool.add_worker tests the new worker for truth ({len(truth_sites)} site): no worker class defines __bool__ / __len__', not redefs, 'Pool.add_worker',
                      'worker-truthiness-redefined:' + ','.join(f'{c0.name}.{m}' for c0, m in redefs),
                      (f'{redefs[0][0].name}.{redefs[0][1]} gives worker objects a truth value of their own' if redefs else '') +
                      f': `if {AWV}:` in the failure handler of add_worker is then false for a live worker (e.g. one that has no inputs yet), which is neither unregistered nor '
                      'terminated when its registration fails - it outlives the pool', where=loc(redefs[0][0].methods[redefs[0][1]], redefs[0][0].methods[redefs[0][1]].node) if redefs else loc(aw, h))
    else:
        ctx.check('R2', 'Pool.add_worker has a failure handler', False, 'Pool.add_worker', 'no-failure-handler', 'add_worker does not clean up after a failed registration', where=loc(aw, aw.node))
    rw = pool.methods['restart_workers']
    rc = [c for c in calls_in(rw.node) if last_attr(c) == 'restart']
    ok = len(rc) == 1 and any(k.arg == 'results_pipe' for k in rc[0].keywords) and any(isinstance(st, ast.Assign) and isinstance(st.value, ast.Call) and last_attr(st.value) == 'Pipe'
                                                                                         for st in walk_local(rw.node))
    ctx.check('R2', 'Pool.restart_workers hands every worker a fresh results pipe', ok, 'Pool.restart_workers', 'restart-reuses-pipe',
              'restart_workers does not give the restarted worker a fresh results pipe: results of the previous incarnation leak into the next run', where=loc(rw, rw.node))
    snap = any(isinstance(st, ast.Assign) and isinstance(st.value, ast.Call) and is_name(st.value.func, 'list') and 'self._workers.items()' in norm(st.value) for st in walk_local(rw.node))
    ctx.check('R2', 'Pool.restart_workers iterates over a snapshot of the table it re-keys', snap, 'Pool.restart_workers', 'restart-iterates-live-dict',
              'restart_workers mutates the worker table while iterating over it', where=loc(rw, rw.node))

    # ---------------------------------------------------------------- R3 per-run re-initialisation
    run = pool.methods['run']
    check_reinit(ctx, pool, 'R3')
    tries = [st for st in run.node.body if isinstance(st, ast.Try)]
    # restart re-enables workers: restart_workers must drop the old id from _closed? (ids change for process/remote; thread ids change too)
    from .c07 import check_enqueue_callers, closure_roles
    check_enqueue_callers(ctx, pool, run, closure_roles(ctx, run), rule='R3')
    # frame: who may touch the pool-level state
    POOL_FRAME = {
        '_workers': {'__init__', 'add_worker', 'attach', 'restart_workers'},
        '_queues': {'__init__', 'add_worker', 'attach', 'restart_workers', '_close', 'run'},
        '_pool_closed': {'__init__', '_close'},
        '_map_guard': {'__init__', 'run'},
    }
    MUT2 = ('pop', 'clear', 'update', 'setdefault', 'popitem', '__setitem__', '__delitem__')
    n_fr = 0
    for f in P.funcs.values():
        owner = f.cls
        q = f.parent
        while owner is None and q is not None:
            owner = q.cls
            q = q.parent
        if owner is not pool:
            continue
        top = f
        while top.parent is not None:
            top = top.parent
        for node in walk_local(f.node):
            hit = None
            if isinstance(node, (ast.Assign, ast.AugAssign, ast.Delete)):
                targets = node.targets if isinstance(node, (ast.Assign, ast.Delete)) else [node.target]
                for t in targets:
                    base = t
                    while isinstance(base, ast.Subscript):
                        base = base.value
                    if is_self_attr(base) and base.attr in POOL_FRAME:
                        hit = base.attr
            if isinstance(node, ast.Call) and last_attr(node) in MUT2 and isinstance(node.func, ast.Attribute) and is_self_attr(node.func.value) and node.func.value.attr in POOL_FRAME:
                hit = node.func.value.attr
            if hit:
                n_fr += 1
                ctx.check('R2', f'{f.short}: update of self.{hit} is made by one of {sorted(POOL_FRAME[hit])}', top.name in POOL_FRAME[hit], f.short, f'unexpected-writer:{hit}@{top.name}',
                          f'{f.short} changes self.{hit} - the pool-level tables/flags are only changed by {sorted(POOL_FRAME[hit])}', where=loc(f, node))
    ctx.floor('updates of the pool-level state', n_fr, 12)
    # ---------------------------------------------------------------- R4 guard
    fin = any(isinstance(s, ast.Assign) and any(is_self_attr(x, '_map_guard') for x in s.targets) and isinstance(s.value, ast.Constant) and s.value.value is False for s in tries[0].finalbody)
    ctx.check('R4', 'Pool.run clears the map guard in a finally', fin, 'Pool.run', 'map-guard-not-reset',
              'an exception inside Pool.run leaves the guard set: the with-block cannot close the pool any more', where=loc(run, run.node))


def _ancestors(pm, node):
    cur = node
    while cur in pm:
        cur = pm[cur]
        yield cur

def check_reinit(ctx, pool, rule):
    """every bookkeeping attribute a closure of Pool.run mutates is re-initialised in the prologue of run (helpers called there included),
    except the closed set: nothing of an earlier - e.g. failed - run leaks into the next one"""
    run = pool.methods['run']
    mutated = {}
    from .c07 import MUTATORS as MUT
    for f in run.nested.values():
        for n in walk_local(f.node):
            if isinstance(n, (ast.Assign, ast.AugAssign)):
                targets = n.targets if isinstance(n, ast.Assign) else [n.target]
                for t in targets:
                    base = t
                    while isinstance(base, ast.Subscript):
                        base = base.value
                    if is_self_attr(base):
                        mutated.setdefault(base.attr, f)
            if isinstance(n, ast.Call) and last_attr(n) in MUT:
                base = n.func.value
                while isinstance(base, ast.Subscript):
                    base = base.value
                if is_self_attr(base):
                    mutated.setdefault(base.attr, f)
    tries = [st for st in run.node.body if isinstance(st, ast.Try)]
    ctx.require(tries, 'Pool.run: try block not found')
    prologue = []
    for st in tries[0].body:
        if isinstance(st, ast.FunctionDef):
            break
        prologue.append(st)
    def resets(stmts):
        # `self.x = ...` or the statement `self.x.clear()`: either way nothing of the previous run is left in x
        return {t.attr for st in stmts if isinstance(st, ast.Assign) for t in st.targets if is_self_attr(t)} | \
               {st.value.func.value.attr for st in stmts if isinstance(st, ast.Expr) and isinstance(st.value, ast.Call) and last_attr(st.value) == 'clear'
                and not st.value.args and isinstance(st.value.func, ast.Attribute) and is_self_attr(st.value.func.value)}
    reinit = resets(prologue)
    # ... including what a helper method called unconditionally from the prologue assigns at its own top level
    for st in prologue:
        if isinstance(st, ast.Expr) and isinstance(st.value, ast.Call) and receiver(st.value) == 'self':
            r = ctx.prog.resolve_call(st.value, run, pool)
            if r and r[0] == 'func':
                ctx.used(r[1])
                reinit |= resets(r[1].node.body)
    exceptions = {'_closed', '_queues', '_workers'}      # persistent by design: the closed set, and the tables of workers and their result pipes (who may change them: C07.R7)
    for attr, f in sorted(mutated.items()):
        if attr in exceptions:
            ctx.ob(rule, f'Pool.run: `{attr}` is persistent by design', True)
            continue
        ctx.check(rule, f'Pool.run re-initialises `{attr}` (mutated by {f.short}) in its prologue', attr in reinit, 'Pool.run', f'not-reinitialised:{attr}',
                  f'`self.{attr}` is mutated during a run but not re-initialised at the start of the next one: bookkeeping of an earlier (e.g. failed) run leaks into the next run',
                  where=loc(run, run.node))
    ctx.floor('bookkeeping attributes mutated by run closures', len(mutated), 5)
    # _closed must NOT be reset (dead workers are never handed work again)
    # ... and nothing ever takes an id out of it: a worker that has been written off stays written off (restart gives workers new ids)
    SHRINK = ('remove', 'discard', 'pop', 'clear', 'difference_update', 'intersection_update', 'symmetric_difference_update', '__isub__', '__iand__')
    for f in ctx.prog.funcs.values():
        owner, q = f.cls, f.parent
        while owner is None and q is not None:
            owner, q = q.cls, q.parent
        if owner is not pool:
            continue
        for c in calls_in(f.node):
            if last_attr(c) in SHRINK and receiver(c) == 'self._closed':
                ctx.check(rule, f'{f.short}: no id is ever taken out of the set of written-off workers', False, f.short, f'closed-set-shrinks:{last_attr(c)}',
                          f'`{norm(c)[:80]}` removes ids from the set of dead/closed workers: a worker whose death has been handled is offered work again in the next run - the input is '
                          'dropped (retry off) or the run keeps retrying a worker that will never answer', where=loc(f, c))
        for st in walk_local(f.node):
            if isinstance(st, ast.AugAssign) and is_self_attr(st.target, '_closed') and isinstance(st.op, (ast.Sub, ast.BitAnd, ast.BitXor)):
                ctx.check(rule, f'{f.short}: no id is ever taken out of the set of written-off workers', False, f.short, 'closed-set-shrinks:augassign',
                          f'`{norm(st)[:80]}` removes ids from the set of dead/closed workers', where=loc(f, st))
    ctx.check(rule, 'Pool.run keeps `_closed` across runs', '_closed' not in reinit, 'Pool.run', 'closed-set-reset',
              'Pool.run forgets which workers are dead: the next run hands work to dead workers', where=loc(run, run.node))

