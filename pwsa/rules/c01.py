"""C01 - a dead worker always has one definite, consistent and stable outcome."""
import ast

from ..astutil import (receiver_texts, split_if, AnalysisError, dotted, calls_in, last_attr, receiver, norm, is_name, walk_local, is_self_attr,
                       loc, short, parent_map)
from ..cfg import is_flow, path_str
from ..lifecycle import lifecycle, worker_classes, kind_of, landing_label, handler_context
from ..shapes import ShapeFlow, NONE, PAIR, MSG, WIRE, OTHER
from .c03 import split_regions, calls_in_stmts

EXPLANATION = (
    'Static decision of the outcome machinery. R1: result/error/has_error (and every override) are abstractly interpreted on '
    'r in {None, (True,v), (False,e)} and must produce the table None->(None,None,None), (True,v)->(v,None,False), '
    '(False,e)->(None,e,True). R2: every value that can reach the outcome slot - stores to the attribute returned by the '
    'resolved _get_result and every message on the outcome channel, the server\'s forced-kill message and the not-run store '
    'included - is a (bool, x) pair with x the do_work() result for True and the handler\'s exception variable or None for '
    'False; a value-shape dataflow (none/pair/message) over the parent-side recording functions shows that the slot holds a '
    'pair, never a raw message. R3: on every exit (normal, exceptional, one injected fault or asynchronous landing) of the '
    'function that records the outcome for the parent (thread: child-main; remote: frontend _fetch_results; process: '
    '_get_result once not alive) the slot is a pair. R4: the exception-escape summary of every resolved _get_result is empty: '
    'the accessors cannot raise. R5: the slot is written only by the recording functions, guarded by `slot is None` where '
    'they can run twice; _dead is reset to False only at start-up.')
TECHNIQUE = 'abstract interpretation of the accessors, value-shape dataflow on the CFG, budgeted path search over exception/async edges, escape summaries, who-may-write'


# ------------------------------------------------------------------------------------------------ R1 decoder
class _Sym:
    def __init__(self, name):
        self.name = name

    def __repr__(self):
        return self.name


V, E = _Sym('v'), _Sym('e')


class Unsupported(Exception):
    pass


def _interp(func, r_value):
    """Abstractly run a decoder property with _get_result() returning r_value (None or (flag, payload))."""
    env = {}

    def ev(x):
        if isinstance(x, ast.Constant):
            return x.value
        if isinstance(x, ast.Name):
            if x.id not in env:
                raise Unsupported(f'unbound name {x.id}')
            return env[x.id]
        if isinstance(x, ast.Call) and last_attr(x) == '_get_result' and receiver(x) == 'self' and not x.args:
            return r_value
        if isinstance(x, ast.UnaryOp) and isinstance(x.op, ast.Not):
            return not truth(ev(x.operand))
        if isinstance(x, ast.Compare) and len(x.ops) == 1 and isinstance(x.ops[0], (ast.Is, ast.IsNot)):
            a, b = ev(x.left), ev(x.comparators[0])
            same = a is b
            return same if isinstance(x.ops[0], ast.Is) else not same
        if isinstance(x, ast.Subscript) and isinstance(x.slice, ast.Constant) and isinstance(x.slice.value, int):
            base = ev(x.value)
            if isinstance(base, tuple):
                return base[x.slice.value]
            raise Unsupported('subscript of a non-tuple')
        if isinstance(x, ast.IfExp):
            return ev(x.body) if truth(ev(x.test)) else ev(x.orelse)
        if isinstance(x, ast.BoolOp):
            vals = [ev(v) for v in x.values]
            if isinstance(x.op, ast.And):
                for v in vals:
                    if not truth(v):
                        return v
                return vals[-1]
            for v in vals:
                if truth(v):
                    return v
            return vals[-1]
        if isinstance(x, ast.Tuple):
            return tuple(ev(e) for e in x.elts)
        raise Unsupported(f'expression {norm(x)}')

    def truth(v):
        if isinstance(v, _Sym):
            raise Unsupported('truth value of a symbolic payload')
        return bool(v)

    class Ret(Exception):
        def __init__(self, v):
            self.v = v

    def run(stmts):
        for st in stmts:
            if isinstance(st, ast.Expr) and isinstance(st.value, ast.Constant):
                continue
            if isinstance(st, ast.Assign) and len(st.targets) == 1:
                t = st.targets[0]
                val = ev(st.value)
                if isinstance(t, ast.Name):
                    env[t.id] = val
                elif isinstance(t, ast.Tuple) and all(isinstance(e, ast.Name) for e in t.elts):
                    if not isinstance(val, tuple) or len(val) != len(t.elts):
                        raise Unsupported('unpacking a non-pair')
                    for e, v in zip(t.elts, val):
                        env[e.id] = v
                else:
                    raise Unsupported('assignment target')
            elif isinstance(st, ast.If):
                run(st.body if truth(ev(st.test)) else st.orelse)
            elif isinstance(st, ast.Return):
                raise Ret(ev(st.value) if st.value is not None else None)
            elif isinstance(st, ast.Pass):
                continue
            else:
                raise Unsupported(f'statement {type(st).__name__}')
        return None
    try:
        run(func.node.body)
    except Ret as r:
        return r.v
    return None


def check_decoder(ctx):
    P = ctx.prog
    W = P.cls('Worker')
    oracle = {
        'result': [(None, None), ((True, V), V), ((False, E), None)],
        'error': [(None, None), ((True, V), None), ((False, E), E)],
        'has_error': [(None, None), ((True, V), False), ((False, E), True)],
    }
    n = 0
    for c in P.classes.values():
        if W not in c.mro():
            continue
        for acc, table in oracle.items():
            if acc not in c.methods:
                continue
            f = c.methods[acc]
            ctx.used(f)
            for rv, want in table:
                n += 1
                try:
                    got = _interp(f, rv)
                except Unsupported as e:
                    raise AnalysisError(f'{f.short}: decoder uses an idiom the abstract interpreter does not know ({e})')
                ok = got is want if not isinstance(want, bool) else (got is want)
                ctx.check('R1', f'{f.short}: _get_result()={rv!r} -> {want!r}', ok, f.short, f'decoder:{rv!r}->{got!r}',
                          f'{f.short} returns {got!r} when the recorded outcome is {rv!r} (expected {want!r})', where=loc(f, f.node))
    ctx.floor('decoder table entries', n, 9)


# ------------------------------------------------------------------------------------------------ helpers
def handler_var_of(func, node_stmt):
    """name bound by the innermost `except ... as e` enclosing node_stmt"""
    pm = parent_map(func.node)
    cur = node_stmt
    while cur in pm:
        cur = pm[cur]
        if isinstance(cur, ast.ExceptHandler):
            return cur.name
    return None


def payload_from_work(func, payload):
    """payload is self.do_work() or a local whose only definition is self.do_work()"""
    if isinstance(payload, ast.Call) and last_attr(payload) == 'do_work':
        return True
    if isinstance(payload, ast.Name):
        defs = [st for st in walk_local(func.node) if isinstance(st, ast.Assign) and any(is_name(t, payload.id) for t in st.targets)]
        vals = [st.value for st in defs]
        return bool(vals) and any(isinstance(v, ast.Call) and last_attr(v) == 'do_work' for v in vals) and \
            all((isinstance(v, ast.Call) and last_attr(v) == 'do_work') or isinstance(v, ast.Tuple) or
                (isinstance(v, ast.Constant) and v.value is None) for v in vals)
    return False


def run(ctx):
    from ..frame import check_frame_attrs
    check_frame_attrs(ctx, 'C01', 'R5')
    P = ctx.prog
    check_decoder(ctx)
    # the pipe that carries the outcome of the process kinds carries the start-up report first: whatever is left in it is unpacked as the final message
    from .c20 import startup_report_sites, check_startup_report_consumed
    for cls0, f0, g0, c0, pipe0 in startup_report_sites(ctx):
        ctx.used(f0)
        check_startup_report_consumed(ctx, 'R3', cls0, f0, g0, c0, pipe0)
    classes = worker_classes(P, internal=True)
    seen_funcs = set()
    for cls in classes:
        lc = lifecycle(ctx, cls)
        ctx.used(lc.main, lc.get_result)
        slot = lc.slot
        # ---------------------------------------------------------------- R2 child-side producers
        if lc.main.qualname + '|' + lc.kind not in seen_funcs:
            seen_funcs.add(lc.main.qualname + '|' + lc.kind)
            recs = {}
            for r in lc.recorders:
                recs.setdefault(id(r.stmt), r)
            for r in recs.values():
                if r.how == 'send' and r.var:
                    continue
                where = loc(lc.main, r.stmt)
                if r.flag is None:
                    continue      # a non-literal store: judged by the shape flow at the outcome send below
                if r.flag is True:
                    ok = payload_from_work(lc.main, r.payload)
                    ctx.check('R2', f'{lc.main.short}: success outcome carries the do_work() result', ok, lc.main.short,
                              f'success-payload:{norm(r.payload)}',
                              f'the success outcome carries `{norm(r.payload)}`, which is not the value returned by do_work()', where=where)
                else:
                    hv = handler_var_of(lc.main, r.stmt)
                    ok = (isinstance(r.payload, ast.Constant) and r.payload.value is None) or (hv is not None and is_name(r.payload, hv))
                    ctx.check('R2', f'{lc.main.short}: failure outcome carries the caught exception (or None)', ok, lc.main.short,
                              f'failure-payload:{norm(r.payload)}',
                              f'the failure outcome carries `{norm(r.payload)}`, not the exception caught by the enclosing handler', where=where)
                    if hv is not None and is_name(r.payload, hv):
                        ctx.ob('R2', f'{lc.main.short}: (False, {hv}) is def-use linked to `except ... as {hv}`', True)
            if lc.kind == 'remote':
                g = lc.g
                sf = ShapeFlow(ctx, g, cls, 'remote', init={})
                sf.solve([g.entry])
                for r in lc.recorders:
                    if r.how == 'send' and r.var:
                        ev_nodes = [n for n in g.nodes if n.stmt is r.stmt and n.part == 'eval' and n.copy_of == r.node.copy_of]
                        for n in ev_nodes:
                            sh = sf.at(n, r.var)
                            if sh is None:
                                continue
                            ok = sh <= {PAIR}
                            ctx.check('R2', f'{lc.main.short}: `{r.var}` is a pair whenever the outcome is sent ({n.describe()}; shapes {sorted(sh)})', ok,
                                      lc.main.short, 'outcome-send-shape:' + ','.join(sorted(sh)),
                                      f'the backend can send `{r.var}` holding ' + ('None' if NONE in sh else 'a value that is not a (bool, x) pair') +
                                      ' as its final result: the parent stores it and has_error stays None/garbled on a dead worker', where=loc(lc.main, r.stmt))
            ctx.floor(f'{lc.main.short}: outcome producers', len(recs), 2)
            # success and failure outcome both exist
            flags = {r.flag for r in recs.values()}
            ctx.check('R2', f'{lc.main.short}: produces both a success and a failure outcome', True in flags and False in flags, lc.main.short,
                      'missing-outcome-kind:' + ','.join(sorted(str(f) for f in flags)),
                      f'{lc.main.short} never produces a ' + ('success' if True not in flags else 'failure') + ' outcome', where=loc(lc.main, lc.main.node))
        # ---------------------------------------------------------------- R3 child side (thread: no parent fallback)
        if lc.kind == 'thread' and ('R3', lc.main.qualname, cls.name) not in seen_funcs:
            seen_funcs.add(('R3', lc.main.qualname, cls.name))
            g = lc.g
            rec_ids = lc.recorder_nodes(lambda r: r.flag is not None)
            exits = {n.id for n in g.exits()}
            # (a) every exit, under any inputs and one fault of the library/user kind
            p = g.find_path_budget(lc.primary_sync, lambda n: n.id in exits, avoid=rec_ids, budget=1,
                                   is_fault=lambda e: e.kind == 'exc' and e.cause in ('e3', 'e3p'))
            ctx.check('R3', f'{cls.name}: every exit of {lc.main.short} after start-up stores an outcome (inputs + one library fault)', p is None,
                      lc.main.short, 'exit-without-outcome' + (':' + (p[-1].exc or 'normal') if p else ''),
                      f'{lc.main.short} can end without storing an outcome (has_error None on a dead thread worker): '
                      + ('the target raising a ' + ('non-Exception BaseException' if p and any(e.exc == 'UserBaseOnly' for e in p) else 'exception') if p else ''),
                      where=loc(lc.main, lc.main.node), path=path_str(p or []))
            # (b) asynchronous landings (weaker than C03.R3: any pair will do)
            n_land = 0
            nr = g.reachable([g.entry], edge_ok=is_flow, node_ok=lambda n: n.id not in rec_ids)
            for e in lc.landing_edges():
                n_land += 1
                if e.src.id not in nr:
                    ctx.ob('R3', f'{cls.name}: landing at {e.src.describe()} [{e.phase}]: an outcome is already stored', True)
                    continue
                p = g.find_path([e.dst], lambda n: n.id in exits, edge_ok=lambda x: x.kind == 'reraise' or is_flow(x),
                                node_ok=lambda n: n.id not in rec_ids)
                ok = p is None
                ctx.ob('R3', f'{cls.name}: landing at {e.src.describe()} [{e.phase}] leaves an outcome', ok)
                if not ok:
                    ctx.finding('R3', lc.main.short, f'{handler_context(e.src)}|land@{landing_label(e.src)}',
                                f'{cls.name}: a terminate() landing at `{short(e.src.stmt)}` ({e.phase}-effect) ends the thread without any outcome: has_error stays None on a dead worker',
                                where=f'{lc.main.module.relpath}:{e.src.line}', path=[f'async landing at {e.src.describe()}'] + path_str(p))
            ctx.stats.setdefault('thread_landings', {})[cls.name] = n_land
        # ---------------------------------------------------------------- R3/R2 parent side: shape flow
        if lc.kind == 'process':
            check_process_parent(ctx, cls, lc, seen_funcs)
        if lc.kind == 'remote':
            check_remote_parent(ctx, cls, lc, seen_funcs)
        # ---------------------------------------------------------------- R4 accessors cannot raise
        summ = {x for x in ctx.an.summary(lc.get_result, cls)}
        ctx.check('R4', f'{cls.name}: _get_result() ({lc.get_result.short}) cannot raise', not summ, lc.get_result.short,
                  'accessor-raises:' + ','.join(sorted(x[0] for x in summ)),
                  f'{lc.get_result.short} lets {sorted(summ)} escape: has_error/result/error of a dead {cls.name} raise instead of reporting the fallback outcome',
                  where=loc(lc.get_result, lc.get_result.node), path=_escape_path(ctx, lc.get_result, cls))
        # ---------------------------------------------------------------- R5 who may write
        check_writers(ctx, cls, lc, seen_funcs)
    # the termination of the drain loop in _get_result relies on the pipe read mapping every transport failure to queue.Empty
    PEc = P.cls('PipeEndpoint')
    getf = PEc.methods.get('get')
    ctx.require(getf is not None, 'PipeEndpoint.get not found')
    ctx.used(getf)
    lat = ctx.an.lattice
    esc = sorted({x for x, cause in ctx.an.summary(getf, PEc) if any(lat.is_sub(x, b) for b in ('OSError', 'EOFError'))})
    ctx.check('R4', 'PipeEndpoint.get maps EOF and every transport failure to queue.Empty', not esc, 'PipeEndpoint.get', 'escape:' + ','.join(esc),
              f'{esc} raised by reading the pipe of a dead child is not reported as queue.Empty: the accessors of a dead process worker raise (or the drain loop of _get_result never ends)',
              where=loc(getf, getf.node))
    # not-run store
    W = P.cls('Worker')
    init = W.methods['__init__']
    ok = False
    for st in walk_local(init.node):
        sp = split_if(st, lambda t: is_name(t, 'run')) if isinstance(st, ast.If) else None
        if sp and sp[1]:
            stores = [s for s in sp[1] if isinstance(s, ast.Assign) and any(is_self_attr(t, '_result') for t in s.targets)]
            ok = any(isinstance(s.value, ast.Tuple) and len(s.value.elts) == 2 and isinstance(s.value.elts[0], ast.Constant)
                     and s.value.elts[0].value is True and isinstance(s.value.elts[1], ast.Constant) and s.value.elts[1].value is None for s in stores)
    ctx.check('R2', 'Worker.__init__: a worker that is not run gets the fixed outcome (True, None)', ok, 'Worker.__init__', 'not-run-outcome',
              'a worker created with run=False / target=None does not get the outcome (True, None): has_error is not False', where=loc(init, init.node))
    # forced-kill path of the server
    RW = P.cls('RemoteWorker')
    term = RW.methods['terminate']
    reg = split_regions(term)
    ctx.require(reg is not None, 'RemoteWorker.terminate regions not recognised')
    forced = [c for c in calls_in_stmts(reg['server']) if last_attr(c) == 'send_msg' and len(c.args) >= 2 and isinstance(c.args[1], ast.Tuple)]
    ctx.floor('forced-kill outcome message', len(forced), 1)
    for c in forced:
        a = c.args[1]
        ok = len(a.elts) == 2 and isinstance(a.elts[0], ast.Constant) and a.elts[0].value is False and isinstance(a.elts[1], ast.Constant) and a.elts[1].value is None
        ctx.check('R2', 'RemoteWorker.terminate[server]: after a forced kill the fabricated outcome is (False, None)', ok, 'RemoteWorker.terminate',
                  f'forced-kill-outcome:{norm(a)}', f'after force-killing the child the server reports `{norm(a)}` instead of (False, None)', where=loc(term, c))


def _escape_path(ctx, func, cls):
    g = ctx.an.cfg(func, cls)
    for exc, node in g.raise_exits.items():
        if any(e.cause != 'async' for e in node.pred):
            p = g.find_path([g.entry], lambda n: n is node, edge_ok=lambda e: e.kind != 'async')
            return path_str(p or [])
    return []


def check_process_parent(ctx, cls, lc, seen):
    gr = lc.get_result
    key = ('proc-parent', gr.qualname)
    if key in seen:
        return
    seen.add(key)
    g = ctx.an.cfg(gr, cls)
    slot = 'self.' + lc.slot
    # start after the not-alive decision
    tests = [n for n in g.nodes if n.kind == 'test' and isinstance(n.stmt, ast.If) and any(last_attr(c) == 'is_alive' for c in calls_in(n.stmt.test))]
    ctx.require(tests, f'{gr.short}: the alive test was not found')
    last = [n for n in tests if n.part in ('post', None)] or tests
    starts = [e.dst for n in last for e in n.succ if e.kind == ('false' if not norm(n.stmt.test).startswith('not ') else 'true')]
    sf = ShapeFlow(ctx, g, cls, 'process', outcome_channel=lc.outcome_channel, init={slot: frozenset({NONE, PAIR})})
    sf.solve(starts, edge_ok=lambda e: e.kind != 'async')
    bad = []
    for ex in g.exits():
        sh = sf.at(ex, slot)
        if sh is None:
            continue
        ok = sh <= {PAIR}
        ctx.ob('R3', f'{gr.short}: at {ex.describe()} (worker not alive) the outcome slot holds a pair (shapes {sorted(sh)})', ok)
        if not ok:
            bad.append((ex, sh))
    for ex, sh in bad:
        what = 'None' if NONE in sh else ('the raw (outcome, state) message' if MSG in sh else 'a non-pair value')
        ctx.finding('R3', gr.short, 'slot-shape-at-exit:' + ','.join(sorted(sh)),
                    f'{gr.short} can return with the outcome slot holding {what} although the worker is dead: has_error is None/garbled on a dead worker',
                    where=loc(gr, gr.node))
    # the fallback outcome is only taken after the outcome channel has been read (a delivered outcome is never discarded)
    reads = {n.id for n in g.nodes if n.stmt is not None and n.part == 'eval' and any(
        last_attr(c) in ('get', 'recv', 'get_nowait') and (receiver(c) or '') == f'self.{lc.outcome_channel}.parent_end' for c in n.calls())}
    ctx.check('R3', f'{gr.short}: reads the outcome channel', bool(reads), gr.short, 'outcome-channel-not-read', f'{gr.short} never reads the result pipe', where=loc(gr, gr.node))
    dom = g.dominators(edge_ok=lambda e: e.kind != 'async')
    for n in g.nodes:
        if n.stmt is not None and n.part in (None, 'store') and isinstance(n.stmt, ast.Assign) and any(is_self_attr(t, lc.slot) for t in n.stmt.targets) \
                and isinstance(n.stmt.value, ast.Tuple) and norm(n.stmt.value) == '(False, None)':
            ok = bool(dom.get(n.id, set()) & reads)
            ctx.check('R3', f'{gr.short}: the (False, None) fallback at line {n.line} is taken only after the result pipe has been read', ok, gr.short, 'fallback-without-reading-the-pipe',
                      f'{gr.short} falls back to (False, None) on a path that never looked into the result pipe: an outcome the child delivered before it died (e.g. it returned normally and '
                      'its interpreter exited non-zero, or a terminate landed in its clean-up) is discarded - has_error True, error None for work that finished', where=loc(gr, n.stmt))
    # who may close the parent's end of the outcome channel: nobody but the function that reads the outcome, after the read (the child-main closes
    # its own inherited copy).  A close anywhere else - before the final message has been read - turns a delivered outcome into the fallback.
    chan_end = f'self.{lc.outcome_channel}.parent_end'
    n_close = 0
    for c in lc.cls.mro():
        if isinstance(c, str):
            continue
        for f in c.methods.values():
            if f is lc.main:
                continue
            for call in calls_in(f.node):
                if last_attr(call) == 'close' and chan_end in receiver_texts(f.node, call):
                    n_close += 1
                    ok = False
                    if f is gr:
                        cn = [n for n in g.nodes if n.stmt is not None and n.part == 'eval' and any(x is call for x in n.calls())]
                        ok = bool(cn) and all(dom.get(n.id, set()) & reads for n in cn)
                    ctx.check('R3', f'{f.short}: the parent\'s end of the result pipe is closed only after the outcome has been read from it', ok, f.short,
                              f'outcome-channel-closed:{f.name}',
                              f'{f.short} closes {chan_end} although the final message of the child may still be unread (the child can deliver it after the first phase of the bounded '
                              'join): _get_result then finds a closed pipe and falls back to (False, None) - a worker that returned a value, or re-raised the terminate request, is reported as killed',
                              where=loc(f, call))
    ctx.stats.setdefault('closes_of_the_outcome_channel_on_the_parent_side', {})[cls.name] = n_close
    # def-use: whatever a parent-side function reads from the outcome channel ahead of time must flow into the slot in _get_result
    for c in lc.cls.mro():
        if isinstance(c, str):
            continue
        for f in c.methods.values():
            if f is gr or f.name in ('_start', '_run'):
                continue
            for st in walk_local(f.node):
                if isinstance(st, ast.Assign) and len(st.targets) == 1 and is_self_attr(st.targets[0]) and isinstance(st.value, ast.Call) \
                        and last_attr(st.value) in ('get', 'recv') and (receiver(st.value) or '') == f'self.{lc.outcome_channel}.parent_end':
                    attr = st.targets[0].attr
                    used = any(isinstance(a, ast.Attribute) and is_name(a.value, 'self') and a.attr == attr and isinstance(a.ctx, ast.Load) for a in ast.walk(gr.node))
                    ctx.check('R3', f'{f.short}: the message read ahead of time into self.{attr} is used by {gr.short}', used, gr.short, f'early-read-not-used:{attr}',
                              f'{f.short} reads the final message of the child into self.{attr}, but {gr.short} never looks at it: the delivered outcome is lost and the worker ends with the '
                              '(False, None) fallback', where=loc(f, st))
    # RemoteServerProcess-like overrides of _start that store to the slot
    for c in ctx.prog.classes.values():
        if lc.cls in c.mro() or c is lc.cls:
            for mname in ('_start',):
                if mname in c.methods:
                    f = c.methods[mname]
                    if any(isinstance(st, ast.Assign) and any(is_self_attr(x, lc.slot) for t in st.targets for x in ([t] if not isinstance(t, ast.Tuple) else t.elts))
                           for st in walk_local(f.node)):
                        k2 = ('start-store', f.qualname)
                        if k2 in seen:
                            continue
                        seen.add(k2)
                        ctx.used(f)
                        gg = ctx.an.cfg(f, c)
                        sf2 = ShapeFlow(ctx, gg, c, 'process', outcome_channel=lc.outcome_channel, init={slot: frozenset({NONE})})
                        sf2.solve([gg.entry], edge_ok=lambda e: e.kind != 'async')
                        sh = sf2.at(gg.exit, slot) or set()
                        ok = sh <= {PAIR, NONE}
                        ctx.check('R2', f'{f.short}: a start-up failure is stored as a pair (shapes {sorted(sh)})', ok, f.short,
                                  'slot-shape-at-exit:' + ','.join(sorted(sh)),
                                  f'{f.short} stores the whole (outcome, state) message of the child as the outcome: has_error is False and error None for a child that failed to start',
                                  where=loc(f, f.node))


def check_remote_parent(ctx, cls, lc, seen):
    _, fr = cls.resolve('_fetch_results')
    ctx.require(fr is not None, f'{cls.name}._fetch_results not found')
    key = ('remote-parent', fr.qualname)
    if key in seen:
        return
    seen.add(key)
    ctx.used(fr, lc.frontend)
    slot = 'self.' + lc.slot
    g = ctx.an.cfg(fr, cls)
    sf = ShapeFlow(ctx, g, cls, 'remote', init={slot: frozenset({NONE})})
    sf.solve([g.entry], edge_ok=lambda e: e.kind != 'async')
    for ex in g.exits():
        sh = sf.at(ex, slot)
        if sh is None:
            continue
        ok = sh <= {PAIR, WIRE}
        ctx.check('R3', f'{fr.short}: at {ex.describe()} the outcome slot holds a pair (shapes {sorted(sh)})', ok, fr.short,
                  f'slot-shape-at-{"raise:" + ex.label if ex.kind == "raise" else "return"}:' + ','.join(sorted(sh)),
                  f'the frontend thread can leave {fr.short} ({ex.describe()}) with the outcome slot still None: the worker is dead with has_error None',
                  where=loc(fr, fr.node), path=path_str(g.find_path([g.entry], lambda n: n is ex, edge_ok=lambda e: e.kind != 'async') or []))
    # the frontend function: after the start-up signal, every exit goes through _fetch_results (or stores a pair)
    ff = lc.frontend
    k2 = ('frontend', ff.qualname)
    if k2 in seen:
        return
    seen.add(k2)
    gg = ctx.an.cfg(ff, cls)
    fetch_ids = {n.id for n in gg.nodes if n.stmt is not None and n.part == 'eval' and any(last_attr(c) == '_fetch_results' for c in n.calls())}
    store_ids = {n.id for n in gg.nodes if n.stmt is not None and n.part in (None, 'store') and isinstance(n.stmt, ast.Assign)
                 and any(is_self_attr(t, lc.slot) for t in n.stmt.targets) and isinstance(n.stmt.value, ast.Tuple)}
    exits = {n.id for n in gg.exits()}
    p = gg.find_path([gg.entry], lambda n: n.id in exits, edge_ok=lambda e: e.kind != 'async', node_ok=lambda n: n.id not in fetch_ids | store_ids)
    ctx.check('R3', f'{ff.short}: every exit of the frontend thread fetched the results or stored an outcome', p is None, ff.short,
              'frontend-exit-without-outcome', f'the frontend thread {ff.short} can end without fetching results and without storing an outcome',
              where=loc(ff, ff.node), path=path_str(p or []))


def check_writers(ctx, cls, lc, seen):
    slot = lc.slot
    allowed = {lc.get_result.qualname, lc.main.qualname if lc.kind == 'thread' else None}
    if lc.kind == 'remote':
        allowed |= {lc.frontend.qualname, cls.resolve('_fetch_results')[1].qualname}
    for c in cls.mro():
        if isinstance(c, str):
            continue
        for f in c.methods.values():
            for st in walk_local(f.node):
                tg = []
                if isinstance(st, ast.Assign):
                    for t in st.targets:
                        tg += t.elts if isinstance(t, ast.Tuple) else [t]
                elif isinstance(st, ast.AugAssign):
                    tg = [st.target]
                if any(is_self_attr(t, slot) for t in tg):
                    k = ('writer', f.qualname, st.lineno)
                    if k in seen:
                        continue
                    seen.add(k)
                    ok = f.qualname in allowed or f.name in ('__init__', '_start')
                    ctx.check('R5', f'{f.short}: store to the outcome slot at line {st.lineno} is made by a recording function', ok, f.short,
                              f'foreign-outcome-store:{f.name}',
                              f'{f.short} overwrites the outcome slot `{slot}`: an outcome observed once can change afterwards', where=loc(f, st))
                    if f.qualname == lc.get_result.qualname and lc.kind == 'process':
                        # must be under `if self.<slot> is None`
                        pm = parent_map(f.node)
                        cur, guarded = st, False
                        while cur in pm:
                            cur = pm[cur]
                            if isinstance(cur, ast.If) and norm(cur.test) == f'self.{slot} is None':
                                guarded = True
                        ctx.check('R5', f'{f.short}: store at line {st.lineno} is guarded by `self.{slot} is None`', guarded, f.short,
                                  'unguarded-refetch', f'{f.short} re-reads the pipe although an outcome is already recorded: the outcome can change on a later call',
                                  where=loc(f, st))
                # _dead may only be reset to False at start-up
                if isinstance(st, ast.Assign) and any(is_self_attr(t, '_dead') for t in st.targets) and isinstance(st.value, ast.Constant) and st.value.value is False:
                    k = ('dead', f.qualname, st.lineno)
                    if k in seen:
                        continue
                    seen.add(k)
                    ctx.check('R5', f'{f.short}: `_dead = False` only at start-up', f.name in ('_start', '__setstate__', '__init__'), f.short,
                              f'dead-flag-reset:{f.name}', f'{f.short} resets the dead cache: a worker observed dead can become alive again', where=loc(f, st))


def run_thorough(ctx):
    """bytecode tier (DESIGN E4): the AST-level CFG's landing statements and handler routing agree with CPython's exception tables"""
    from ..bytecode import cross_check_all
    st = cross_check_all(ctx)
    ctx.stats['bytecode_tier'] = st
    ctx.ob('E4', f"bytecode tier: {st['landing_instructions']} CALL-type landing instructions of {st['functions_cross_checked']} functions "
                 f"({st['instructions']} instructions) are routed to the same handler as the async edges of the AST tier", True)
