"""C07 - Pool.run yields exactly one result per input under every schedule and death."""
import ast

from ..astutil import (canon, canon_ast, edge_fact, edge_facts, split_if, facts_at, AnalysisError, dotted, calls_in, last_attr, receiver, norm, is_name, walk_local, is_self_attr,
                       loc, short, parent_map, names_in)
from ..cfg import is_flow, path_str

EXPLANATION = (
    'Static decision of the bookkeeping invariants of Pool.run and its closures (the schedule space itself is not explored). '
    'R1 input conservation: in try_enqueue every path that took an input reaches exactly one of handle_enqueue (pending list '
    'of that worker) or handle_unused_data (retry list / dropped) before returning; on death every pending input is moved to '
    'the retry list before the list is cleared. R2 paired updates: the global pending counter and the per-worker lists change '
    'together (+1/append, -1/pop(0), -len/clear) in one block with no user callback between them; the consumed element is '
    'index 0. R3 closed-worker discipline: handle_death marks the worker closed, empties its list and lowers the counter on '
    'every path; every consuming access and every enqueue is dominated by a not-closed test. R4: results are appended at one '
    'site, once per flag-true message. R5: the verdict is depleted and not pending and not retries; the loop condition keeps '
    'both conjuncts; the map guard is reset in a finally. R6: the handler around the multiplexed read covers EOFError and '
    'OSError and synthesises the closing message.')
TECHNIQUE = 'linear-resource / dominance / paired-update analysis of the Pool.run closures on their CFGs'


class Closures(dict):
    """the closures of Pool.run keyed by the role they play (found structurally, not by name); closures without a
    role keep their own name as key.  .n(role) is the name the source uses for that role."""

    def n(self, role):
        return self[role].name

    def role_of(self, name):
        for k, f in self.items():
            if f.name == name:
                return k
        return name


def _calls_on(func, meth, recv_prefix):
    return [c for c in calls_in(func.node) if last_attr(c) == meth and isinstance(c.func, ast.Attribute) and norm(c.func.value).startswith(recv_prefix)]


def closure_roles(ctx, run):
    """role -> closure of Pool.run.  Each role is recognised by the bookkeeping effect that defines it."""
    nested = dict(run.nested)
    roles = {}

    def pick(role, cands, why):
        cands = [f for f in cands if f.name not in {x.name for x in roles.values()}]
        ctx.require(len(cands) >= 1, f'Pool.run: no closure plays the role `{role}` ({why}) - death handling / enqueue logic restructured beyond recognition')
        # a unique effect identifies the role; if an edit spreads the effect over several closures keep the one that still carries the canonical name, else the first
        best = [f for f in cands if f.name == role] or cands
        roles[role] = best[0]

    fs = list(nested.values())
    pick('handle_death', [f for f in fs if _calls_on(f, 'add', 'self._closed')] or [f for f in fs if _calls_on(f, 'clear', 'self._pending_per_worker')], 'marks a worker closed')
    pick('handle_enqueue', [f for f in fs if any(isinstance(st, ast.AugAssign) and is_self_attr(st.target, '_pending') and isinstance(st.op, ast.Add) for st in walk_local(f.node))]
         or [f for f in fs if _calls_on(f, 'append', 'self._pending_per_worker')], 'counts an enqueued input')
    pick('handle_new_result', [f for f in fs if _calls_on(f, 'pop', 'self._pending_per_worker')]
         or [f for f in fs if any(isinstance(st, ast.AugAssign) and is_self_attr(st.target, '_pending') and isinstance(st.op, ast.Sub) for st in walk_local(f.node))], 'consumes a pending input')
    pick('handle_unused_data', [f for f in fs if _calls_on(f, 'insert', 'self._retries') or _calls_on(f, 'append', 'self._retries')], 'puts an input back on the retry list')
    enq_param = 'enqueue_fn' if 'enqueue_fn' in run.params else None
    pick('try_enqueue', [f for f in fs if any((last_attr(c) == 'enqueue' and f.params and receiver(c) == f.params[0]) or (enq_param and isinstance(c.func, ast.Name) and c.func.id == enq_param)
                                              for c in calls_in(f.node))], 'hands an input to a worker')
    te = roles['try_enqueue']
    srcs = [st.value.func.id for st in walk_local(te.node) if isinstance(st, ast.Assign) and isinstance(st.value, ast.Call) and isinstance(st.value.func, ast.Name)
            and st.value.func.id in nested and isinstance(st.targets[0], ast.Tuple) and len(st.targets[0].elts) == 3]
    pick('next_inputs', [nested[x] for x in srcs] or [f for f in fs if _calls_on(f, 'pop', 'self._retries')], 'supplies the next input')
    ten = te.name
    pick('first_enqueue', [f for f in fs if not f.params and any(isinstance(c.func, ast.Name) and c.func.id == ten for c in calls_in(f.node))], 'initial distribution')
    hd = roles['handle_death']
    idle = [st.value.func.id for st in walk_local(hd.node) if isinstance(st, ast.Assign) and isinstance(st.value, ast.Call) and isinstance(st.value.func, ast.Name) and st.value.func.id in nested
            and not st.value.args]
    cands = [nested[x] for x in idle if nested[x].name not in {y.name for y in roles.values()}]
    if cands:
        roles['get_next_idle_worker'] = cands[0]
    cl = Closures()
    taken = {f.name for f in roles.values()}
    for k, f in roles.items():
        cl[k] = f
    for nm, f in nested.items():
        if nm not in taken:
            cl[nm] = f
    return cl


def pool_parts(ctx):
    P = ctx.prog
    pool = P.cls('Pool')
    run = pool.methods.get('run')
    ctx.require(run is not None, 'Pool.run not found')
    cl = closure_roles(ctx, run)
    ctx.used(run, *cl.values())
    ctx.note('closures of Pool.run by role: ' + ', '.join(f'{k}={f.name}' for k, f in cl.items()))
    return pool, run, cl


def pool_names(run_f, cl):
    """local names of Pool.run found by role"""
    names = {}
    te = cl['try_enqueue']
    for st in walk_local(te.node):
        if isinstance(st, ast.Assign) and isinstance(st.value, ast.Call) and isinstance(st.value.func, ast.Name) and st.value.func.id == cl.n('next_inputs') \
                and isinstance(st.targets[0], ast.Tuple) and len(st.targets[0].elts) == 3:
            names['has_data'], names['from_retries'], names['inp'] = [e.id for e in st.targets[0].elts]
    # verdict: `if not X: raise PoolError`
    for st in walk_local(run_f.node):
        if isinstance(st, ast.If) and any(isinstance(x, ast.Raise) and x.exc is not None and 'PoolError' in norm(x.exc) for x in st.body):
            for t in ast.walk(st.test):
                if isinstance(t, ast.UnaryOp) and isinstance(t.op, ast.Not) and isinstance(t.operand, ast.Name) and any(
                        isinstance(a, ast.Assign) and is_name(a.targets[0], t.operand.id) and isinstance(a.value, ast.BoolOp) for a in walk_local(run_f.node)):
                    names.setdefault('ok', t.operand.id)
    # result list: the list handle_new_result appends the received result to (fallback: the name returned at the end)
    hr = cl['handle_new_result']
    for c in calls_in(hr.node):
        if last_attr(c) == 'append' and isinstance(c.func.value, ast.Name) and c.args and is_name(c.args[0], hr.params[1] if len(hr.params) > 1 else ''):
            names['ret'] = c.func.value.id
    for st in ([] if 'ret' in names else run_f.node.body[::-1]):
        rets = [x for x in ast.walk(st) if isinstance(x, ast.Return) and isinstance(x.value, ast.Name)]
        if rets:
            names['ret'] = rets[-1].value.id
            break
    # message unpack in the event loop
    for st in walk_local(run_f.node):
        if isinstance(st, ast.Assign) and isinstance(st.targets[0], ast.Tuple) and len(st.targets[0].elts) == 4 and isinstance(st.value, ast.Name) and all(isinstance(e, ast.Name) for e in st.targets[0].elts):
            names['msg'] = st.value.id
            names['flag'] = st.targets[0].elts[1].id
            names['wid'] = st.targets[0].elts[3].id
    return names


def call_nodes(g, name, part='eval'):
    return [n for n in g.nodes if n.stmt is not None and n.part == part and any(
        (isinstance(c.func, ast.Name) and c.func.id == name) or last_attr(c) == name for c in calls_in(n.stmt if not isinstance(n.stmt, (ast.If, ast.While)) else n.stmt.test))]


def same_block_adjacent(func, a, b, user_names=('worker_callback', 'enqueue_fn')):
    """statements a and b are in the same statement list and nothing between them calls user code"""
    for n in ast.walk(func.node):
        for field in ('body', 'orelse', 'finalbody'):
            lst = getattr(n, field, None)
            if isinstance(lst, list) and a in lst and b in lst:
                i, j = sorted((lst.index(a), lst.index(b)))
                between = lst[i + 1:j]
                for st in between:
                    if any(isinstance(c.func, ast.Name) and c.func.id in user_names for c in calls_in(st)) or \
                            isinstance(st, (ast.If, ast.While, ast.For, ast.Try, ast.Return, ast.Raise)):
                        return False
                return True
    return False


def run(ctx):
    pool, run_f, cl = pool_parts(ctx)
    te, hd, hu, he, hr = cl['try_enqueue'], cl['handle_death'], cl['handle_unused_data'], cl['handle_enqueue'], cl['handle_new_result']
    N = pool_names(run_f, cl)
    for k in ('has_data', 'inp', 'ok', 'ret', 'flag'):
        ctx.require(k in N, f'Pool.run: the local playing the role `{k}` was not found')

    # ---------------------------------------------------------------- R1 input conservation in try_enqueue
    g = ctx.an.cfg(te, pool)
    enq = call_nodes(g, cl.n('handle_enqueue'), 'post')
    unused = call_nodes(g, cl.n('handle_unused_data'), 'post')
    has_tests = [n for n in g.nodes if n.kind == 'test' and isinstance(n.stmt, ast.If) and canon(n.stmt.test)[0] == N['has_data']]
    ctx.require(has_tests, 'try_enqueue: the test on the has-data flag was not found')
    starts = [e.dst for n in has_tests for e in n.succ if edge_fact(e) == (N['has_data'], True)]
    sink = {n.id for n in enq + unused}
    # has_data is assigned once, before the loop: on these paths it stays true
    hid = {n.id for n in has_tests}
    consistent = lambda e: is_flow(e) and not (e.src.id in hid and edge_fact(e) == (N['has_data'], False))
    p = g.find_path(starts, lambda n: n is g.exit, edge_ok=consistent, node_ok=lambda n: n.id not in sink)
    ctx.check('R1', 'try_enqueue: an input that was taken is handed to handle_enqueue or handle_unused_data on every returning path', p is None and bool(sink),
              'Pool.run.<try_enqueue>', 'input-lost', 'try_enqueue can return after taking an input from the source without recording it as pending nor as unused: the input is lost',
              where=loc(te, te.node), path=path_str(p or []))
    for a, b, what in ((enq, unused, 'pending and then unused'), (unused, enq, 'unused and then pending')):
        bid = {n.id for n in b}
        p = g.find_path(a, lambda n: n.id in bid, edge_ok=is_flow)
        ctx.check('R1', f'try_enqueue: no input is recorded as {what}', p is None, 'Pool.run.<try_enqueue>', 'input-duplicated',
                  f'one input can be recorded as {what}: it is processed twice', where=loc(te, te.node), path=path_str(p or []))
    # the value handed over is the input that was taken
    inp_var = None
    for st in walk_local(te.node):
        if isinstance(st, ast.Assign) and isinstance(st.value, ast.Call) and isinstance(st.value.func, ast.Name) and st.value.func.id == cl.n('next_inputs') \
                and isinstance(st.targets[0], ast.Tuple) and len(st.targets[0].elts) == 3:
            inp_var = st.targets[0].elts[2].id
            in_loop = any(isinstance(l, (ast.While, ast.For)) and any(x is st for x in ast.walk(l)) for l in walk_local(te.node))
            ctx.check('R1', 'try_enqueue: exactly one input is taken per call (not inside the retry loop)', not in_loop, 'Pool.run.<try_enqueue>', 'input-taken-in-loop',
                      'next_inputs() is called inside the retry loop: inputs taken on earlier iterations are dropped', where=loc(te, st))
    ctx.require(inp_var is not None, 'try_enqueue: next_inputs() unpacking not found')
    for c in calls_in(te.node):
        if isinstance(c.func, ast.Name) and c.func.id in (cl.n('handle_enqueue'), cl.n('handle_unused_data')):
            role = cl.role_of(c.func.id)
            arg = c.args[1] if role == 'handle_enqueue' else c.args[0]
            ctx.check('R1', f'try_enqueue: {role} is given the input that was taken', is_name(arg, inp_var), 'Pool.run.<try_enqueue>',
                      f'{role}-arg:{norm(arg)}', f'{role} is given `{norm(arg)}` instead of the input taken from the source', where=loc(te, c))
    # handle_unused_data: retry on -> into _retries (front if it came from there, else back)
    ins = [c for c in calls_in(hu.node) if last_attr(c) in ('insert', 'append') and receiver(c) == 'self._retries']
    ok = len(ins) >= 1 and all((c.args[-1] if c.args else None) is not None and is_name(c.args[-1], hu.params[0]) for c in ins)
    ctx.check('R1', 'handle_unused_data: with retry enabled the input goes to the retry list', ok, 'Pool.run.<handle_unused_data>', 'unused-not-retried',
              'an input that could not be enqueued is not put on the retry list', where=loc(hu, hu.node))
    gu = ctx.an.cfg(hu, pool)
    ins_post = {n.id for n in gu.nodes if n.stmt is not None and n.part == 'post' and any(c in ins for c in n.calls())}
    rt = [n for n in gu.nodes if n.kind == 'test' and canon(n.stmt.test)[0] == 'self._retry']
    if rt:
        st2 = [e.dst for n in rt for e in n.succ if edge_fact(e) == ('self._retry', True)]
        p = gu.find_path(st2, lambda n: n is gu.exit, edge_ok=is_flow, node_ok=lambda n: n.id not in ins_post)
        ctx.check('R1', 'handle_unused_data: every retry-enabled path stores the input', p is None, 'Pool.run.<handle_unused_data>', 'unused-path-drops-input',
                  'with retry enabled a path of handle_unused_data drops the input', where=loc(hu, hu.node), path=path_str(p or []))
    # death: pending inputs -> retries before clear
    gd = ctx.an.cfg(hd, pool)
    ext = [n for n in gd.nodes if n.stmt is not None and n.part == 'post' and any(last_attr(c) == 'extend' and receiver(c) == 'self._retries' and
                                                                                   'self._pending_per_worker' in norm(c.args[0]) for c in n.calls())]
    clr = [n for n in gd.nodes if n.stmt is not None and n.part == 'eval' and any(last_attr(c) == 'clear' and 'self._pending_per_worker' in (norm(c.func.value)) for c in n.calls())]
    rtest = [n for n in gd.nodes if n.kind == 'test' and canon(n.stmt.test)[0] == 'self._retry']
    ok = bool(ext) and bool(clr) and bool(rtest)
    if ok:
        st3 = [e.dst for n in rtest for e in n.succ if edge_fact(e) == ('self._retry', True)]
        eid = {n.id for n in ext}
        p = gd.find_path(st3, lambda n: n in clr, edge_ok=is_flow, node_ok=lambda n: n.id not in eid)
        dom = gd.dominators(edge_ok=is_flow)
        tid = {n.id for n in rtest}
        ok = p is None and all(dom.get(c.id, set()) & tid for c in clr)
    ctx.check('R1', 'handle_death: with retry enabled the pending inputs of the dead worker are moved to the retry list before the list is cleared', ok,
              'Pool.run.<handle_death>', 'pending-lost-on-death', 'the inputs a dead worker had not answered are cleared without being scheduled for a retry: '
              'Pool.run returns normally with results missing', where=loc(hd, hd.node))

    # ---------------------------------------------------------------- R2 paired updates
    def aug(func, op, attr='_pending'):
        return [st for st in walk_local(func.node) if isinstance(st, ast.AugAssign) and is_self_attr(st.target, attr) and isinstance(st.op, op)]

    def list_ops(func, name):
        return [st for st in walk_local(func.node) if isinstance(st, ast.Expr) and isinstance(st.value, ast.Call) and last_attr(st.value) == name
                and 'self._pending_per_worker' in norm(st.value.func)]
    pairs = [(he, ast.Add, 'append', 'handle_enqueue'), (hr, ast.Sub, 'pop', 'handle_new_result'), (hd, ast.Sub, 'clear', 'handle_death')]
    for func, op, lop, nm in pairs:
        a, b = aug(func, op), list_ops(func, lop)
        ok = len(a) == 1 and len(b) == 1
        ctx.check('R2', f'{nm}: one counter update and one `{lop}` of the per-worker list', ok, f'Pool.run.<{nm}>', f'unpaired:{len(a)}x_pending,{len(b)}x{lop}',
                  f'{nm} updates the global pending counter {len(a)} times and the per-worker list ({lop}) {len(b)} times: the two views of what is pending diverge',
                  where=loc(func, func.node))
        if not ok:
            continue
        ctx.check('R2', f'{nm}: counter and list change together (same block, no user callback between)', same_block_adjacent(func, a[0], b[0]), f'Pool.run.<{nm}>',
                  'paired-update-split', f'in {nm} the counter and the per-worker list are not updated together: an exception of a user callback between them leaves them inconsistent',
                  where=loc(func, a[0]))
        step = a[0].value
        if lop in ('append', 'pop'):
            ctx.check('R2', f'{nm}: the counter moves by one', isinstance(step, ast.Constant) and step.value == 1, f'Pool.run.<{nm}>', f'counter-step:{norm(step)}',
                      f'{nm} moves the pending counter by {norm(step)}', where=loc(func, a[0]))
        else:
            ok2 = isinstance(step, ast.Call) and is_name(step.func, 'len') and 'self._pending_per_worker' in norm(step.args[0]) and a[0].lineno < b[0].lineno
            ctx.check('R2', f'{nm}: the counter is lowered by len(list) before the list is cleared', ok2, f'Pool.run.<{nm}>', f'counter-step:{norm(step)}',
                      f'{nm} does not lower the pending counter by the number of inputs it removes (`{norm(step)}`)', where=loc(func, a[0]))
        if lop == 'pop':
            c = b[0].value
            ctx.check('R2', 'handle_new_result consumes the oldest pending input (index 0)', len(c.args) == 1 and isinstance(c.args[0], ast.Constant) and c.args[0].value == 0,
                      'Pool.run.<handle_new_result>', f'pop-index:{norm(c.args[0]) if c.args else "last"}',
                      'workers answer in enqueue order; consuming another index pairs a result with the wrong input and corrupts what is retried after a death', where=loc(func, c))
        # same key on both sides
        if lop == 'append':
            c = b[0].value
            ctx.check('R2', 'handle_enqueue appends the enqueued input to the list of that worker', c.args and is_name(c.args[0], he.params[1]) and f'{he.params[0]}.id' in norm(c.func),
                      'Pool.run.<handle_enqueue>', f'append-arg:{norm(c)}', f'`{norm(c)}` does not record the enqueued input under the worker it went to', where=loc(func, c))

    # ---------------------------------------------------------------- R3 closed-worker discipline
    adds = {n.id for n in gd.nodes if n.stmt is not None and n.part == 'post' and any(last_attr(c) == 'add' and receiver(c) == 'self._closed' and norm(c.args[0]).endswith('.id') for c in n.calls())}
    clr_post = {n.id for n in gd.nodes if n.stmt is not None and n.part == 'post' and any(last_attr(c) == 'clear' and 'self._pending_per_worker' in norm(c.func.value) for c in n.calls())}
    dec = {n.id for n in gd.nodes if n.stmt is not None and isinstance(n.stmt, ast.AugAssign) and is_self_attr(n.stmt.target, '_pending') and n.part in (None, 'store')}
    for ids, what, key in ((adds, 'marks the worker closed', 'death-not-marked-closed'), (clr_post, 'empties its pending list', 'death-keeps-pending'),
                           (dec, 'lowers the pending counter', 'death-keeps-counter')):
        ctx.require(True, '')
        p = gd.find_path([gd.entry], lambda n: n is gd.exit, edge_ok=is_flow, node_ok=lambda n: n.id not in ids) if ids else [None]
        ctx.check('R3', f'handle_death {what} on every path', bool(ids) and p is None, 'Pool.run.<handle_death>', key,
                  f'handle_death does not {what.replace("marks", "mark").replace("empties", "empty").replace("lowers", "lower")} on every path: '
                  + {'death-not-marked-closed': 'the loop can never see "no live worker" and a dead worker is handed work again',
                     'death-keeps-pending': 'inputs of a dead worker stay pending forever (Pool.run never ends) or are retried twice',
                     'death-keeps-counter': 'the pending counter never reaches zero: Pool.run blocks forever'}[key], where=loc(hd, hd.node))
    # consuming access / enqueue dominated by a not-closed test
    gr = ctx.an.cfg(run_f, pool)
    hnr_calls = call_nodes(gr, cl.n('handle_new_result'))
    ok = bool(hnr_calls) and all(dominated_by_not_closed(gr, n) for n in hnr_calls)
    ctx.check('R3', 'event loop: handle_new_result (which pops the worker\'s pending list) is only called for a worker that is not closed', ok, 'Pool.run',
              'result-of-closed-worker-consumed', 'a result read from a worker whose death has already been handled (its pending list was cleared) is fed to handle_new_result: '
              'pop(0) on the empty list raises IndexError out of Pool.run', where=loc(run_f, hnr_calls[0].stmt) if hnr_calls else loc(run_f, run_f.node))
    hd_calls = call_nodes(gr, cl.n('handle_death'))
    ok = bool(hd_calls) and all(dominated_by_not_closed(gr, n) for n in hd_calls)
    ctx.check('R3', 'event loop: handle_death is only called once per worker (guarded by not closed)', ok, 'Pool.run', 'death-handled-twice',
              'the end marker of a worker whose death was already handled while enqueueing triggers handle_death again', where=loc(run_f, hd_calls[0].stmt) if hd_calls else None)
    enq_sites = [n for n in g.nodes if n.stmt is not None and n.part == 'eval' and any(
        (last_attr(c) == 'enqueue' and receiver(c) == (te.params[0] if te.params else 'worker')) or (isinstance(c.func, ast.Name) and c.func.id == 'enqueue_fn')
        for c in calls_in(n.stmt if not isinstance(n.stmt, ast.If) else n.stmt.test))]
    ok = bool(enq_sites) and all(dominated_by_not_closed(g, n) for n in enq_sites)
    ctx.check('R3', 'try_enqueue: nothing is enqueued to a worker that is closed', ok, 'Pool.run.<try_enqueue>', 'enqueue-to-closed-worker',
              'try_enqueue can hand work to a worker already marked dead/closed', where=loc(te, te.node))
    ctx.floor('enqueue sites in try_enqueue', len(enq_sites), 2)

    # ---------------------------------------------------------------- R4 single append site
    check_single_append(ctx, run_f, cl, N, 'R4')
    # once per flag-true message: the call of handle_new_result sits on the flag-true side
    flag_tests = [n for n in gr.nodes if n.kind == 'test' and isinstance(n.stmt, ast.If) and canon(n.stmt.test)[0] == N['flag']]
    ok = bool(flag_tests)
    if ok:
        dst = {e.dst.id for n in flag_tests for e in n.succ if edge_fact(e) == (N['flag'], True)}
        dom = gr.dominators(edge_ok=is_flow)
        ok = all(dom.get(n.id, set()) & dst for n in hnr_calls)
    ctx.check('R4', 'handle_new_result is called only for flag-true messages', ok, 'Pool.run', 'result-from-end-marker',
              'an end-of-stream message can be appended as a result', where=loc(run_f, run_f.node))

    check_frame(ctx, pool, cl)
    from .c09 import check_reinit
    check_reinit(ctx, pool, 'R5')
    check_enqueue_callers(ctx, pool, run_f, cl)
    check_redistribution(ctx, cl, 'R1')
    check_redistribution_progress(ctx, cl, 'R1')
    check_enqueue_verdict(ctx, pool, cl, N, 'R1')

    # ---------------------------------------------------------------- R5 verdict, loop condition, guard reset
    oks = [st for st in walk_local(run_f.node) if isinstance(st, ast.Assign) and is_name(st.targets[0], N['ok'])]
    conj = set()
    if oks and isinstance(oks[0].value, ast.BoolOp) and isinstance(oks[0].value.op, ast.And):
        conj = {norm(v) for v in oks[0].value.values}
    want = {'self._depleted', 'not self._pending', 'not self._retries'}
    ctx.check('R5', 'verdict: ok = depleted and not pending and not retries', conj == want, 'Pool.run', 'verdict:' + ' and '.join(sorted(conj)),
              f'the verdict of Pool.run is `{" and ".join(sorted(conj))}`: it can report success although {sorted(want - conj)} does not hold - results are missing from a normal return',
              where=loc(run_f, oks[0]) if oks else None)
    loops = [n for n in walk_local(run_f.node) if isinstance(n, ast.While) and any(last_attr(c) == 'wait' for c in calls_in(n))]
    ctx.require(loops, 'Pool.run: event loop not found')
    lc = loops[0].test
    parts = [norm(v) for v in (lc.values if isinstance(lc, ast.BoolOp) and isinstance(lc.op, ast.And) else [lc])]
    vals = lc.values if isinstance(lc, ast.BoolOp) and isinstance(lc.op, ast.And) else [lc]
    ok = any(p == 'self._pending' for p in parts) and any(denotes_live_workers(ctx, pool, v) for v in vals)
    ctx.check('R5', 'event loop runs while results are pending and a worker is left', ok, 'Pool.run', 'loop-condition:' + ' and '.join(parts),
              'the event loop condition lost a conjunct: it either stops with results pending or waits forever on dead workers', where=loc(run_f, loops[0]))
    fin = [t for t in walk_local(run_f.node) if isinstance(t, ast.Try) and any(isinstance(s, ast.Assign) and any(is_self_attr(x, '_map_guard') for x in s.targets)
                                                                              and isinstance(s.value, ast.Constant) and s.value.value is False for s in t.finalbody)]
    sets = [st for st in walk_local(run_f.node) if isinstance(st, ast.Assign) and any(is_self_attr(x, '_map_guard') for x in st.targets) and isinstance(st.value, ast.Constant) and st.value.value is True]
    ok = bool(fin) and all(any(s is x for x in ast.walk(fin[0])) for s in sets)
    ctx.check('R5', 'the map guard is reset in a finally that covers the whole run', ok, 'Pool.run', 'map-guard-not-reset',
              'an exception inside Pool.run leaves the map guard set: close()/__exit__ is refused afterwards', where=loc(run_f, run_f.node))

    # ---------------------------------------------------------------- R6 read coverage
    recv_try = None
    for t in walk_local(run_f.node):
        if isinstance(t, ast.Try) and any(last_attr(c) == 'recv' for st in t.body for c in calls_in(st)):
            recv_try = t
    ctx.check('R6', 'the multiplexed read is inside a try', recv_try is not None, 'Pool.run', 'recv-unguarded', 'conn.recv() in the event loop is not guarded', where=loc(run_f, run_f.node))
    if recv_try is not None:
        types = [t for h in recv_try.handlers for t in ctx.an.handler_types(h, run_f)]
        lat = ctx.an.lattice
        for need in ('EOFError', 'OSError'):
            cov = any(lat.is_sub(need, t) for t in types)
            ctx.check('R6', f'the read handler covers {need}', cov, 'Pool.run', f'recv-handler-misses:{need}',
                      f'{need} raised by conn.recv() (a worker killed {"mid-message" if need == "OSError" else "with nothing sent"}) escapes Pool.run as an internal error',
                      where=loc(run_f, recv_try))
        h = recv_try.handlers[0] if recv_try.handlers else None
        synth = h is not None and any(isinstance(st, ast.Assign) and isinstance(st.value, ast.Tuple) and len(st.value.elts) == 4 and isinstance(st.value.elts[1], ast.Constant)
                                      and st.value.elts[1].value is False for st in ast.walk(h))
        ctx.check('R6', 'EOF is turned into an artificial closing message', synth, 'Pool.run', 'no-artificial-closing-message',
                  'a bare EOF of a result pipe is not turned into a closing message: the death of that worker is never handled', where=loc(run_f, recv_try))


def check_enqueue_verdict(ctx, pool, cl, N, rule):
    """try_enqueue tells its caller whether the sources still had data: first_enqueue stops priming the other workers on a false answer.  So False is
    returned only where no input was available (the has-data flag is false), and every return on the has-data side is True - a death found while
    enqueueing is not the end of the input."""
    te = cl['try_enqueue']
    g = ctx.an.cfg(te, pool)
    dom = g.dominators(edge_ok=is_flow)
    has_true = {e.dst.id for n in g.nodes if n.kind == 'test' for e in n.succ if edge_fact(e) == (N['has_data'], True)}
    has_false = {e.dst.id for n in g.nodes if n.kind == 'test' for e in n.succ if edge_fact(e) == (N['has_data'], False)}
    n = 0
    for r in g.nodes:
        if r.kind != 'return' or r.part not in (None, 'eval'):
            continue
        v = r.stmt.value
        d = dom.get(r.id, set())
        n += 1
        if d & has_true:
            ok = isinstance(v, ast.Constant) and v.value is True
            ctx.check(rule, f'try_enqueue: the return at line {r.line} (an input was available) answers True', ok, 'Pool.run.<try_enqueue>', f'enqueue-verdict:has-data->{norm(v)}',
                      f'try_enqueue returns `{norm(v)}` on a path where an input had been taken: first_enqueue reads it as "the sources are depleted" and stops handing work to the other '
                      'workers - with nothing pending the run ends at once in PoolError("all workers have died") although live workers were never given anything', where=loc(te, r.stmt))
        elif d & has_false:
            ok = isinstance(v, ast.Constant) and v.value is False
            ctx.check(rule, f'try_enqueue: the return at line {r.line} (no input left) answers False', ok, 'Pool.run.<try_enqueue>', f'enqueue-verdict:no-data->{norm(v)}',
                      f'try_enqueue returns `{norm(v)}` although the sources had nothing left: first_enqueue keeps priming with no data', where=loc(te, r.stmt))
    ctx.floor('returns of try_enqueue', n, 4)
    # the consumer: first_enqueue stops on a false answer
    fe = cl['first_enqueue']
    uses = [st for st in walk_local(fe.node) if isinstance(st, ast.Assign) and isinstance(st.value, ast.Call) and isinstance(st.value.func, ast.Name) and st.value.func.id == cl.n('try_enqueue')]
    ctx.ob(rule, f'first_enqueue reads the verdict of try_enqueue ({len(uses)} site)', bool(uses))


def check_redistribution(ctx, cl, rule):
    """handle_death keeps offering retried inputs to idle workers for as long as there are any: the loop re-evaluates the retry list"""
    hd = cl['handle_death']
    loops = [n for n in walk_local(hd.node) if isinstance(n, (ast.While, ast.For)) and any(isinstance(c.func, ast.Name) and c.func.id == cl.n('try_enqueue') for c in calls_in(n))]
    ok = len(loops) == 1 and isinstance(loops[0], ast.While) and norm(loops[0].test) == 'self._retries'
    ctx.check(rule, 'handle_death redistributes while the retry list is non-empty (re-evaluated on every iteration)', ok, 'Pool.run.<handle_death>',
              'redistribution-loop:' + (norm(loops[0].test if isinstance(loops[0], ast.While) else loops[0].iter) if loops else 'none'),
              'the redistribution loop of handle_death is not `while self._retries`: an input that goes back to the retry list while the loop is running (a nested death while '
              're-enqueueing puts its input back after the nested loop has finished) is stranded - the run drains to PoolError("all workers have died") although an idle live worker is left',
              where=loc(hd, loops[0]) if loops else loc(hd, hd.node))
    if ok:
        lp = loops[0]
        brk = [st for st in walk_local(lp) if isinstance(st, ast.Break)]
        pm = parent_map(hd.node)
        conds = []
        for b in brk:
            cur = b
            while cur in pm and cur is not lp:
                cur = pm[cur]
                if isinstance(cur, ast.If):
                    conds.append(norm(cur.test))
                    break
        idle_vars = [st.targets[0].id for st in walk_local(lp) if isinstance(st, ast.Assign) and isinstance(st.targets[0], ast.Name) and isinstance(st.value, ast.Call)
                     and isinstance(st.value.func, ast.Name) and 'get_next_idle_worker' in cl and st.value.func.id == cl.n('get_next_idle_worker')]
        # (a second early exit on "this offer made no progress" - a test of the result of try_enqueue or of the length of the retry list - is what a repair of
        # F36 would add; it is accepted)
        res_vars = {st.targets[0].id for st in walk_local(lp) if isinstance(st, ast.Assign) and isinstance(st.targets[0], ast.Name) and isinstance(st.value, ast.Call)
                    and isinstance(st.value.func, ast.Name) and st.value.func.id == cl.n('try_enqueue')}
        progress = lambda c: any(v in c.split() or f'not {v}' == c for v in res_vars) or 'len(self._retries)' in c
        ok2 = bool(idle_vars) and all(c == f'{idle_vars[0]} is None' or progress(c) for c in conds)
        ctx.check(rule, 'the redistribution loop only stops early when no idle live worker is left', ok2, 'Pool.run.<handle_death>', 'redistribution-early-exit:' + ';'.join(conds),
                  f'the redistribution loop can stop on {conds} while retried inputs and idle workers remain', where=loc(hd, lp))


def check_redistribution_progress(ctx, cl, rule):
    """The redistribution loop of handle_death terminates only if every iteration either shrinks the retry list or leaves the loop.  try_enqueue can come
    back without having enqueued anything - the user's enqueue function refused the pair, and handle_unused_data put the input back at the head of the
    list - so a loop that drops the answer of try_enqueue and re-evaluates `while self._retries` with the same idle worker never ends (F36)."""
    hd, te = cl['handle_death'], cl['try_enqueue']
    loops = [n for n in walk_local(hd.node) if isinstance(n, ast.While) and any(isinstance(c.func, ast.Name) and c.func.id == te.name for c in calls_in(n))]
    if not loops:
        return
    lp = loops[0]
    # does try_enqueue have a way back that re-inserts what it took? (the refusal path: enqueue_fn answered false -> handle_unused_data -> return)
    hu = cl['handle_unused_data'].name
    refusal = [st for st in walk_local(te.node) if isinstance(st, ast.If) and any(isinstance(c.func, ast.Name) and c.func.id == 'enqueue_fn' for c in calls_in(st.test))
               and any(isinstance(c.func, ast.Name) and c.func.id == hu for x in st.body + st.orelse for c in calls_in(x))]
    dropped = [st for st in walk_local(lp) if isinstance(st, ast.Expr) and isinstance(st.value, ast.Call) and isinstance(st.value.func, ast.Name) and st.value.func.id == te.name]
    ctx.check(rule, 'the redistribution loop of handle_death notices an offer that made no progress (a refused (worker, input) pair goes back to the head of the retry list)',
              not (refusal and dropped), 'Pool.run.<handle_death>', 'redistribution-ignores-a-refused-offer',
              'handle_death calls try_enqueue(idle) in `while self._retries` and drops its answer: when the user\'s enqueue function refuses the input at the head of the retry '
              'list for the only idle worker, the input goes back to the head, the loop finds the same worker and the same input again, and Pool.run never returns',
              where=loc(hd, dropped[0]) if dropped else loc(hd, lp))


def check_single_append(ctx, run_f, cl, N, rule):
    hr = cl['handle_new_result']
    apps = []
    for f in [run_f] + list(cl.values()):
        for c in calls_in(f.node):
            if last_attr(c) in ('append', 'extend', 'insert') and receiver(c) == N['ret']:
                apps.append((f, c))
        for st in walk_local(f.node):
            if isinstance(st, ast.AugAssign) and is_name(st.target, N['ret']):
                apps.append((f, st))
    ok = len(apps) == 1 and apps[0][0] is hr and isinstance(apps[0][1], ast.Call) and last_attr(apps[0][1]) == 'append' and is_name(apps[0][1].args[0], hr.params[1])
    where = loc(run_f, run_f.node)
    extra = [a for a in apps if a[0] is not hr]
    if extra:
        where = loc(extra[0][0], extra[0][1])
    ctx.check(rule, 'results are appended at exactly one site (handle_new_result, the received value)', ok, 'Pool.run', f'result-append-sites:{len(apps)}',
              f'{len(apps)} sites add to the result list (expected: one append of the received result in handle_new_result, which consumes the pending input it answers): '
              'a result can be kept for an input that is also retried - two results for one input in the return value / PoolError.partial_results', where=where)


def check_enqueue_callers(ctx, pool, run_f, cl, rule='R3'):
    """try_enqueue draws an input from the source *before* it looks at the closed set: every caller must know that the worker is not closed"""
    gi = cl.get('get_next_idle_worker')
    filters = gi is not None and any(last_attr(c) == 'difference' and c.args and norm(c.args[0]) == 'self._closed' for c in calls_in(gi.node))
    n = 0
    for f in [run_f] + list(cl.values()):
        calls = [c for c in calls_in(f.node) if isinstance(c.func, ast.Name) and c.func.id == cl.n('try_enqueue')]
        if not calls:
            continue
        g = ctx.an.cfg(f, pool)
        fshort = f.short if f is run_f else f'Pool.run.<{cl.role_of(f.name)}>'
        fname = cl.role_of(f.name)
        for c in calls:
            n += 1
            arg = c.args[0] if c.args else None
            nodes = [x for x in g.nodes if x.stmt is not None and x.part == 'eval' and any(y is c for y in x.calls())]
            ok = bool(nodes) and all(dominated_by_not_closed(g, x, var=arg.id if isinstance(arg, ast.Name) else None) for x in nodes)
            if not ok and isinstance(arg, ast.Name) and filters:
                # the worker came from get_next_idle_worker(), which filters the closed set
                defs = [st for st in walk_local(f.node) if isinstance(st, ast.Assign) and is_name(st.targets[0], arg.id)]
                ok = bool(defs) and all(isinstance(d.value, ast.Call) and isinstance(d.value.func, ast.Name) and d.value.func.id == cl.n('get_next_idle_worker') for d in defs)
            ctx.check(rule, f'{fshort}: try_enqueue({norm(arg)}) is only called for a worker known not to be closed', ok, fshort, f'try_enqueue-for-closed-worker@{fname}',
                      f'{fshort} calls try_enqueue() for a worker that may already be dead/closed; try_enqueue draws the next input from the source before it checks the closed set, so an '
                      'input is taken for a dead worker: with retry disabled it is silently dropped (Pool.run returns normally with results missing), and a per-worker source is called for a dead worker',
                      where=loc(f, c))
    ctx.floor('try_enqueue call sites', n, 3)


BOOKKEEPING = {
    # attribute -> {function name: allowed mutation kinds}; confirmed by reading pool.py - every other mutation site changes what "pending" means
    '_pending': {'run': {'assign'}, 'handle_enqueue': {'aug'}, 'handle_new_result': {'aug'}, 'handle_death': {'aug'}, '__init__': {'assign'}},
    '_pending_per_worker': {'run': {'assign'}, 'handle_enqueue': {'append'}, 'handle_new_result': {'pop'}, 'handle_death': {'clear'}, '__init__': {'assign'}},
    '_retries': {'run': {'assign'}, 'next_inputs': {'pop'}, 'handle_death': {'extend'}, 'handle_unused_data': {'insert', 'append'}, '__init__': {'assign'}},
    '_closed': {'handle_death': {'add'}, '__init__': {'assign'}},
    # the table of result pipes the event loop polls: an entry goes away only where its pipe has been read to the end (the EOF branch of the loop itself),
    # when the pool is closed, or when a worker is restarted / could not be added - never from a closure that runs while the loop walks a batch of ready pipes
    '_queues': {'run': {'del', 'pop'}, 'add_worker': {'setitem', 'pop'}, 'attach': {'setitem'}, 'restart_workers': {'setitem', 'pop'}, '_close': {'clear'}, '__init__': {'assign'}},
    '_depleted': {'run': {'assign'}, 'next_inputs': {'assign'}, '__init__': {'assign'}},
}
MUTATORS = ('append', 'extend', 'insert', 'pop', 'clear', 'add', 'remove', 'discard', 'update', 'popitem', 'setdefault', 'difference_update', 'intersection_update',
            'symmetric_difference_update', 'sort', 'reverse', 'appendleft', 'popleft', 'extendleft', 'rotate', 'move_to_end', '__setitem__', '__delitem__', '__ior__', '__iand__', '__isub__')


def denotes_live_workers(ctx, pool, e, depth=0):
    """`e`, tested for truth, says "a worker that has not been written off is left": the workers' ids minus the closed set as a *set* operation or an
    element-wise filter (possibly under len() / bool(), possibly behind a property or a method of the Pool that returns such an expression).
    Subtracting sizes - len(ids) - len(closed) - does not: ids of restarted workers stay in the closed set for ever."""
    while isinstance(e, ast.Call) and isinstance(e.func, ast.Name) and e.func.id in ('len', 'bool', 'list', 'set', 'tuple', 'sorted') and len(e.args) == 1 and not (
            e.func.id == 'set' and False):
        inner = e.args[0]
        if e.func.id == 'set' and not isinstance(inner, (ast.GeneratorExp, ast.ListComp, ast.SetComp, ast.Call, ast.BinOp)):
            break
        e = inner
    t = norm(e)
    if isinstance(e, ast.Call) and last_attr(e) == 'difference' and len(e.args) == 1 and norm(e.args[0]) == 'self._closed' and ('workers' in norm(e.func.value)):
        return True
    if isinstance(e, ast.BinOp) and isinstance(e.op, ast.Sub) and norm(e.right) in ('self._closed', 'set(self._closed)') and 'workers' in norm(e.left) and not norm(e.left).startswith('len('):
        return True
    if isinstance(e, (ast.GeneratorExp, ast.ListComp, ast.SetComp)) and len(e.generators) == 1 and 'workers' in norm(e.generators[0].iter):
        v = e.generators[0].target
        conds = [canon(c) for c in e.generators[0].ifs]
        if isinstance(v, ast.Name) and (f'{v.id} in self._closed', False) in conds:
            return True
    if isinstance(e, ast.Call) and isinstance(e.func, ast.Name) and e.func.id == 'any' and len(e.args) == 1 and isinstance(e.args[0], ast.GeneratorExp):
        ge = e.args[0]
        if len(ge.generators) == 1 and 'workers' in norm(ge.generators[0].iter) and isinstance(ge.generators[0].target, ast.Name):
            v = ge.generators[0].target.id
            if canon(ge.elt) == (f'{v} in self._closed', False) or (f'{v} in self._closed', False) in [canon(c) for c in ge.generators[0].ifs]:
                return True
    # a property / method of the pool that returns such an expression
    name = None
    if is_self_attr(e):
        name = e.attr
    elif isinstance(e, ast.Call) and is_self_attr(e.func) and not e.args and not e.keywords:
        name = e.func.attr
    if name and name in pool.methods and depth < 2:
        f = pool.methods[name]
        rets = [st for st in walk_local(f.node) if isinstance(st, ast.Return)]
        if len(rets) == 1 and rets[0].value is not None:
            ctx.used(f)
            return denotes_live_workers(ctx, pool, rets[0].value, depth + 1)
    return False


def check_frame(ctx, pool, cl, rule='R7'):
    n = 0
    # methods of Pool whose only call sites are top-level statements of Pool.run (before the closures are defined): part of run's prologue
    run_f = pool.methods['run']
    callers = {}
    for f in ctx.prog.funcs.values():
        for c in calls_in(f.node):
            if receiver(c) == 'self' and last_attr(c) in pool.methods:
                callers.setdefault(last_attr(c), set()).add(f.qualname)
    tries = [st for st in run_f.node.body if isinstance(st, ast.Try)]
    prologue = []
    for st in (tries[0].body if tries else run_f.node.body):
        if isinstance(st, ast.FunctionDef):
            break
        prologue.append(st)
    called_in_prologue = {last_attr(st.value) for st in prologue if isinstance(st, ast.Expr) and isinstance(st.value, ast.Call) and receiver(st.value) == 'self'}
    run_helpers = {m for m in called_in_prologue if callers.get(m) == {run_f.qualname}}
    for f in ctx.prog.funcs.values():
        owner = f.cls
        q = f.parent
        while owner is None and q is not None:
            owner = q.cls
            q = q.parent
        if owner is not pool:
            continue
        for node in walk_local(f.node):
            hits = []
            if isinstance(node, (ast.Assign, ast.AugAssign)):
                targets = node.targets if isinstance(node, ast.Assign) else [node.target]
                for t in targets:
                    for el in (t.elts if isinstance(t, ast.Tuple) else [t]):
                        base = el
                        sub = False
                        while isinstance(base, ast.Subscript):
                            base, sub = base.value, True
                        if is_self_attr(base) and base.attr in BOOKKEEPING:
                            hits.append((base.attr, 'aug' if isinstance(node, ast.AugAssign) else ('setitem' if sub else 'assign')))
            if isinstance(node, ast.Delete):
                for t in node.targets:
                    base = t
                    while isinstance(base, ast.Subscript):
                        base = base.value
                    if is_self_attr(base) and base.attr in BOOKKEEPING:
                        hits.append((base.attr, 'del'))
            if isinstance(node, ast.Call) and last_attr(node) in MUTATORS and isinstance(node.func, ast.Attribute):
                base = node.func.value
                while isinstance(base, ast.Subscript):
                    base = base.value
                if is_self_attr(base) and base.attr in BOOKKEEPING:
                    hits.append((base.attr, last_attr(node)))
            in_run = f.parent is not None and f.parent.name == 'run'
            fname = cl.role_of(f.name) if in_run else f.name
            if fname not in ('run', '__init__') and not in_run and f.name in run_helpers:
                fname = 'run'      # a reset helper called only from the prologue of run plays the role of run
            fshort = f'Pool.run.<{fname}>' if in_run else f.short
            for attr, kind in hits:
                n += 1
                if kind == 'clear' and fname == 'run' and (any(node is getattr(x, 'value', None) for x in prologue) or f.name in run_helpers):
                    kind = 'assign'        # emptying a container in the prologue of run is its re-initialisation
                ok = kind in BOOKKEEPING[attr].get(fname, set())
                ctx.check(rule, f'{fshort}: `{kind}` of self.{attr} is one of the known bookkeeping updates', ok, fshort, f'unexpected-bookkeeping-update:{attr}.{kind}@{fname}',
                          f'{fshort} mutates the Pool bookkeeping `self.{attr}` ({kind}) outside the update sites the conservation argument covers: inputs can be lost, duplicated or '
                          'handed to dead workers', where=loc(f, node))
    ctx.floor('Pool bookkeeping update sites', n, 18)


def dominated_by_not_closed(g, node, var=None):
    """node is dominated by an edge that establishes `<x>.id not in self._closed` (polarity-free, also as a conjunct)"""
    dom = g.dominators(edge_ok=is_flow)
    good = set()
    for n in g.nodes:
        if n.kind == 'test' and isinstance(n.stmt, (ast.If,)) and n.part in (None, 'post'):
            for e in n.succ:
                for txt, truth in edge_facts(e) if e.kind in ('true', 'false') else ():
                    if truth is False and txt.endswith('.id in self._closed') and (var is None or txt == f'{var}.id in self._closed'):
                        good.add(e.dst.id)
    return bool(dom.get(node.id, set()) & good)
