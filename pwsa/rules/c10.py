"""C10 - message framing survives any segmentation and detects any truncation."""
import ast
import struct

from ..astutil import (canon, edge_fact, AnalysisError, dotted, calls_in, last_attr, receiver, norm, is_name, walk_local, loc, short)
from ..cfg import is_flow, path_str

EXPLANATION = (
    'Static decision of the receive/send framing code (remote.send_msg / remote.recv_msg and the helpers they call): '
    'R1 every value consumed as "exactly n bytes" (the struct header, the pickled body) is produced by an exact-read '
    'construct - a loop around socket.recv whose request is bounded by what is still missing, which accumulates the chunks, '
    'whose emptiness test on the chunk dominates every back-edge and leaves by raising; R2 sender and receiver use the same '
    'struct format, the header read asks for struct.calcsize(fmt) bytes, the packed length is the length of the very bytes '
    'that follow; R3 (CFG + may-raise summaries) no OSError/EOFError/struct.error can escape send_msg/recv_msg: every '
    'transport exception reaches a handler that raises ConnectionClosedError; R4 header and body leave through sendall, and '
    'no raw socket send/recv exists outside the framing functions.  Decides the structure that makes the property hold for '
    'every segmentation and truncation offset under the socket API contract (recv returns 1..n bytes, b"" only at EOF); it '
    'does not execute anything.')
TECHNIQUE = 'AST loop recogniser + CFG dominators + exception-escape summaries + constant agreement (static analysis)'

SOCKETISH = ('sock', 'cli', 'incoming', 'server')


def _is_socket_recv(call):
    return last_attr(call) == 'recv' and len(call.args) >= 1


def _while_loops(func):
    return [n for n in walk_local(func.node) if isinstance(n, ast.While)]


def _emptiness_test(test, var):
    """`not chunk`, `len(chunk) == 0`, `chunk == b''`, `not len(chunk)`, `len(chunk) < 1`"""
    if isinstance(test, ast.UnaryOp) and isinstance(test.op, ast.Not):
        v = test.operand
        if is_name(v, var):
            return True
        if isinstance(v, ast.Call) and is_name(v.func, 'len') and v.args and is_name(v.args[0], var):
            return True
    if isinstance(test, ast.Compare) and len(test.ops) == 1:
        l, r = test.left, test.comparators[0]
        if isinstance(test.ops[0], ast.Eq):
            for a, b in ((l, r), (r, l)):
                if is_name(a, var) and isinstance(b, ast.Constant) and b.value == b'':
                    return True
                if isinstance(a, ast.Call) and is_name(a.func, 'len') and a.args and is_name(a.args[0], var) \
                        and isinstance(b, ast.Constant) and b.value == 0:
                    return True
        if isinstance(test.ops[0], ast.Lt) and isinstance(l, ast.Call) and is_name(l.func, 'len') and l.args \
                and is_name(l.args[0], var) and isinstance(r, ast.Constant) and r.value == 1:
            return True
    return False


class ExactRead:
    """Result of analysing one function as an exact-read helper."""

    def __init__(self):
        self.ok = False
        self.problems = []
        self.size_param = None
        self.loop = None


def analyse_exact_read(ctx, func, cls=None, depth=0, delegates=None):
    """Is `func(sock, size)` an exact-read construct?  Every value it returns must come from its own receive loop or from another function of the
    package that is itself an exact-read construct and is handed the socket and the size (a fast path for big messages, say)."""
    res = _analyse_one(ctx, func, cls)
    for st in walk_local(func.node):
        if isinstance(st, ast.Return) and isinstance(st.value, ast.Call):
            r = ctx.prog.resolve_call(st.value, func, cls)
            if r and r[0] == 'func' and r[1] is not func and depth < 2:
                sub = analyse_exact_read(ctx, r[1], None, depth + 1, delegates)
                if delegates is not None:
                    delegates.add(r[1].qualname)
                ctx.used(r[1])
                want = [norm(ast.Name(id=p0, ctx=ast.Load())) for p0 in func.params[:2]]
                if [norm(a) for a in st.value.args[:2]] != want:
                    res.problems.append(f'`{norm(st.value)}` does not hand the socket and the requested size to {r[1].short}')
                for pr in sub.problems:
                    res.problems.append(f'{r[1].short} (which produces part of the results): {pr}')
    res.ok = not res.problems
    return res


def _analyse_into(ctx, func, cls, loop):
    """the recv_into idiom: `while received < size: count = sock.recv_into(view[received:]); if not count: raise; received += count`"""
    res = ExactRead()
    res.loop = loop
    g = ctx.an.cfg(func, cls)
    cnt = call = None
    for n in walk_local(loop):
        if isinstance(n, ast.Assign) and isinstance(n.value, ast.Call) and last_attr(n.value) == 'recv_into' and len(n.targets) == 1 and isinstance(n.targets[0], ast.Name):
            cnt, call = n.targets[0].id, n.value
    if cnt is None:
        res.problems.append('the number of bytes recv_into() stored is not bound to a variable that could be tested for zero')
        return res
    recvd = None
    for n in walk_local(loop):
        if isinstance(n, ast.AugAssign) and isinstance(n.target, ast.Name) and isinstance(n.op, ast.Add) and is_name(n.value, cnt):
            recvd = n.target.id
    t = loop.test
    size_expr = None
    if recvd and isinstance(t, ast.Compare) and len(t.ops) == 1 and isinstance(t.ops[0], (ast.Lt, ast.NotEq)) and is_name(t.left, recvd):
        size_expr = t.comparators[0]
    else:
        res.problems.append('loop condition does not compare the number of bytes received (advanced by what recv_into returned) with what was requested')
    # the buffer: view[received:] of a buffer of exactly `size` bytes that this call created
    buf = call.args[0] if call.args else None
    base = buf.value if isinstance(buf, ast.Subscript) else buf
    ok_req = isinstance(buf, ast.Subscript) and isinstance(buf.slice, ast.Slice) and recvd and is_name(buf.slice.lower, recvd) and buf.slice.upper is None
    if len(call.args) > 1 and size_expr is not None and isinstance(call.args[1], ast.BinOp) and isinstance(call.args[1].op, ast.Sub) \
            and norm(call.args[1].left) == norm(size_expr) and is_name(call.args[1].right, recvd):
        ok_req = True
    if not ok_req:
        res.problems.append(f'recv_into request `{norm(call)}` is not bounded by the number of bytes still missing')
    seen = set()
    cur = base
    fresh = False
    while isinstance(cur, ast.Name) and cur.id not in seen:
        seen.add(cur.id)
        if any(isinstance(x, ast.Global) and cur.id in x.names for x in walk_local(func.node)):
            break
        # the definition sits in the same block as the loop, in front of it (the block may be the branch of a fast path)
        block = func.node.body
        for holder in walk_local(func.node):
            for fld in ('body', 'orelse', 'finalbody'):
                lst = getattr(holder, fld, None)
                if isinstance(lst, list) and any(x is loop for x in lst):
                    block = lst
        defs = [st for st in block if isinstance(st, ast.Assign) and any(is_name(tg, cur.id) for tg in st.targets) and st.lineno < loop.lineno]
        all_defs = [st for st in walk_local(func.node) if isinstance(st, ast.Assign) and any(is_name(tg, cur.id) for tg in st.targets)]
        if len(defs) != 1 or len(all_defs) != 1:
            break
        v = defs[0].value
        # memoryview(X)[:size] / memoryview(X) / bytearray(size)
        if isinstance(v, ast.Subscript) and isinstance(v.slice, ast.Slice) and v.slice.lower is None and size_expr is not None and v.slice.upper is not None \
                and norm(v.slice.upper) == norm(size_expr):
            v = v.value
        if isinstance(v, ast.Call) and is_name(v.func, 'memoryview') and v.args:
            v = v.args[0]
        if isinstance(v, ast.Call) and is_name(v.func, 'bytearray') and v.args and size_expr is not None and norm(v.args[0]) == norm(size_expr):
            fresh = True
            break
        cur = v
    if not fresh:
        res.problems.append(f'the receive buffer `{norm(base) if base is not None else "?"}` is not created afresh (bytearray(size)) by every call - a module-level or reused '
                            'buffer is shared by every thread that receives (each remote worker has its own receiving thread), so concurrent messages overwrite each other, '
                            'and bytes of an aborted read stay behind')
    tests = [n for n in g.nodes if n.kind == 'test' and isinstance(n.stmt, ast.If) and any(n.stmt is x for x in walk_local(loop)) and
             (canon(n.stmt.test) in ((cnt, False), (f'{cnt} == 0', True), (f'{cnt} > 0', False), (f'{cnt} <= 0', True)))]
    heads = [n for n in g.nodes if n.kind == 'join' and n.stmt is loop]
    back_srcs = [e.src for h in heads for e in h.pred if e.kind == 'back']
    if not tests:
        res.problems.append('a zero count (end of stream) is never detected: a truncated stream spins forever')
    else:
        dom = g.dominators(edge_ok=is_flow)
        tid = {x.id for x in tests}
        if any(b.id in dom and not (dom[b.id] & tid) for b in back_srcs):
            res.problems.append('a path around the loop avoids the zero-count test')
        for tnode in tests:
            starts = [e.dst for e in tnode.succ if e.kind in ('true', 'false') and edge_fact(e) in ((cnt, False), (f'{cnt} == 0', True), (f'{cnt} > 0', False), (f'{cnt} <= 0', True))]
            reach = g.reachable(starts, edge_ok=lambda e: e.kind != 'async')
            if any(n.id in reach and (n is g.exit or n in heads) for n in g.nodes):
                res.problems.append('the zero-count branch does not leave the loop by raising')
    if isinstance(size_expr, ast.Name):
        res.size_param = size_expr.id
    res.ok = not res.problems
    return res


def _analyse_one(ctx, func, cls=None):
    res = ExactRead()
    g = ctx.an.cfg(func, cls)
    into = [l for l in _while_loops(func) if any(last_attr(c) == 'recv_into' for st in l.body for c in calls_in(st))]
    if into and not any(_is_socket_recv(c) for l in _while_loops(func) for st in l.body for c in calls_in(st)):
        return _analyse_into(ctx, func, cls, into[0])
    if into:
        # both idioms in one function (a fast path, possibly an inlined helper): every receive loop has to be exact
        res0 = _analyse_recv(ctx, func, cls)
        for lp in into:
            sub = _analyse_into(ctx, func, cls, lp)
            res0.problems += [f'recv_into loop at line {int(getattr(lp, "orig_lineno", lp.lineno))}: {pr}' for pr in sub.problems]
        res0.ok = not res0.problems
        return res0
    return _analyse_recv(ctx, func, cls)


def _analyse_recv(ctx, func, cls=None):
    res = ExactRead()
    g = ctx.an.cfg(func, cls)
    loops = [l for l in _while_loops(func) if any(_is_socket_recv(c) for st in l.body for c in calls_in(st))]
    if not loops:
        # MSG_WAITALL idiom
        for c in calls_in(func.node):
            if _is_socket_recv(c) and any('MSG_WAITALL' in norm(a) for a in c.args[1:]):
                res.problems.append('MSG_WAITALL read without the loop idiom is not recognised as exact')
        res.problems.append('no loop around socket.recv: a single recv may return fewer bytes than requested')
        return res
    loop = loops[0]
    res.loop = loop
    # chunk variable
    chunk = None
    recv_call = None
    for st in loop.body:
        for n in walk_local(st):
            if isinstance(n, ast.Assign) and isinstance(n.value, ast.Call) and _is_socket_recv(n.value) \
                    and len(n.targets) == 1 and isinstance(n.targets[0], ast.Name):
                chunk, recv_call = n.targets[0].id, n.value
            if isinstance(n, ast.NamedExpr) and isinstance(n.value, ast.Call) and _is_socket_recv(n.value):
                chunk, recv_call = n.target.id, n.value
    if chunk is None:
        res.problems.append('the result of recv is not bound to a variable that could be tested for emptiness')
        return res
    # accumulation: acc += chunk | acc.extend(chunk) | acc.append(chunk) | acc = acc + chunk
    acc = None
    counter = None        # remaining-counter variable decreased by len(chunk)
    for n in walk_local(loop):
        if isinstance(n, ast.AugAssign) and isinstance(n.target, ast.Name):
            if isinstance(n.op, ast.Add) and is_name(n.value, chunk):
                acc = n.target.id
            if isinstance(n.op, ast.Sub) and isinstance(n.value, ast.Call) and is_name(n.value.func, 'len') \
                    and n.value.args and is_name(n.value.args[0], chunk):
                counter = n.target.id
        if isinstance(n, ast.Call) and last_attr(n) in ('extend', 'append') and n.args and is_name(n.args[0], chunk):
            acc = receiver(n)
        if isinstance(n, ast.Assign) and len(n.targets) == 1 and isinstance(n.targets[0], ast.Name) \
                and isinstance(n.value, ast.BinOp) and isinstance(n.value.op, ast.Add) \
                and is_name(n.value.left, n.targets[0].id) and is_name(n.value.right, chunk):
            acc = n.targets[0].id
    if acc is None:
        res.problems.append('received chunks are not accumulated')
    else:
        # the accumulator belongs to this call: it is (re)created by an assignment in the function body before the loop - not a parameter (a mutable
        # default is one object shared by every call), not a global / attribute (bytes left by an aborted read would open the next one)
        params = set(func.all_params()) if hasattr(func, 'all_params') else set(func.params)
        fresh = [st for st in func.node.body if isinstance(st, ast.Assign) and any(is_name(tg, acc) for tg in st.targets) and st.lineno < loop.lineno]
        if '.' in acc or not fresh:
            res.problems.append(f'the receive buffer `{acc}` is not created afresh by every call (a parameter with a mutable default, a global or an attribute): the bytes '
                                'received before a truncated frame raised ConnectionClosedError stay in it and become the beginning of the next message read in this process')
    # loop condition: len(acc) < size   |   counter (truthiness / > 0)
    t = loop.test
    size_expr = None
    mode = None
    if isinstance(t, ast.Compare) and len(t.ops) == 1 and isinstance(t.ops[0], (ast.Lt, ast.NotEq)) \
            and isinstance(t.left, ast.Call) and is_name(t.left.func, 'len') and t.left.args and acc \
            and is_name(t.left.args[0], acc):
        size_expr = t.comparators[0]
        mode = 'len'
    elif isinstance(t, ast.Compare) and len(t.ops) == 1 and isinstance(t.ops[0], ast.Gt) and acc \
            and isinstance(t.comparators[0], ast.Call) and is_name(t.comparators[0].func, 'len') \
            and is_name(t.comparators[0].args[0], acc):
        size_expr = t.left
        mode = 'len'
    elif counter and (is_name(t, counter) or (isinstance(t, ast.Compare) and is_name(t.left, counter)
                                              and isinstance(t.ops[0], (ast.Gt, ast.NotEq)))):
        mode = 'counter'
    else:
        res.problems.append('loop condition does not compare what has been received with what was requested '
                            '(no len(acc) < size test and no remaining-counter decreased by len(chunk))')
    # request bounded by what is missing
    if recv_call is not None and mode:
        arg = recv_call.args[0]
        ok_arg = False
        if mode == 'len' and isinstance(arg, ast.BinOp) and isinstance(arg.op, ast.Sub) \
                and norm(arg.left) == norm(size_expr) and isinstance(arg.right, ast.Call) \
                and is_name(arg.right.func, 'len') and is_name(arg.right.args[0], acc):
            ok_arg = True
        if mode == 'counter' and is_name(arg, counter):
            ok_arg = True
        if isinstance(arg, ast.Call) and is_name(arg.func, 'min'):
            for a in arg.args:
                if (mode == 'counter' and is_name(a, counter)) or (
                        mode == 'len' and isinstance(a, ast.BinOp) and isinstance(a.op, ast.Sub) and norm(a.left) == norm(size_expr)):
                    ok_arg = True
        if not ok_arg:
            res.problems.append(f'recv request `{norm(arg)}` is not bounded by the number of bytes still missing '
                                '(it can swallow the beginning of the next message)')
    # emptiness test dominating every back edge and leaving by raise
    tests = [n for n in g.nodes if n.kind == 'test' and isinstance(n.stmt, ast.If) and _emptiness_test(n.stmt.test, chunk)
             and any(n.stmt is x for x in walk_local(loop))]
    heads = [n for n in g.nodes if n.kind == 'join' and n.stmt is loop]
    back_srcs = [e.src for h in heads for e in h.pred if e.kind == 'back']
    if not tests:
        res.problems.append('an empty chunk (end of stream) is never detected: a truncated stream spins forever')
    else:
        dom = g.dominators(edge_ok=is_flow)
        tid = {t.id for t in tests}
        for b in back_srcs:
            if b.id in dom and not (dom[b.id] & tid):
                res.problems.append('a path around the loop avoids the empty-chunk test')
                break
        # the true branch must leave by raising (never reach the loop head or a normal exit)
        for tnode in tests:
            last = [n for n in g.nodes if n.stmt is tnode.stmt and n.kind == 'test']
            src = last[-1]
            starts = [e.dst for e in src.succ if e.kind == 'true']
            reach = g.reachable(starts, edge_ok=lambda e: e.kind != 'async')
            bad = [n for n in g.nodes if n.id in reach and (n is g.exit or n in heads)]
            if bad:
                res.problems.append('the empty-chunk branch does not leave the loop by raising')
    # progress in counter mode: counter decreased on every iteration
    if mode == 'counter':
        pass
    res.ok = not res.problems
    # which parameter is the size
    if size_expr is not None and isinstance(size_expr, ast.Name):
        res.size_param = size_expr.id
    elif mode == 'counter':
        # the counter starts from the requested size: `remaining = size` in front of the loop
        inits = [st.value for st in func.node.body if isinstance(st, ast.Assign) and any(is_name(tg, counter) for tg in st.targets) and st.lineno < loop.lineno]
        res.size_param = inits[0].id if len(inits) == 1 and isinstance(inits[0], ast.Name) else counter
    return res


def _resolve_value_source(func, name):
    """The last simple assignment `name = <expr>` in func (flow-insensitive, single definition expected)."""
    defs = [n for n in walk_local(func.node) if isinstance(n, ast.Assign) and len(n.targets) == 1 and is_name(n.targets[0], name)]
    return defs


def run(ctx):
    P = ctx.prog
    mod = P.module('remote')
    ctx.require('send_msg' in mod.functions and 'recv_msg' in mod.functions, 'remote.send_msg / remote.recv_msg not found')
    send_msg, recv_msg = mod.functions['send_msg'], mod.functions['recv_msg']
    ctx.used(send_msg, recv_msg)

    # ---------------------------------------------------------------- R1 exact reads
    unpacks = [c for c in calls_in(recv_msg.node) if dotted(c.func) in ('struct.unpack', 'struct.unpack_from')]
    loads = [c for c in calls_in(recv_msg.node) if last_attr(c) in ('loads',)]
    ctx.require(unpacks, 'recv_msg: header struct.unpack not found')
    ctx.require(loads, 'recv_msg: body deserialisation call not found')
    consumers = [('header', unpacks[0], unpacks[0].args[1] if len(unpacks[0].args) > 1 else None),
                 ('body', loads[0], loads[0].args[0] if loads[0].args else None)]
    helpers = {}
    delegated = set()
    header_size_expr = None
    body_size_expr = None
    for what, consumer, arg in consumers:
        ctx.require(arg is not None, f'recv_msg: {what} consumer has no data argument')
        src = arg
        # follow one level of local variable
        hops = 0
        while isinstance(src, ast.Name) and hops < 3:
            defs = _resolve_value_source(recv_msg, src.id)
            if len(defs) != 1:
                break
            src = defs[0].value
            hops += 1
        # strip bytes(...) wrappers
        while isinstance(src, ast.Call) and is_name(src.func, 'bytes') and src.args:
            src = src.args[0]
        producer = None
        if isinstance(src, ast.Call):
            r = P.resolve_call(src, recv_msg, None)
            if r and r[0] == 'func':
                producer = r[1]
                if what == 'header':
                    header_size_expr = src.args[1] if len(src.args) > 1 else None
                else:
                    body_size_expr = src.args[1] if len(src.args) > 1 else None
        if producer is None:
            # inline read inside recv_msg itself: analyse recv_msg as the exact-read construct
            inline = any(_is_socket_recv(c) for c in calls_in(src)) if isinstance(src, ast.AST) else False
            res = analyse_exact_read(ctx, recv_msg)
            if inline and isinstance(src, ast.Call) and _is_socket_recv(src):
                res.ok = False
                res.problems = ['a single socket.recv(n) is consumed as if it returned exactly n bytes']
                if what == 'header':
                    header_size_expr = src.args[0]
            ctx.check('R1', f'{what} bytes of recv_msg come from an exact-read construct', res.ok,
                      'remote.recv_msg', f'{what}:inline-read',
                      f'{what} of a message is not read exactly: ' + '; '.join(res.problems),
                      where=loc(recv_msg, consumer))
            continue
        ctx.used(producer)
        if producer.qualname not in helpers:
            helpers[producer.qualname] = analyse_exact_read(ctx, producer, None, 0, delegated)
        res = helpers[producer.qualname]
        ctx.check('R1', f'{what} bytes of recv_msg come from exact-read helper {producer.short}', res.ok,
                  producer.short, f'exact-read:{what}',
                  f'{what} of a message is not read exactly: ' + '; '.join(res.problems),
                  where=loc(producer, res.loop or producer.node))
        # the size handed to the helper must be its size parameter (positional index 1)
        if res.ok and res.size_param and len(producer.params) > 1:
            ctx.check('R1', f'{producer.short}: loop bound is the size parameter', res.size_param == producer.params[1],
                      producer.short, 'exact-read:size-param',
                      f'the loop bound `{res.size_param}` is not the requested size `{producer.params[1]}`',
                      where=loc(producer, producer.node))
    # body length must be the unpacked header value
    up = unpacks[0]
    length_var = None
    for n in walk_local(recv_msg.node):
        if isinstance(n, ast.Assign) and len(n.targets) == 1 and isinstance(n.targets[0], ast.Name) and any(c is up for c in calls_in(n.value)):
            length_var = n.targets[0].id
            sub_ok = isinstance(n.value, ast.Subscript) and isinstance(n.value.slice, ast.Constant) and n.value.slice.value == 0
            ctx.check('R2', 'body length is element 0 of the unpacked header', sub_ok, 'remote.recv_msg', 'header:index',
                      'the body length is not taken from the unpacked header field', where=loc(recv_msg, n))
    if body_size_expr is not None:
        ctx.check('R2', 'the body read asks for exactly the announced length', length_var is not None and is_name(body_size_expr, length_var),
                  'remote.recv_msg', 'body:size-arg',
                  f'the body read asks for `{norm(body_size_expr)}`, not for the length announced in the header', where=loc(recv_msg, loads[0]))

    # ---------------------------------------------------------------- R2 header agreement
    packs = [c for c in calls_in(send_msg.node) if dotted(c.func) == 'struct.pack']
    ctx.require(packs, 'send_msg: struct.pack of the header not found')
    fmt_s = packs[0].args[0] if packs[0].args else None
    fmt_r = up.args[0] if up.args else None
    both_const = isinstance(fmt_s, ast.Constant) and isinstance(fmt_r, ast.Constant) and isinstance(fmt_s.value, str)
    same = both_const and fmt_s.value == fmt_r.value or (not both_const and fmt_s is not None and norm(fmt_s) == norm(fmt_r))
    ctx.check('R2', 'sender and receiver use the same header format', same, 'remote.send_msg/recv_msg', 'header:format',
              f'header format differs: send packs {norm(fmt_s)}, recv unpacks {norm(fmt_r)}', where=loc(send_msg, packs[0]))
    if both_const and same:
        try:
            size = struct.calcsize(fmt_s.value)
        except struct.error:
            size = None
        ctx.check('R2', 'header format is a valid struct format with one unsigned length field', size is not None and
                  fmt_s.value.lstrip('!<>=@') in ('I', 'L', 'Q', 'H'), 'remote.send_msg', 'header:format-kind',
                  f'header format {fmt_s.value!r} is not a single unsigned integer', where=loc(send_msg, packs[0]))
        explicit_order = fmt_s.value[:1] in '!<>='
        ctx.check('R2', 'header byte order/size is explicit (same on every host)', explicit_order, 'remote.send_msg', 'header:byte-order',
                  f'header format {fmt_s.value!r} uses native size/alignment, hosts may disagree', where=loc(send_msg, packs[0]))
        if header_size_expr is not None and size is not None:
            ok = isinstance(header_size_expr, ast.Constant) and header_size_expr.value == size or \
                (isinstance(header_size_expr, ast.Call) and dotted(header_size_expr.func) == 'struct.calcsize'
                 and norm(header_size_expr.args[0]) == norm(fmt_r))
            ctx.check('R2', f'header read asks for calcsize({fmt_s.value!r}) = {size} bytes', ok, 'remote.recv_msg', 'header:size',
                      f'header read asks for {norm(header_size_expr)} bytes but the format {fmt_s.value!r} has {size}', where=loc(recv_msg, up))
    # packed length = len(<body bytes>) and the bytes sent are header + body in this order
    body_var = None
    plen = packs[0].args[1] if len(packs[0].args) > 1 else None
    if isinstance(plen, ast.Call) and is_name(plen.func, 'len') and plen.args and isinstance(plen.args[0], ast.Name):
        body_var = plen.args[0].id
    ctx.check('R2', 'the packed length is len() of the serialised body', body_var is not None, 'remote.send_msg', 'header:length-value',
              f'the header does not carry len(body): {norm(plen)}', where=loc(send_msg, packs[0]))
    hdr_var = None
    for n in walk_local(send_msg.node):
        if isinstance(n, ast.Assign) and n.value is packs[0] and isinstance(n.targets[0], ast.Name):
            hdr_var = n.targets[0].id
    # ---------------------------------------------------------------- R4 sendall, order, single writer
    # every way of writing to a socket; only sendall loops until everything is written - send / sendmsg / sendto / sendfile / os.write
    # return after a partial write (a full buffer plus a signal handler, a socket in timeout mode)
    WRITES = ('sendall', 'send', 'sendmsg', 'sendto', 'sendfile', 'write', 'send_bytes')
    writes = [c for c in calls_in(send_msg.node) if last_attr(c) in WRITES and (receiver(c) or '') in send_msg.params]
    ctx.require(writes, 'send_msg: no socket write found')
    for w in writes:
        ctx.check('R4', 'send_msg writes with sendall', last_attr(w) == 'sendall', 'remote.send_msg', 'write:' + last_attr(w),
                  f'socket.{last_attr(w)} may write only a prefix of the message and its return value is ignored: the header announces N bytes, fewer follow, and the next frame is appended', where=loc(send_msg, w))
    sent = [norm(a) for w in writes for a in w.args[:1]]
    order_ok = False
    if len(writes) == 1 and writes[0].args and isinstance(writes[0].args[0], (ast.Tuple, ast.List)) and len(writes[0].args[0].elts) == 2:
        l, r = writes[0].args[0].elts
        order_ok = (is_name(l, hdr_var) or norm(l) == norm(packs[0])) and is_name(r, body_var)
    elif len(writes) == 1 and isinstance(writes[0].args[0], ast.BinOp) and isinstance(writes[0].args[0].op, ast.Add):
        l, r = writes[0].args[0].left, writes[0].args[0].right
        order_ok = (is_name(l, hdr_var) or l is packs[0] or norm(l) == norm(packs[0])) and is_name(r, body_var)
    elif len(writes) == 2:
        order_ok = (is_name(writes[0].args[0], hdr_var) or norm(writes[0].args[0]) == norm(packs[0])) and is_name(writes[1].args[0], body_var)
    ctx.check('R4', 'the bytes written are header followed by the body it describes', order_ok, 'remote.send_msg', 'write:order',
              f'send_msg writes {sent}: not <header><body>', where=loc(send_msg, writes[0]))
    # raw socket I/O outside the framing functions
    allowed = {send_msg.qualname, recv_msg.qualname} | set(helpers) | delegated
    raw = []
    for f in P.funcs.values():
        if f.qualname in allowed or f.module.name.endswith('spawn_ssh_servers'):
            continue
        for c in calls_in(f.node):
            r = receiver(c) or ''
            if last_attr(c) in ('send', 'sendall', 'recv', 'recv_into', 'sendto', 'sendmsg', 'recvmsg', 'recvfrom', 'sendfile') and any(k in r.lower() for k in SOCKETISH) \
                    and 'comms' not in r and 'pipe' not in r.lower():
                raw.append((f, c))
    ctx.ob('R4', 'no raw socket send/recv outside send_msg/recv_msg and their helpers', not raw)
    for f, c in raw:
        ctx.finding('R4', f.short, f'raw-socket-io:{last_attr(c)}', f'raw socket {last_attr(c)} on {receiver(c)} bypasses the length-prefixed framing',
                    where=loc(f, c))

    # ---------------------------------------------------------------- R3 error mapping (escape analysis)
    lat = ctx.an.lattice
    n_sites = 0
    for f in (send_msg, recv_msg):
        g = ctx.an.cfg(f)
        for exc, node in g.raise_exits.items():
            for e in node.pred:
                if e.cause == 'async':
                    continue
                n_sites += 1
                transport = any(lat.is_sub(exc, b) for b in ('OSError', 'EOFError', 'struct.error'))
                if transport:
                    # find the raise site
                    site = e.call
                    ctx.ob('R3', f'{f.short}: {exc} cannot escape', False)
                    p = g.find_path([g.entry], lambda n: n is node, edge_ok=lambda x: x.kind != 'async')
                    ctx.finding('R3', f.short, f'escape:{exc}', f'{exc} raised by the transport escapes {f.short} instead of being mapped to ConnectionClosedError',
                                where=loc(f, site) if site is not None else f.module.relpath, path=path_str(p or []))
                else:
                    ctx.ob('R3', f'{f.short}: escaping {exc} ({e.cause}) is not a raw transport error', True)
        # positive: ConnectionClosedError must be among the outcomes (the mapping exists)
        has_cce = 'ConnectionClosedError' in g.raise_exits
        ctx.check('R3', f'{f.short}: transport failures are reported as ConnectionClosedError', has_cce, f.short, 'no-ConnectionClosedError',
                  f'{f.short} never raises ConnectionClosedError: transport failures are not reported as a closed connection',
                  where=loc(f, f.node))
    for q, h in helpers.items():
        hf = P.funcs[q]
        g = ctx.an.cfg(hf)
        for exc, node in g.raise_exits.items():
            if any(lat.is_sub(exc, b) for b in ('OSError', 'EOFError', 'struct.error')) and any(e.cause != 'async' for e in node.pred):
                ctx.ob('R3', f'{hf.short}: {exc} cannot escape', False)
                ctx.finding('R3', hf.short, f'escape:{exc}', f'{exc} raised by socket.recv escapes {hf.short} instead of being mapped to ConnectionClosedError',
                            where=loc(hf, hf.node))
            else:
                ctx.ob('R3', f'{hf.short}: escaping {exc} is not a raw transport error', True)
    ctx.stats.update({'exact_read_helpers': sorted(helpers), 'escape_sites': n_sites, 'socket_writes_in_send_msg': len(writes)})
    ctx.floor('send_msg call sites in the package', sum(1 for f in P.funcs.values() for c in calls_in(f.node) if last_attr(c) == 'send_msg'), 15)
    ctx.floor('recv_msg call sites in the package', sum(1 for f in P.funcs.values() for c in calls_in(f.node) if last_attr(c) == 'recv_msg'), 10)
    ctx.sample({'exact_read': {q: {'ok': h.ok, 'problems': h.problems} for q, h in helpers.items()}})
