"""C04 - wait/terminate are bounded, truthful, idempotent, even on unresponsive children."""
import ast

from ..astutil import (canon, conjuncts, edge_facts, guards_of, facts_at, AnalysisError, dotted, calls_in, last_attr, receiver, norm, is_name, walk_local, is_self_attr,
                       loc, short, parent_map, names_in)
from ..cfg import is_flow, path_str
from ..lifecycle import lifecycle, worker_classes, PUBLIC
from .c03 import split_regions

EXPLANATION = (
    'Static decision of the wait/terminate/is_alive implementations of the six public classes (for the remote kind the parent '
    'and the server region of each method separately). R1 bounded blocking: every blocking primitive on a path of '
    'wait/terminate (join, pipe get/recv, connection.wait, Event.wait, accept, recv_msg) either receives a timeout expression '
    'derived from the method\'s timeout parameters, is guarded by a poll(timeout) on the same endpoint, or is the reply read '
    'of a control RPC whose request carries the timeout. R2 truthful return: every return is True under a dominating '
    'dead/not-started guard, False under a negative RPC reply, a delegation to super(), or `not alive` where alive is the '
    'result of is_alive() taken after the last blocking call; _dead is only set under that evidence. R3 idempotence '
    '(typestate): every use of an attribute that only exists once the worker was started, and every use of an endpoint that '
    'is closed on death, is dominated by the dead / remote-dead guard. R4 force path: in the process-backed terminate bodies '
    'the branch `child still alive and force` reaches Process.terminate() followed by a join, and force defaults to True. '
    'R5 return, do not raise: no exception of the injection, of the control-pipe request/acknowledgement or of the control '
    'RPC can escape the parent-side methods. R6: the identity test behind is_child / is_alive / wait / terminate never uses the '
    'interpreter\'s thread ident (threading.get_ident(), Thread.ident, the recorded self._ident): idents are handed to the next '
    'thread created after the old one exits, so a later thread would be taken for the dead worker\'s child; the recorded ident '
    'is read only as the target of foreign_raise (while the child is known alive), as part of the identity report sent to the '
    'parent, and in assertions. And after a forced kill the server shuts the data socket down (sockets.py) - otherwise the '
    'parent-side terminate(force=True) of a context worker ends by signalling its own process.'
    ' R3 also: every store that lowers the dead flag (self._dead = False) is dominated by self._child.start() - the belief the base constructor states in a comment - so a start-up step that raises cannot leave an object that claims to be alive without a child (shared with C17.R3). Process.kill() counts as a forced kill like Process.terminate().')
TECHNIQUE = 'blocking-call discipline, dominance and handler coverage on the CFG (static analysis)'

DEAD_GUARDS = ('not self.is_alive()', 'not self._started or self._dead', 'self._dead', 'not self._started')
BLOCKING = ('join', 'get', 'recv', 'recv_msg', 'wait', 'accept')


def in_stmts(node_stmt, stmts):
    return any(node_stmt is x for st in stmts for x in ast.walk(st))


def timeout_dependent(expr, params):
    return expr is not None and bool(names_in(expr) & set(params))


def guard_dsts(g, tests, which):
    """destinations of the test edges that establish one of `tests` (source text) evaluating to `which`; polarity-free:
    `if t: A else: B` and `if not t: B else: A` give the same answer, `t and u` being true establishes t"""
    want = {canon(ast.parse(t, mode='eval').body, which == 'true') for t in tests}
    out = set()
    for n in g.nodes:
        if n.kind == 'test' and isinstance(n.stmt, ast.If) and n.part in (None, 'post'):
            for e in n.succ:
                if e.kind in ('true', 'false') and set(edge_facts(e)) & want:
                    out.add(e.dst.id)
    return out


def vars_from(func, callee_names):
    """locals all of whose definitions are calls to one of callee_names"""
    defs = {}
    for st in walk_local(func.node):
        if isinstance(st, ast.Assign) and len(st.targets) == 1 and isinstance(st.targets[0], ast.Name):
            defs.setdefault(st.targets[0].id, []).append(st.value)
    out = {k for k, vs in defs.items() if all(isinstance(v, ast.Call) and last_attr(v) in callee_names or
                                               (isinstance(v, ast.Constant) and isinstance(v.value, bool)) for v in vs)
           and any(isinstance(v, ast.Call) for v in vs)}
    # ... and plain copies of such locals (the result variable of an inlined helper)
    changed = True
    while changed:
        changed = False
        for k, vs in defs.items():
            if k not in out and vs and all(isinstance(v, ast.Name) and v.id in out for v in vs):
                out.add(k)
                changed = True
    return out


def joins_child(ctx, cls, call, func, depth=0):
    """the call is `self._child.join(...)` or a self-method that (transitively) joins the child"""
    if last_attr(call) in ('join',) and receiver(call) == 'self._child':
        return True
    if last_attr(call) in ('terminate', 'kill') and receiver(call) == 'self._child':
        return True
    if receiver(call) in ('self', 'super()') and depth < 2:
        r = ctx.prog.resolve_call(call, func, cls)
        if r and r[0] == 'func' and r[1].name not in ('wait', 'terminate', 'is_alive', 'close'):
            return any(joins_child(ctx, cls, c, r[1], depth + 1) for c in calls_in(r[1].node))
    return False


def check_process_poll_thread_safety(ctx):
    """multiprocessing.Process.is_alive() / join() poll the child with waitpid() and are not safe against each other from two threads: the thread that
    loses the race gets "no such child" and reports the process alive although it has exited (until the winner has stored the exit code).  The
    registry makes that reachable: Worker.active_children() calls is_alive() on every registered worker from whatever thread asks, while the owner
    of a worker sits in wait() / terminate().  For the process kind - the registered class whose self._child is a multiprocessing Process - the verdict
    `self._child.is_alive()` of is_alive / wait / terminate is therefore taken under a lock of the worker (or read from the child's sentinel, which
    does not depend on who reaped the process).  F35: today it is not."""
    P = ctx.prog
    PW = P.cls('ProcessWorker')
    ac = P.cls('Worker').methods.get('active_children')
    polls = ac is not None and any(last_attr(c) == 'is_alive' for c in calls_in(ac.node))
    if not polls:
        ctx.ob('R2', 'the registry does not poll registered workers from foreign threads', True)
        return
    n = 0
    impls = []
    for c0 in [PW] + list(P.subclasses(PW)):
        for name in ('is_alive', 'wait', 'terminate'):
            f0 = c0.methods.get(name)
            if f0 is not None and f0 not in impls:
                impls.append(f0)
    for f in impls:
        ctx.used(f)
        pm = parent_map(f.node)
        bare = []
        for c in calls_in(f.node):
            if last_attr(c) == 'is_alive' and receiver(c) == 'self._child':
                n += 1
                cur = c
                locked = False
                while cur in pm:
                    cur = pm[cur]
                    if isinstance(cur, ast.With) and any('lock' in norm(it.context_expr).lower() for it in cur.items):
                        locked = True
                if not locked:
                    bare.append(c)
        ctx.check('R2', f'{f.short}: the liveness poll of the child process is serialised with the polls other threads make through the registry', not bare, f.short,
                  'process-poll-not-serialised',
                  f'{f.short} takes its verdict from `self._child.is_alive()` with nothing that serialises it against a concurrent is_alive() of the same worker from another '
                  'thread (Worker.active_children() polls every registered worker): the thread that loses the waitpid race sees a dead child as alive - wait(30) returns False '
                  'after 10 ms for a worker whose process is gone', where=loc(f, bare[0]) if bare else loc(f, f.node))
    ctx.floor('liveness polls of the child process in is_alive / wait / terminate', n, 3)


def units(ctx):
    """(cls, method func, region name, stmts) for every implementation body to analyse"""
    P = ctx.prog
    seen = set()
    out = []
    for name in PUBLIC:
        cls = P.cls(name)
        for m in ('wait', 'terminate', 'is_alive', 'close', '_release_child'):
            _, f = cls.resolve(m)
            chain = [f]
            for c in calls_in(f.node):
                r = P.resolve_call(c, f, cls)
                if r and r[0] == 'func' and r[1].name == m and r[1] is not f:
                    chain.append(r[1])
            for ff in chain:
                if ff.qualname in seen or ff.cls.name in ('Worker', 'PersistentWorker'):
                    continue
                seen.add(ff.qualname)
                reg = split_regions(ff)
                if reg:
                    out.append((ff.cls, ff, 'server', reg['server']))
                    out.append((ff.cls, ff, 'parent', reg['parent']))
                else:
                    out.append((ff.cls, ff, 'all', ff.node.body))
    # helpers that wait on behalf of wait()/terminate() (e.g. a _join that drains the result pipe while waiting)
    for cls, f, region, stmts in list(out):
        if f.name not in ('wait', 'terminate'):
            continue
        for c in [c for st in stmts for c in calls_in(st)]:
            if receiver(c) == 'self':
                r = P.resolve_call(c, f, cls)
                if r and r[0] == 'func' and r[1].qualname not in seen and r[1].name not in ('close', 'is_alive', '_release_child', 'wait', 'terminate') \
                        and any(last_attr(x) in BLOCKING for x in calls_in(r[1].node)) and any('timeout' in p_ for p_ in r[1].all_params()):
                    seen.add(r[1].qualname)
                    out.append((r[1].cls, r[1], 'helper', r[1].node.body))
    return out


class _Giveup(Exception):
    pass


def _ev(e, env):
    """evaluate a timeout expression over concrete representatives (None and numbers): names, constants, is/is not/comparisons, and/or/not, min/max"""
    if isinstance(e, ast.Constant):
        return e.value
    if isinstance(e, ast.Name):
        if e.id in env:
            return env[e.id]
        raise _Giveup()
    if isinstance(e, ast.UnaryOp) and isinstance(e.op, ast.Not):
        return not _ev(e.operand, env)
    if isinstance(e, ast.BoolOp):
        res = None
        for v in e.values:
            res = _ev(v, env)
            if isinstance(e.op, ast.And) and not res:
                return res
            if isinstance(e.op, ast.Or) and res:
                return res
        return res
    if isinstance(e, ast.Compare):
        left = _ev(e.left, env)
        for op, c in zip(e.ops, e.comparators):
            right = _ev(c, env)
            if isinstance(op, ast.Is):
                r = left is right
            elif isinstance(op, ast.IsNot):
                r = left is not right
            elif isinstance(op, ast.Eq):
                r = left == right
            elif isinstance(op, ast.NotEq):
                r = left != right
            else:
                if left is None or right is None:
                    raise _Giveup()          # the concrete program would raise TypeError here
                r = {ast.Lt: left < right, ast.LtE: left <= right, ast.Gt: left > right, ast.GtE: left >= right}.get(type(op))
                if r is None:
                    raise _Giveup()
            if not r:
                return False
            left = right
        return True
    if isinstance(e, ast.Call) and isinstance(e.func, ast.Name) and e.func.id in ('min', 'max') and not e.keywords:
        vals = [_ev(a, env) for a in e.args]
        if any(v is None for v in vals):
            raise _Giveup()
        return min(vals) if e.func.id == 'min' else max(vals)
    if isinstance(e, ast.IfExp):
        return _ev(e.body, env) if _ev(e.test, env) else _ev(e.orelse, env)
    raise _Giveup()


def _run_prefix(stmts, env):
    """abstract run of the leading timeout-normalisation statements of a method (assignments to the two parameters, ifs, raises)"""
    for st in stmts:
        if isinstance(st, ast.Expr) and isinstance(st.value, ast.Constant):
            continue
        if isinstance(st, ast.If):
            if not ({n.id for n in ast.walk(st.test) if isinstance(n, ast.Name)} <= set(env)):
                return
            _run_prefix(st.body if _ev(st.test, env) else st.orelse, env)
        elif isinstance(st, ast.Assign) and len(st.targets) == 1 and isinstance(st.targets[0], ast.Name) and st.targets[0].id in env:
            env[st.targets[0].id] = _ev(st.value, env)
        elif isinstance(st, ast.Raise):
            raise _Giveup()
        else:
            return


def clamp_ok(f):
    """the request budget sent to the server is capped by the local timeout and is not lost: evaluated over representatives of {None, small, large}^2.
    Specification: timeout None -> remote_timeout unchanged; otherwise remote_timeout becomes timeout if it was None, else min(remote_timeout, timeout)."""
    for t in (None, 0.5, 2.0):
        for r in (None, 0.5, 2.0, 1.0):
            env = {'timeout': t, 'remote_timeout': r}
            try:
                _run_prefix(f.node.body, env)
            except _Giveup:
                return False
            want = r if t is None else (t if r is None else min(r, t))
            if env['remote_timeout'] != want:
                return False
    return True


def check_ident_reads(ctx):
    """R6 who-may-read frame on the recorded interpreter thread ident"""
    n = 0
    for f in ctx.prog.funcs.values():
        pm = None
        for a in ast.walk(f.node):
            if not (isinstance(a, ast.Attribute) and a.attr == '_ident' and isinstance(a.ctx, ast.Load) and is_name(a.value, 'self')):
                continue
            if any(any(y is a for y in ast.walk(nf.node)) for nf in f.nested.values()):
                continue
            pm = pm or parent_map(f.node)
            n += 1
            ok, cur = False, a
            while cur in pm:
                par = pm[cur]
                if isinstance(par, ast.Assert):
                    ok = True
                if isinstance(par, ast.Call) and last_attr(par) == 'foreign_raise' and par.args and par.args[0] is cur:
                    ok = True
                if isinstance(par, ast.Call) and last_attr(par) in ('put', 'send', 'send_msg') and isinstance(cur, ast.Tuple):
                    ok = True
                if isinstance(par, ast.stmt):
                    break
                cur = par
            ctx.check('R6', f'{f.short}: the recorded thread ident is read only by foreign_raise, the identity report and assertions', ok, f.short, f'ident-read:{norm(pm[a])[:60]}',
                      f'{f.short} uses self._ident in `{short(pm[a])}`: interpreter thread idents are recycled as soon as a thread has exited, so a decision based on it '
                      '(is_child and with it is_alive / wait / terminate) takes a later thread for the dead worker\'s child - is_alive() True for a dead worker, '
                      'wait() raising "cannot wait for itself", terminate() raising in the caller', where=loc(f, a))
    ctx.floor('reads of the recorded thread ident', n, 6)
    # and the identity properties themselves do not call threading.get_ident()
    for cls in ctx.prog.classes.values() if hasattr(ctx.prog, 'classes') else []:
        pass
    for f in ctx.prog.funcs.values():
        if f.name in ('is_child', 'is_alive') and f.cls is not None:
            bad = [c for c in calls_in(f.node) if (dotted(c.func) or '').endswith('get_ident')]
            ctx.check('R6', f'{f.short} does not identify threads by threading.get_ident()', not bad, f.short, 'identity-by-thread-ident',
                      f'{f.short} compares interpreter thread idents, which are recycled after a thread exits', where=loc(f, bad[0]) if bad else loc(f, f.node))


def run(ctx):
    from ..frame import check_frame_attrs
    from ..sockets import check_forced_kill_eof
    check_frame_attrs(ctx, 'C04', 'R3')
    check_process_poll_thread_safety(ctx)
    from ..frame import check_dead_flag_lowering
    check_dead_flag_lowering(ctx, 'R3')
    check_ident_reads(ctx)
    check_forced_kill_eof(ctx, 'R6')
    # a timeout left on the control socket turns every answer that takes longer - wait(t) on a busy child - into 'the remote side is gone': the control
    # channel is closed, terminate(force=True) can no longer reach the child and ends by signalling the caller (shared with C02.R6 / C06.R6)
    from ..sockets import check_blocking_sockets
    check_blocking_sockets(ctx, 'R6')
    P = ctx.prog
    us = units(ctx)
    ctx.floor('wait/terminate/is_alive implementation bodies', len(us), 14)
    n_block = n_ret = n_use = 0
    for cls, f, region, stmts in us:
        ctx.used(f)
        g = ctx.an.cfg(f, cls)
        F = f.short + (f'[{region}]' if region != 'all' else '')
        tparams = [p for p in f.all_params() if 'timeout' in p]
        # ... and the locals computed from them (a deadline, the time remaining): a local all of whose definitions mention a timeout parameter or
        # another such local
        changed = True
        while changed:
            changed = False
            defs = {}
            for st in walk_local(f.node):
                if isinstance(st, ast.Assign) and len(st.targets) == 1 and isinstance(st.targets[0], ast.Name):
                    defs.setdefault(st.targets[0].id, []).append(st.value)
            for k, vs in defs.items():
                if k not in tparams and all(names_in(v) & set(tparams) for v in vs):
                    tparams.append(k)
                    changed = True
        # ------------------------------------------------------------ R1 bounded blocking
        if region == 'server' and f.name in ('close', '_release_child'):
            continue
        if f.name in ('wait', 'terminate') or region == 'helper':
            for c in [c for st in stmts for c in calls_in(st)]:
                nm = last_attr(c)
                r = receiver(c) or ''
                if nm == 'join' and r.startswith('self.'):
                    n_block += 1
                    arg = c.args[0] if c.args else next((k.value for k in c.keywords if k.arg == 'timeout'), None)
                    ok = timeout_dependent(arg, tparams)
                    ctx.check('R1', f'{F}: join on {r} is bounded by the timeout parameter', ok, F, f'unbounded-join:{r}',
                              f'`{norm(c)}` in {F} has no timeout derived from the method\'s timeout: the call does not return within a multiple of the timeout when the child does not die',
                              where=loc(f, c))
                elif nm in ('get', 'recv') and r.startswith('self.') and ('parent_end' in r or 'child_end' in r) and not c.args:
                    n_block += 1
                    # guarded by poll(timeout) on the same endpoint
                    nodes = [n for n in g.nodes if n.stmt is not None and n.part == 'eval' and any(x is c for x in n.calls())]
                    good = set()
                    for n in g.nodes:
                        if n.kind == 'test' and isinstance(n.stmt, ast.If) and n.part in (None, 'post'):
                            t = n.stmt.test
                            if isinstance(t, ast.Call) and last_attr(t) == 'poll' and receiver(t) == r and t.args and timeout_dependent(t.args[0], tparams):
                                for e in n.succ:
                                    if e.kind == 'true':
                                        good.add(e.dst.id)
                    # or: the read follows a bounded connection.wait([... r ...], timeout) whose result contains the pipe
                    for n in g.nodes:
                        if n.kind == 'test' and isinstance(n.stmt, ast.If) and n.part in (None, 'post'):
                            t = n.stmt.test
                            if isinstance(t, ast.Compare) and len(t.ops) == 1 and isinstance(t.ops[0], ast.In) and norm(t.left) == r and isinstance(t.comparators[0], ast.Name):
                                rv = t.comparators[0].id
                                for st0 in walk_local(f.node):
                                    if isinstance(st0, ast.Assign) and is_name(st0.targets[0], rv) and isinstance(st0.value, ast.Call) and (dotted(st0.value.func) or '').endswith('connection.wait'):
                                        ta = st0.value.args[1] if len(st0.value.args) > 1 else next((k.value for k in st0.value.keywords if k.arg == 'timeout'), None)
                                        if timeout_dependent(ta, tparams):
                                            good |= {e.dst.id for e in n.succ if e.kind == 'true'}
                    dom = g.dominators(edge_ok=is_flow)
                    ok = bool(nodes) and all(dom.get(n.id, set()) & good for n in nodes)
                    # or: the endpoint's get() itself honours a timeout argument that is derived from the method's timeout
                    targ = next((k.value for k in c.keywords if k.arg == 'timeout'), None)
                    if not ok and targ is not None and timeout_dependent(targ, tparams) and endpoint_get_honours_timeout(ctx):
                        ok = True
                    ctx.check('R1', f'{F}: the read on {r} is guarded by poll(timeout)', ok, F, f'unbounded-read:{r}',
                              f'`{norm(c)}` in {F} blocks without a timeout: a child that never answers (interpreter lock held by a C call, stopped process) keeps '
                              'terminate() from ever reaching the timed join and the forced kill', where=loc(f, c))
                elif nm == 'recv_msg':
                    n_block += 1
                    # reply read of an RPC: the preceding request carries a timeout-dependent argument (or is the immediate 'alive' query)
                    reqs = [x for st in stmts for x in calls_in(st) if last_attr(x) == 'send_msg' and x.lineno <= c.lineno and len(x.args) >= 2 and isinstance(x.args[1], ast.Tuple)]
                    ok = False
                    if reqs:
                        req = reqs[-1].args[1]
                        cmd = req.elts[0].value if isinstance(req.elts[0], ast.Constant) else None
                        args = req.elts[1] if len(req.elts) > 1 else None
                        ok = cmd == 'alive' or (isinstance(args, ast.Tuple) and any(timeout_dependent(a, tparams) for a in args.elts))
                    ctx.check('R1', f'{F}: the reply read is bounded by the timeout sent with the request', ok, F, 'unbounded-rpc',
                              f'{F} waits for a reply to a request that does not carry the timeout: the server side may block indefinitely', where=loc(f, c))
                elif nm in ('wait', 'accept') and (dotted(c.func) or '').endswith(('connection.wait', '.accept')):
                    n_block += 1
                    targ = c.args[1] if len(c.args) > 1 else next((k.value for k in c.keywords if k.arg == 'timeout'), None)
                    ok = nm == 'wait' and timeout_dependent(targ, tparams)
                    ctx.check('R1', f'{F}: {nm}() is bounded', ok, F, f'unbounded-{nm}', f'`{norm(c)}` in {F} has no timeout', where=loc(f, c))
            # remote_timeout = min(remote_timeout, timeout)
            if 'remote_timeout' in tparams:
                ok = clamp_ok(f)
                ctx.check('R1', f'{f.short}: remote_timeout is capped by timeout', ok, f.short, 'remote-timeout-not-capped',
                          'the timeout sent to the server is not capped by the local timeout', where=loc(f, f.node))
        # the time granted by the caller arrives on the server as `timeout`; `remote_timeout` is the parent's budget for the request itself and means nothing there
        if region == 'server' and 'remote_timeout' in tparams:
            uses = [x for st in stmts for x in ast.walk(st) if isinstance(x, ast.Name) and x.id == 'remote_timeout' and isinstance(x.ctx, ast.Load)]
            ctx.check('R1', f'{F}: the server side waits for the time it was granted (`timeout`), not for the request budget (`remote_timeout`)', not uses, F, 'server-uses-remote-timeout',
                      f'{F} uses `remote_timeout` on the server side, where it still has its default (the control thread passes the granted time as `timeout`): the graceful window is capped '
                      'at one second whatever the caller allowed, a target that unwinds longer is force-killed and reported with error None instead of WorkerTerminatedError',
                      where=loc(f, uses[0]) if uses else loc(f, f.node))
        # ------------------------------------------------------------ R2 truthful returns
        if f.name in ('wait', 'terminate'):
            dead_true = guard_dsts(g, DEAD_GUARDS, 'true')
            dom = g.dominators(edge_ok=is_flow)
            join_nodes = [n for n in g.nodes if n.stmt is not None and n.part == 'eval' and in_stmts(n.stmt, stmts) and any(joins_child(ctx, cls, c, f) for c in n.calls())]
            for n in g.nodes:
                if n.kind != 'return' or n.part not in (None, 'eval') or not in_stmts(n.stmt, stmts):
                    continue
                n_ret += 1
                v = n.stmt.value
                where = loc(f, n.stmt)
                lvn2 = vars_from(f, ('is_alive',))
                not_alive_edges = guard_dsts(g, tuple(lvn2), 'false') | guard_dsts(g, tuple('not ' + x for x in lvn2), 'true') if lvn2 else set()
                alive_edges = guard_dsts(g, tuple(lvn2), 'true') | guard_dsts(g, tuple('not ' + x for x in lvn2), 'false') if lvn2 else set()
                if isinstance(v, ast.Constant) and v.value is True:
                    # ... or behind the not-alive side of a test of the liveness just sampled (`if alive: return False` / ... / `return True`)
                    ok = bool(dom.get(n.id, set()) & (dead_true | not_alive_edges))
                    ctx.check('R2', f'{F}: `return True` at line {n.line} is under a dead/not-started guard', ok, F, 'return-True-unguarded',
                              f'{F} returns True without evidence that the worker is dead', where=where)
                elif isinstance(v, ast.Constant) and v.value is False:
                    neg = guard_dsts(g, tuple('not ' + v for v in vars_from(f, ('recv_msg',))), 'true')
                    ok = bool(dom.get(n.id, set()) & (neg | alive_edges))
                    ctx.check('R2', f'{F}: `return False` at line {n.line} follows a negative reply of the server', ok, F, 'return-False-unguarded',
                              f'{F} returns False without a negative answer from the server', where=where)
                elif isinstance(v, ast.UnaryOp) and isinstance(v.op, ast.Not) and isinstance(v.operand, ast.Name):
                    var = v.operand.id
                    defs = [d for d in g.nodes if d.stmt is not None and d.part in ('store', None) and isinstance(d.stmt, ast.Assign) and is_name(d.stmt.targets[0], var) and in_stmts(d.stmt, stmts)]
                    okdef = bool(defs) and (all(isinstance(d.stmt.value, ast.Call) and last_attr(d.stmt.value) == 'is_alive' for d in defs) or var in lvn2)
                    # the liveness sample is taken after the last blocking call: no join between the def and the return
                    late = True
                    for d in defs:
                        p = g.find_path([d], lambda x: x is n, edge_ok=is_flow, node_ok=lambda x: True)
                        pj = any(g.find_path([d], lambda x: x is j, edge_ok=is_flow) and g.find_path([j], lambda x: x is n, edge_ok=is_flow) for j in join_nodes)
                        if pj:
                            late = False
                    reaches = bool(defs) and bool(dom.get(n.id, set()) & {d.id for d in defs})
                    ctx.check('R2', f'{F}: `return not {var}` reports is_alive() sampled after the last join', okdef and late and reaches, F, f'return-stale:{norm(v)}',
                              f'{F} returns `{norm(v)}` where `{var}` is not the liveness of the child sampled after the last join/kill: the return value does not say whether the worker is dead at that moment',
                              where=where)
                elif isinstance(v, ast.Call) and isinstance(v.func, ast.Attribute) and isinstance(v.func.value, ast.Call) and is_name(v.func.value.func, 'super'):
                    ctx.ob('R2', f'{F}: delegates to super().{v.func.attr}()', True)
                elif isinstance(v, ast.UnaryOp) and isinstance(v.op, ast.Not) and isinstance(v.operand, ast.Call) and last_attr(v.operand) == 'is_alive':
                    ctx.ob('R2', f'{F}: returns not <child>.is_alive()', True)
                else:
                    ctx.check('R2', f'{F}: return expression `{norm(v)}` is a recognised truthful form', False, F, f'return-form:{norm(v)}',
                              f'{F} returns `{norm(v)}`, which is not derived from the liveness of the child', where=where)
        # _dead = True only under evidence that the local child (thread / process object) is not alive
        if f.name in ('wait', 'terminate', 'is_alive'):
            dom = g.dominators(edge_ok=is_flow)
            lv = vars_from(f, ('is_alive',))
            ev = guard_dsts(g, tuple('not ' + v for v in lv), 'true') | guard_dsts(g, tuple(lv), 'false')
            # the false side of a *pure* `self._child.is_alive()` test
            for n in g.nodes:
                if n.kind == 'test' and isinstance(n.stmt, ast.If) and n.part in (None, 'post'):
                    t = n.stmt.test
                    if isinstance(t, ast.Call) and last_attr(t) == 'is_alive' and receiver(t) == 'self._child':
                        ev |= {e.dst.id for e in n.succ if e.kind == 'false'}
                    if isinstance(t, ast.UnaryOp) and isinstance(t.op, ast.Not) and isinstance(t.operand, ast.Call) and last_attr(t.operand) == 'is_alive' and receiver(t.operand) == 'self._child':
                        ev |= {e.dst.id for e in n.succ if e.kind == 'true'}
            for n in g.nodes:
                if n.kind == 'stmt' and n.part in (None, 'store') and isinstance(n.stmt, ast.Assign) and in_stmts(n.stmt, stmts) and any(is_self_attr(t, '_dead') for t in n.stmt.targets) \
                        and isinstance(n.stmt.value, ast.Constant) and n.stmt.value.value is True:
                    ok = bool(dom.get(n.id, set()) & ev)
                    if region == 'parent':
                        # remote kind, parent side: the worker is dead only if the remote child is dead as well - the store follows `_remote_dead = True`
                        # or sits on the side of a test that establishes self._remote_dead (the outcome being there is no evidence: a persistent
                        # frontend fabricates one whenever its forwarding loop ends)
                        rev = {x.id for x in g.nodes if x.kind == 'stmt' and x.part in (None, 'store') and isinstance(x.stmt, ast.Assign) and any(is_self_attr(t, '_remote_dead') for t in x.stmt.targets)
                               and isinstance(x.stmt.value, ast.Constant) and x.stmt.value.value is True}
                        rev |= {e.dst.id for x in g.nodes if x.kind == 'test' for e in x.succ if e.kind in ('true', 'false') and ('self._remote_dead', True) in edge_facts(e)}
                        okr = bool(dom.get(n.id, set()) & rev)
                        ctx.check('R2', f'{F}: `_dead = True` at line {n.line} is set under evidence that the remote child is dead too', okr, F, 'dead-flag-without-remote-evidence',
                                  f'{F} caches the worker as dead on a path where nothing says that the remote child has ended (neither `_remote_dead` nor a reply of the server): '
                                  'is_alive() answers False - and close()/wait()/terminate() become no-ops - while the child is still running on the server, so it outlives its pool',
                                  where=loc(f, n.stmt))
                    ctx.check('R2', f'{F}: `_dead = True` at line {n.line} is set under evidence that the local child is not alive', ok, F, 'dead-flag-without-evidence',
                              f'{F} caches the worker as dead on a path where its local child (thread / process object) has not been observed dead: is_alive() returns False - and wait() '
                              'returns True at once - for a worker that is still running (e.g. a frontend thread still delivering results)', where=loc(f, n.stmt))
        # ------------------------------------------------------------ R3 typestate: start-only attributes and closed endpoints
        start_only = start_only_attrs(ctx, cls)
        dead_false = guard_dsts(g, DEAD_GUARDS, 'false') | guard_dsts(g, ('self.is_alive()',), 'true')
        dom = g.dominators(edge_ok=is_flow)
        for n in g.nodes:
            if n.stmt is None or n.part not in (None, 'eval') or not in_stmts(n.stmt, stmts) or n.kind in ('handler',):
                continue
            exprs = [n.stmt.test] if n.kind == 'test' else ([n.stmt] if not isinstance(n.stmt, (ast.If, ast.While, ast.For, ast.Try, ast.With)) else [])
            used = {a.attr for ex in exprs for a in ast.walk(ex) if isinstance(a, ast.Attribute) and is_name(a.value, 'self') and a.attr in start_only}
            if not used or region in ('server', 'helper') or f.name == '_release_child':
                continue
            n_use += 1
            # the guard test itself may mention nothing start-only; uses must be dominated by a passed guard
            ok = bool(dom.get(n.id, set()) & dead_false)
            ctx.check('R3', f'{F}: use of {sorted(used)} at line {n.line} is dominated by the dead/not-started guard', ok, F,
                      'use-before-guard:' + ','.join(sorted(used)),
                      f'{F} touches {sorted(used)} (which exist only once the worker was started / are closed once it is dead) on a path that did not pass the '
                      'dead/not-started guard: wait()/terminate()/is_alive() on a dead or never-run worker raise instead of returning at once', where=loc(f, n.stmt))
        # the control socket is closed when the remote side is found dead: uses need the remote-dead guard
        if region == 'parent':
            rd_false = guard_dsts(g, ('not self._remote_dead',), 'true') | guard_dsts(g, ('self._remote_dead',), 'false')
            for n in g.nodes:
                if n.stmt is None or n.part != 'eval' or not in_stmts(n.stmt, stmts):
                    continue
                uses = [c for c in n.calls() if last_attr(c) in ('send_msg', 'recv_msg') and c.args and norm(c.args[0]) == 'self._ctrl_sock']
                if uses:
                    n_use += 1
                    ok = bool(dom.get(n.id, set()) & rd_false)
                    ctx.check('R3', f'{F}: control-socket I/O at line {n.line} is dominated by `not self._remote_dead`', ok, F, 'ctrl-sock-use-after-close',
                              f'{F} uses the control socket on a path where it may already have been closed (remote side found dead)', where=loc(f, n.stmt))
        # ------------------------------------------------------------ R4 force path
        if f.name == 'terminate' and region in ('all', 'server') and lifecycle(ctx, P.cls(cls.name) if cls.name in PUBLIC else cls).kind in ('process', 'remote'):
            kills = [c for st in stmts for c in calls_in(st) if last_attr(c) in ('terminate', 'kill') and receiver(c) == 'self._child']
            ok = ctx.check('R4', f'{F}: the forced kill exists', len(kills) == 1, F, f'force-kill-sites:{len(kills)}',
                           f'{F} never calls Process.terminate(): force=True cannot guarantee a dead child', where=loc(f, f.node))
            if ok:
                k = kills[0]
                pm = parent_map(f.node)
                facts = set()
                for gst, truth in guards_of(pm, k):
                    if in_stmts(gst, stmts):
                        facts.update(conjuncts(gst.test, truth, leaves=True))
                lvn = vars_from(f, ('is_alive',))
                # polarity-free: what must hold for the kill to run - force, the child (still) alive, and the worker not known dead
                good = {('force', True), ('self._child.is_alive()', True), ('self.is_alive()', True), ('self._dead', False), ('self._started', True),
                        ('not self._started or self._dead', False), ('self._started and (not self._dead)', True)} | {(v, True) for v in lvn}
                conds = sorted(('' if tr else 'not ') + t for t, tr in facts)
                ctx.check('R4', f'{F}: the forced kill depends only on `child still alive` and `force`', facts <= good and ('force', True) in facts, F,
                          'force-kill-condition:' + ' & '.join(conds), f'the forced kill in {F} is conditional on {conds}', where=loc(f, k))
                kn = [n for n in g.nodes if n.stmt is not None and n.part == 'post' and any(x is k for x in n.calls())]
                jid = {n.id for n in g.nodes if n.stmt is not None and n.part == 'post' and any(last_attr(x) == 'join' and receiver(x) == 'self._child' for x in n.calls())}
                al = [n for n in g.nodes if n.stmt is not None and n.part == 'eval' and isinstance(n.stmt, ast.Assign) and isinstance(n.stmt.value, ast.Call) and last_attr(n.stmt.value) == 'is_alive']
                p = g.find_path(kn, lambda x: x in al or x is g.exit, edge_ok=is_flow, node_ok=lambda x: x.id not in jid)
                ctx.check('R4', f'{F}: the forced kill is followed by a join before liveness is sampled', p is None, F, 'force-kill-without-join',
                          f'after Process.terminate() {F} samples is_alive() without joining: it reports a child that is being killed as alive', where=loc(f, k))
            if region == 'all':
                d = f.param_default('force')
                ctx.check('R4', f'{f.short}: force defaults to True', isinstance(d, ast.Constant) and d.value is True, f.short, f'force-default:{norm(d)}',
                          f'{f.short}: force defaults to {norm(d)}', where=loc(f, f.node))
        # ------------------------------------------------------------ R5 return, do not raise (parent side)
        if region in ('all', 'parent'):
            for exc, node in g.raise_exits.items():
                for e in node.pred:
                    if e.cause == 'async' or e.cause == 'e3p':
                        continue
                    src = e.src
                    if src.stmt is not None and not in_stmts(src.stmt, stmts) and region == 'parent':
                        # raised by the common prologue (argument validation) or the other region
                        if not (isinstance(src.stmt, ast.Raise) or src.copy_of):
                            continue
                    if isinstance(src.stmt, ast.Raise) and e.kind == 'exc' and e.cause == 'explicit':
                        ctx.ob('R5', f'{F}: explicit `{short(src.stmt, 50)}` (argument validation / called from the child)', True)
                        continue
                    call = e.call
                    if call is not None and last_attr(call) == 'send_msg' and len(call.args) >= 2 and isinstance(call.args[1], ast.Constant) and call.args[1].value is None:
                        ctx.note(f'{F}: the release send `{short(call, 60)}` is not wrapped (a first send after an orderly close of the peer succeeds on TCP; not armed)')
                        continue
                    if exc == 'SystemError':
                        continue   # PyThreadState_SetAsyncExc touching more than one thread: cannot happen for a valid ident
                    if call is not None and receiver(call) in ('self', 'super()') and last_attr(call) in ('close', 'is_alive', 'wait', 'terminate', '_release_child'):
                        continue   # judged in the unit of that method (region-insensitive summaries would mix parent and server paths)
                    callee = (last_attr(call) if call is not None else 'propagated')
                    ctx.check('R5', f'{F}: {exc} from {callee}() cannot escape', False, F, f'escapes:{exc}@{callee}',
                              f'{exc} raised by `{short(call) if call is not None else "a callee"}` escapes {F}: the call raises instead of returning whether the worker is dead '
                              '(e.g. the child ended between the liveness check and the request)', where=loc(f, call) if call is not None else loc(f, f.node))
    # the forced kill is SIGTERM: it only works on an unresponsive child (stuck in C code, interpreter lock held) while the child keeps the
    # default disposition - a Python-level handler would merely set a flag that is never looked at
    n_sig = 0
    for c in P.classes.values():
        names = [x.name for x in c.mro() if not isinstance(x, str)]
        if 'ProcessWorker' not in names and 'RemoteWorker' not in names:
            continue
        for f in c.methods.values():
            for call in calls_in(f.node):
                if (dotted(call.func) or '') == 'signal.signal' and len(call.args) == 2 and 'SIGTERM' in norm(call.args[0]):
                    n_sig += 1
                    ok = norm(call.args[1]) in ('signal.SIG_DFL',)
                    ctx.check('R4', f'{f.short}: SIGTERM keeps its default disposition in the child', ok, f.short, f'sigterm-handler-in-child:{norm(call.args[1])}',
                              f'{f.short} installs `{norm(call.args[1])}` for SIGTERM in a worker child: terminate(force=True) relies on SIGTERM killing a child that no longer runs '
                              'Python code (blocked in a C call, interpreter lock held); with a Python-level handler the signal only sets a flag and the child survives the forced kill',
                              where=loc(f, call))
    ctx.stats['sigterm_dispositions_in_children'] = n_sig
    # the dead cache may only be set under evidence, wherever it is set (not only in wait/terminate/is_alive)
    done = {f.qualname for _, f, _, _ in us if f.name in ('wait', 'terminate', 'is_alive')}
    for name in PUBLIC:
        cls = P.cls(name)
        for c in cls.mro():
            if isinstance(c, str):
                continue
            for f in c.methods.values():
                if f.qualname in done or f.name in ('__init__',):
                    continue
                done.add(f.qualname)
                stores = [st for st in walk_local(f.node) if isinstance(st, ast.Assign) and any(is_self_attr(t, '_dead') for t in st.targets) and isinstance(st.value, ast.Constant) and st.value.value is True]
                if not stores:
                    continue
                g = ctx.an.cfg(f, c)
                lv = vars_from(f, ('is_alive',))
                ev = guard_dsts(g, tuple('not ' + v for v in lv), 'true') | guard_dsts(g, tuple(lv), 'false')
                dom = g.dominators(edge_ok=is_flow)
                for st in stores:
                    nodes = [n for n in g.nodes if n.stmt is st]
                    # start-up failure paths: the child never came up (followed by a raise / in _start of a failed server process)
                    startup = f.name in ('_start', '__setstate__')
                    ok = startup or (bool(nodes) and all(dom.get(n.id, set()) & ev for n in nodes))
                    ctx.check('R2', f'{f.short}: `_dead = True` at line {st.lineno} is set under evidence (or while starting up)', ok, f.short, f'dead-flag-without-evidence@{f.name}',
                              f'{f.short} marks the worker dead without having observed its child dead: is_alive() returns False and wait()/terminate() return True at once for a running worker',
                              where=loc(f, st))
    ctx.stats.update({'blocking_sites': n_block, 'returns': n_ret, 'guarded_uses': n_use})
    ctx.floor('blocking call sites', n_block, 12)
    ctx.floor('return statements', n_ret, 18)
    # sibling note (not armed)
    tw = P.cls('ThreadWorker').methods['wait']
    if not any(isinstance(st, ast.Raise) for st in walk_local(tw.node) if 'Negative' in norm(st)):
        ctx.note('ThreadWorker.wait lacks the negative-timeout check its siblings have (sibling inconsistency, not armed)')




def endpoint_get_honours_timeout(ctx):
    """PipeEndpoint.get(block=True, timeout=t): the blocking receive is dominated by a successful poll(t)"""
    PE = ctx.prog.cls('PipeEndpoint')
    f = PE.methods.get('get')
    if f is None or 'timeout' not in f.all_params():
        return False
    g = ctx.an.cfg(f, PE)
    good = set()
    for n in g.nodes:
        if n.kind == 'test' and isinstance(n.stmt, ast.If) and n.part in (None, 'post'):
            t = n.stmt.test
            neg = False
            if isinstance(t, ast.UnaryOp) and isinstance(t.op, ast.Not):
                t, neg = t.operand, True
            if isinstance(t, ast.Call) and last_attr(t) == 'poll' and t.args and 'timeout' in names_in(t.args[0]):
                good |= {e.dst.id for e in n.succ if e.kind == ('false' if neg else 'true')}
            # `timeout is not None and not poll(timeout)` guarding a raise: the false side has polled (whenever a timeout was given)
            if isinstance(t, ast.BoolOp) and isinstance(t.op, ast.And) and not neg and any(isinstance(x, (ast.Raise, ast.Return)) for x in n.stmt.body):
                for v in t.values:
                    if isinstance(v, ast.UnaryOp) and isinstance(v.op, ast.Not) and isinstance(v.operand, ast.Call) and last_attr(v.operand) == 'poll' \
                            and v.operand.args and 'timeout' in names_in(v.operand.args[0]):
                        good |= {e.dst.id for e in n.succ if e.kind == 'false'}
    recvs = [n for n in g.nodes if n.stmt is not None and n.part == 'eval' and any(last_attr(c) == 'recv' for c in n.calls())]
    dom = g.dominators(edge_ok=is_flow)
    return bool(recvs) and bool(good) and all(dom.get(n.id, set()) & good for n in recvs)


def start_only_attrs(ctx, cls):
    _so_cache = ctx.an.__dict__.setdefault('_start_only_cache', {})
    if cls.qualname in _so_cache:
        return _so_cache[cls.qualname]
    init_assigned, start_assigned = set(), set()
    for c in cls.mro():
        if isinstance(c, str):
            continue
        for name, f in c.methods.items():
            tgt = init_assigned if name == '__init__' else (start_assigned if name in ('_start', '_run_frontend') else None)
            if tgt is None:
                continue
            for st in walk_local(f.node):
                if isinstance(st, ast.Assign):
                    for t in st.targets:
                        for e in (t.elts if isinstance(t, ast.Tuple) else [t]):
                            if is_self_attr(e):
                                tgt.add(e.attr)
    out = start_assigned - init_assigned
    _so_cache[cls.qualname] = out
    return out
