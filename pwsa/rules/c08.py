"""C08 - Pool failure reports are sound: PoolError only when no worker is left."""
import ast

from ..astutil import (canon, edge_facts, AnalysisError, dotted, calls_in, last_attr, receiver, norm, is_name, walk_local, is_self_attr,
                       loc, short, parent_map)
from ..cfg import is_flow, path_str
from .c07 import pool_parts, call_nodes, pool_names, check_enqueue_callers, check_single_append, check_redistribution

EXPLANATION = (
    'Static decision of the failure reporting of Pool.run. R1: the only `raise PoolError` of run is dominated by `not ok`, '
    'and ok is computed after an event loop whose condition keeps the live-worker conjunct, so loop-exit and not ok imply '
    'that no live worker is left - provided every path that gives an input back marks a death. R2: partial_results is the '
    'result list (or None when results are not returned), which has a single append site (C07.R4). R3 no hand-over without '
    'death evidence: every path of try_enqueue that gives its input to handle_unused_data is dominated by evidence that the '
    'worker is dead or closed (`worker.id in self._closed`, or `not worker.is_alive()` after a failed enqueue); a path that '
    'lacks it silently drops the input of a live worker (retry off) or starves the run into PoolError("all workers have '
    'died") with every worker alive (retry on).')
TECHNIQUE = 'dominance + path analysis of the Pool.run closures'


def run(ctx):
    pool, run_f, cl = pool_parts(ctx)
    te = cl['try_enqueue']
    N = pool_names(run_f, cl)
    for k in ('ok', 'ret', 'inp'):
        ctx.require(k in N, f'Pool.run: the local playing the role `{k}` was not found')
    OK, RET = N['ok'], N['ret']
    g = ctx.an.cfg(run_f, pool)
    # ---------------------------------------------------------------- R1
    raises = [n for n in g.nodes if n.kind == 'stmt' and isinstance(n.stmt, ast.Raise) and n.stmt.exc is not None and 'PoolError' in norm(n.stmt.exc) and n.part in (None, 'eval')]
    ctx.check('R1', 'Pool.run has exactly one raise PoolError', len({id(n.stmt) for n in raises}) == 1, 'Pool.run', f'PoolError-raise-sites:{len({id(n.stmt) for n in raises})}',
              f'Pool.run raises PoolError at {len({id(n.stmt) for n in raises})} sites (expected one, after the event loop)', where=loc(run_f, run_f.node))
    all_raises = []
    for f in [run_f] + list(cl.values()):
        for st in walk_local(f.node):
            if isinstance(st, ast.Raise) and st.exc is not None and 'PoolError' in norm(st.exc):
                all_raises.append((f, st))
    ctx.check('R1', 'no closure of Pool.run raises PoolError', all(f is run_f for f, _ in all_raises), 'Pool.run', 'PoolError-in-closure',
              'a closure of Pool.run raises PoolError on a path where workers may still be alive', where=loc(all_raises[0][0], all_raises[0][1]) if all_raises else None)
    dom = g.dominators(edge_ok=is_flow)
    good = set()
    for n in g.nodes:
        if n.kind == 'test' and isinstance(n.stmt, ast.If) and norm(n.stmt.test) in ('not ' + OK, OK):
            want = 'true' if norm(n.stmt.test) == 'not ' + OK else 'false'
            for e in n.succ:
                if e.kind == want:
                    good.add(e.dst.id)
    ok = bool(raises) and all(dom.get(n.id, set()) & good for n in raises)
    ctx.check('R1', 'raise PoolError is dominated by `not ok`', ok, 'Pool.run', 'PoolError-not-guarded',
              'PoolError can be raised although the verdict says that the whole input was processed', where=loc(run_f, raises[0].stmt) if raises else None)
    # ok is assigned after the event loop, and the loop condition has the live-worker conjunct
    loops = [n for n in walk_local(run_f.node) if isinstance(n, ast.While) and any(last_attr(c) == 'wait' for c in calls_in(n))]
    ctx.require(loops, 'Pool.run: event loop not found')
    lp = loops[0]
    oks = [st for st in walk_local(run_f.node) if isinstance(st, ast.Assign) and is_name(st.targets[0], OK)]
    after = bool(oks) and all(st.lineno > lp.end_lineno for st in oks)
    ctx.check('R1', 'the verdict is computed after the event loop has ended', after, 'Pool.run', 'verdict-before-loop',
              'ok is computed before the event loop finished', where=loc(run_f, oks[0]) if oks else None)
    parts = [norm(v) for v in (lp.test.values if isinstance(lp.test, ast.BoolOp) and isinstance(lp.test.op, ast.And) else [lp.test])]
    from .c07 import denotes_live_workers
    live = any(denotes_live_workers(ctx, pool, v) for v in (lp.test.values if isinstance(lp.test, ast.BoolOp) and isinstance(lp.test.op, ast.And) else [lp.test]))
    ctx.check('R1', 'the event loop only ends with results pending when no worker is left', live and 'self._pending' in parts, 'Pool.run',
              'loop-condition:' + ' and '.join(parts), 'the event loop can end with pending results while workers are alive: PoolError would be raised with live workers',
              where=loc(run_f, lp))
    # a break out of the loop other than the documented None-message hook
    brk = [n for n in walk_local(lp) if isinstance(n, ast.Break)]
    pm = parent_map(run_f.node)
    odd = []
    for b in brk:
        cur, inner_loop, cond = b, None, None
        while cur in pm and cur is not lp:
            cur = pm[cur]
            if isinstance(cur, (ast.For, ast.While)) and cur is not lp and inner_loop is None:
                inner_loop = cur
            if isinstance(cur, ast.If) and cond is None:
                cond = norm(cur.test)
        if inner_loop is None:
            odd.append((b, cond))
    ctx.check('R1', 'nothing breaks out of the event loop itself', not odd, 'Pool.run', 'event-loop-break', 'a break leaves the event loop with workers alive and results pending',
              where=loc(run_f, odd[0][0]) if odd else None)

    # ---------------------------------------------------------------- R2 partial results
    check_single_append(ctx, run_f, cl, N, 'R2')
    pe = [st for _, st in all_raises if _ is run_f]
    ok = False
    if pe and isinstance(pe[0].exc, ast.Call):
        kw = {k.arg: k.value for k in pe[0].exc.keywords}
        v = kw.get('partial_results')
        if v is None and len(pe[0].exc.args) > 1:
            v = pe[0].exc.args[1]
        if isinstance(v, ast.IfExp):
            ok = is_name(v.body, RET) and norm(v.test) == 'return_results' and isinstance(v.orelse, ast.Constant) and v.orelse.value is None
        elif v is not None:
            ok = is_name(v, RET)
    ctx.check('R2', 'PoolError.partial_results is the result list (None when results are not returned)', ok, 'Pool.run', 'partial-results-value',
              'PoolError does not carry the results gathered so far', where=loc(run_f, pe[0]) if pe else None)
    PE = ctx.prog.cls('PoolError')
    init = PE.methods.get('__init__')
    ok = init is not None and any(isinstance(st, ast.Assign) and any(is_self_attr(t, 'partial_results') for t in st.targets) and is_name(st.value, 'partial_results')
                                  for st in walk_local(init.node))
    ctx.check('R2', 'PoolError stores partial_results', ok, 'PoolError.__init__', 'partial-results-not-stored', 'PoolError.__init__ does not keep partial_results',
              where=loc(init, init.node) if init else None)
    rets = [st for st in run_f.node.body if isinstance(st, ast.If) and norm(st.test) == 'return_results']
    ok = bool(rets) and any(isinstance(x, ast.Return) and is_name(x.value, RET) for x in rets[-1].body)
    ctx.check('R2', 'the normal return value is the result list', ok, 'Pool.run', 'return-value', 'Pool.run does not return the result list', where=loc(run_f, run_f.node))
    inits = [st for st in walk_local(run_f.node) if isinstance(st, ast.Assign) and is_name(st.targets[0], RET)]
    ok = len(inits) == 1 and isinstance(inits[0].value, ast.List) and not inits[0].value.elts
    ctx.check('R2', 'the result list starts empty in every run', ok, 'Pool.run', 'result-list-init', 'the result list is not a fresh empty list per run', where=loc(run_f, run_f.node))

    check_enqueue_callers(ctx, pool, run_f, cl, rule='R3')
    from .c09 import check_reinit
    check_reinit(ctx, pool, 'R2')
    # the counter that keeps the event loop alive is only moved by the three paired updates (shared with C07.R7): one more decrement and the loop ends with
    # results of live workers unread - PoolError although a worker is alive, or a stale result handed to the next run
    from .c07 import check_frame
    check_frame(ctx, pool, cl, 'R2')
    check_redistribution(ctx, cl, 'R1')
    from .c07 import check_enqueue_verdict
    check_enqueue_verdict(ctx, pool, cl, N, 'R1')
    # ---------------------------------------------------------------- R3 hand-over needs death evidence
    gt = ctx.an.cfg(te, pool)
    domt = gt.dominators(edge_ok=is_flow)
    evidence = set()
    wv = te.params[0] if te.params else 'worker'
    for n in gt.nodes:
        if n.kind == 'test' and isinstance(n.stmt, ast.If) and n.part in (None, 'post'):
            for e in n.succ:
                # polarity-free: the edge establishes `worker.id in self._closed` or `not worker.is_alive()`
                if e.kind in ('true', 'false') and {(f'{wv}.id in self._closed', True), (f'{wv}.is_alive()', False)} & set(edge_facts(e)):
                    evidence.add(e.dst.id)
    unused = call_nodes(gt, cl.n('handle_unused_data'))
    ctx.floor('hand-over sites in try_enqueue', len(unused), 2)
    pm = parent_map(te.node)
    for n in unused:
        ok = bool(domt.get(n.id, set()) & evidence)
        cur, role = n.stmt, 'top'
        while cur in pm:
            cur = pm[cur]
            if isinstance(cur, ast.If):
                tnames = {c.func.id for c in calls_in(cur.test) if isinstance(c.func, ast.Name)}
                if 'enqueue_fn' in tnames:
                    role = 'enqueue_fn-refused'
                elif '_closed' in norm(cur.test):
                    role = 'worker-closed'
                elif 'is_alive' in norm(cur.test):
                    role = 'worker-dead'
                else:
                    role = 'if:' + canon(cur.test)[0]
                break
            if isinstance(cur, ast.ExceptHandler):
                role = 'except'
                break
        ctx.check('R3', f'try_enqueue: the hand-over under `{role}` carries evidence that the worker is dead or closed', ok, 'Pool.run.<try_enqueue>',
                  f'handover-without-death-evidence:{role}',
                  f'try_enqueue gives an input back (handle_unused_data) under `{role}` with the worker alive and not closed: with retry disabled the input is silently '
                  'lost although a live worker could process it; with retry enabled it returns to the head of the retry list, is offered again first, and the run can drain to '
                  'PoolError("all workers have died") with every worker alive', where=loc(te, n.stmt))
