"""C02 - all worker kinds compute exactly what a direct call would."""
import ast

from ..astutil import (split_if, AnalysisError, dotted, calls_in, last_attr, receiver, norm, is_name, walk_local, is_self_attr,
                       loc, short, parent_map)
from ..cfg import is_flow, path_str
from ..lifecycle import lifecycle, worker_classes, PUBLIC
from .c01 import payload_from_work, handler_var_of

EXPLANATION = (
    'Static decision of the call path from the constructor to the target and back. R1: Worker.run has one call site of the '
    'target and forwards exactly its own *args/**kwargs; Worker.do_work forwards self._args/self._kwargs, whose only '
    'definitions are the constructor parameters (and, for remote kinds, the payload round trip, where the tuple packed by '
    '__getstate__ and the unpacking assignment in the backend / context helper list the same attributes in the same order); '
    'each child-main calls do_work() at one site, once on every fault-free path after start-up; no library frame between the '
    'child-main and the target swallows a user exception. R2: the True pair carries the do_work() result, the False pair the '
    'handler\'s exception. R3: Worker.create is folded (abstract evaluation of its string construction) for the 3 worker types '
    'x {one-shot, persistent}; the named module and class must exist and declare the same worker_type / is_persistent. '
    'R4: a worker that is not run stores (True, None) and _started = False. R5 (wait-for cycle): a parent-side join of a '
    'process whose outcome channel is only drained after death is a deadlock for results larger than the pipe buffer. R6: no timeout is installed on a socket of the remote protocol (settimeout / setdefaulttimeout / setblocking(False) / create_connection(timeout=)): _recv_exact reports a TimeoutError as a closed connection, so a call that runs longer than the timeout would lose its result for the remote kind only.')
TECHNIQUE = 'call-chain path counting, writer/reader tuple agreement, constant folding of the factory, wait-for ordering on channel sites'


# ------------------------------------------------------------------------------------------------ factory folding
class Fold(Exception):
    pass


def fold_create(func, type_name, persistent):
    env = {'worker_type': ('enum', type_name)}

    def ev(x):
        if isinstance(x, ast.Constant):
            return x.value
        if isinstance(x, ast.Name):
            if x.id in env:
                return env[x.id]
            if x.id == '__name__':
                return func.module.name
            raise Fold(f'name {x.id}')
        if isinstance(x, ast.Attribute):
            if is_name(x.value, 'cls') and x.attr == 'is_persistent':
                return persistent
            b = ev(x.value)
            if isinstance(b, tuple) and b[0] == 'enum' and x.attr == 'name':
                return b[1]
            raise Fold(f'attribute {norm(x)}')
        if isinstance(x, ast.Call):
            f = x.func
            if isinstance(f, ast.Attribute):
                if is_name(f.value, 'importlib') and f.attr == 'import_module':
                    name = ev(x.args[0])
                    pkg = None
                    for k in x.keywords:
                        if k.arg == 'package':
                            pkg = ev(k.value)
                    if len(x.args) > 1:
                        pkg = ev(x.args[1])
                    if name.startswith('.'):
                        return ('module', f'{pkg}{name}')
                    return ('module', name)
                recv = ev(f.value)
                args = [ev(a) for a in x.args]
                kw = {k.arg: ev(k.value) for k in x.keywords}
                if isinstance(recv, str) and f.attr in ('lower', 'upper', 'format', 'rsplit', 'split', 'capitalize', 'title', 'replace', 'join', 'strip'):
                    return getattr(recv, f.attr)(*args, **kw)
                raise Fold(f'call {norm(x)}')
            if is_name(f, 'getattr'):
                m, n = ev(x.args[0]), ev(x.args[1])
                if isinstance(m, tuple) and m[0] == 'module':
                    return ('class', m[1], n)
            if is_name(f, 'isinstance'):
                return True
            raise Fold(f'call {norm(x)}')
        if isinstance(x, ast.BinOp) and isinstance(x.op, ast.Add):
            return ev(x.left) + ev(x.right)
        if isinstance(x, ast.Subscript):
            b = ev(x.value)
            s = x.slice
            if isinstance(s, ast.Slice):
                lo = ev(s.lower) if s.lower else None
                hi = ev(s.upper) if s.upper else None
                return b[lo:hi]
            return b[ev(s)]
        if isinstance(x, ast.JoinedStr):
            out = ''
            for v in x.values:
                out += v.value if isinstance(v, ast.Constant) else str(ev(v.value))
            return out
        if isinstance(x, ast.UnaryOp) and isinstance(x.op, ast.Not):
            return not ev(x.operand)
        raise Fold(f'expression {norm(x)}')

    def run(stmts):
        for st in stmts:
            if (isinstance(st, ast.Expr) and isinstance(st.value, ast.Constant)) or isinstance(st, ast.Pass):
                continue
            if isinstance(st, ast.Expr) and isinstance(st.value, ast.Call) and (dotted(st.value.func) or '').startswith('logger.'):
                continue      # logging does not take part in the choice of the class
            if isinstance(st, ast.If):
                r = run(st.body if ev(st.test) else st.orelse)
                if r is not None:
                    return r
            elif isinstance(st, ast.Assign) and isinstance(st.targets[0], ast.Name):
                env[st.targets[0].id] = ev(st.value)
            elif isinstance(st, (ast.Import, ast.ImportFrom, ast.Raise)):
                if isinstance(st, ast.Raise):
                    raise Fold('raise reached')
                continue
            elif isinstance(st, ast.Return):
                v = st.value
                if isinstance(v, ast.Call) and isinstance(v.func, ast.Name) and v.func.id in env:
                    return env[v.func.id], v
                raise Fold('return')
            else:
                raise Fold(f'statement {type(st).__name__}')
        return None
    return run(func.node.body)


def const_return(func):
    rets = [st.value for st in walk_local(func.node) if isinstance(st, ast.Return)]
    if len(rets) == 1:
        return norm(rets[0])
    return None


def run(ctx):
    from ..sockets import check_blocking_sockets
    check_blocking_sockets(ctx, 'R6')
    P = ctx.prog
    W = P.cls('Worker')
    runf, dwf, create = W.methods['run'], W.methods['do_work'], W.methods['create']
    ctx.used(runf, dwf, create)

    # ---------------------------------------------------------------- R1 Worker.run / do_work
    tcalls = [c for c in calls_in(runf.node) if last_attr(c) == '_target' and receiver(c) == 'self']
    ok = ctx.check('R1', 'Worker.run: exactly one call site of the target', len(tcalls) == 1, 'Worker.run', f'target-call-sites:{len(tcalls)}',
                   f'Worker.run calls the target at {len(tcalls)} sites: the target runs {"more than once" if tcalls else "never"} per run()', where=loc(runf, runf.node))
    if ok:
        c = tcalls[0]
        fw = len(c.args) == 1 and isinstance(c.args[0], ast.Starred) and is_name(c.args[0].value, runf.vararg) and \
            len(c.keywords) == 1 and c.keywords[0].arg is None and is_name(c.keywords[0].value, runf.kwarg)
        ctx.check('R1', 'Worker.run forwards exactly *args and **kwargs', fw, 'Worker.run', f'target-call:{norm(c)}',
                  f'`{norm(c)}` does not forward the arguments of run() unchanged to the target', where=loc(runf, c))
        ret = any(isinstance(st, ast.Return) and st.value is c for st in walk_local(runf.node))
        ctx.check('R1', 'Worker.run returns the value of the target call', ret, 'Worker.run', 'target-result-dropped',
                  'Worker.run does not return what the target returned', where=loc(runf, c))
        g = ctx.an.cfg(runf, W)
        # the target call is reached on every path on which _target is not None
        post = {n.id for n in g.nodes if n.stmt is not None and n.part == 'post' and any(x is c for x in n.calls())}
        nt = [n for n in g.nodes if n.kind == 'test' and norm(n.stmt.test) == 'self._target is None']
        starts = [e.dst for n in nt for e in n.succ if e.kind == 'false'] or [g.entry]
        p = g.find_path(starts, lambda n: n is g.exit, edge_ok=lambda e: is_flow(e) and e.kind != 'exc', node_ok=lambda n: n.id not in post)
        ctx.check('R1', 'Worker.run: the target is called on every path with a target', p is None, 'Worker.run', 'target-call-skipped',
                  'a path through Worker.run returns without calling the target', where=loc(runf, runf.node), path=path_str(p or []))
    rcalls = [c for c in calls_in(dwf.node) if last_attr(c) == 'run' and receiver(c) == 'self']
    ok = len(rcalls) == 1 and len(rcalls[0].args) == 1 and isinstance(rcalls[0].args[0], ast.Starred) and is_self_attr(rcalls[0].args[0].value, '_args') \
        and len(rcalls[0].keywords) == 1 and rcalls[0].keywords[0].arg is None and is_self_attr(rcalls[0].keywords[0].value, '_kwargs') \
        and any(isinstance(st, ast.Return) and st.value is rcalls[0] for st in walk_local(dwf.node))
    ctx.check('R1', 'Worker.do_work returns self.run(*self._args, **self._kwargs)', ok, 'Worker.do_work', 'do_work-forwarding:' + (norm(rcalls[0]) if rcalls else 'none'),
              'Worker.do_work does not call run() once with the constructor\'s args and kwargs and return its value', where=loc(dwf, dwf.node))
    # _args / _kwargs definitions in the constructor
    init = W.methods['__init__']
    for attr, par in (('_args', 'args'), ('_kwargs', 'kwargs'), ('_target', 'target')):
        defs = [st for st in walk_local(init.node) if isinstance(st, ast.Assign) and any(is_self_attr(t, attr) for t in st.targets)]
        ok = len(defs) == 1 and (is_name(defs[0].value, par) or (isinstance(defs[0].value, ast.BoolOp) and isinstance(defs[0].value.op, ast.Or) and is_name(defs[0].value.values[0], par))
                                 or (isinstance(defs[0].value, ast.Call) and is_name(defs[0].value.func, 'list') and par in norm(defs[0].value)))
        ctx.check('R1', f'Worker.__init__: self.{attr} is the constructor parameter `{par}`', ok, 'Worker.__init__', f'ctor-arg-def:{attr}',
                  f'self.{attr} is not (only) defined from the constructor parameter `{par}`', where=loc(init, defs[0]) if defs else loc(init, init.node))
    # who else writes _args/_kwargs/_target
    n_w = 0
    for f in P.funcs.values():
        if f.cls is None or W not in f.cls.mro():
            continue
        for st in walk_local(f.node):
            tg = []
            if isinstance(st, ast.Assign):
                for t in st.targets:
                    tg += t.elts if isinstance(t, ast.Tuple) else [t]
            for t in tg:
                if is_self_attr(t) and t.attr in ('_args', '_kwargs', '_target'):
                    n_w += 1
                    ok = f.name == '__init__' and f.cls is W or (f.name == '_run_backend' and isinstance(st.value, ast.Call) and last_attr(st.value) == 'loads')
                    ctx.check('R1', f'{f.short}: definition of self.{t.attr} is the constructor or the payload unpacking', ok, f.short, f'foreign-def:{t.attr}',
                              f'{f.short} redefines self.{t.attr}: the target no longer runs with the constructor\'s arguments', where=loc(f, st))
    ctx.floor('definitions of _target/_args/_kwargs', n_w, 4)

    # payload round trip: writer / reader tuple agreement
    RW = P.cls('RemoteWorker')
    check_payload(ctx, RW.methods['__getstate__'], RW.methods['_run_backend'], 'remote worker')
    RC = P.cls('RemoteContext')
    check_payload(ctx, RC.methods['__getstate__'], RC.methods['_create_worker'], 'remote context')

    # child-mains call do_work once
    seen = set()
    for cls in worker_classes(P, internal=True):
        lc = lifecycle(ctx, cls)
        if lc.main.qualname in seen:
            continue
        seen.add(lc.main.qualname)
        ctx.used(lc.main)
        sites = {id(c) for n in lc.work_nodes for c in n.calls() if last_attr(c) == 'do_work'}
        ctx.check('R1', f'{lc.main.short}: one call site of do_work()', len(sites) == 1, lc.main.short, f'do_work-call-sites:{len(sites)}',
                  f'{lc.main.short} calls do_work() at {len(sites)} sites', where=loc(lc.main, lc.main.node))
        g = lc.g
        wpost = {n.id for n in g.nodes if n.stmt is not None and n.part == 'post' and any(last_attr(c) == 'do_work' for c in n.calls())}
        # after a completed do_work no path leads to another do_work
        again = g.find_path([n for n in g.nodes if n.id in wpost], lambda n: n in lc.work_nodes, edge_ok=lambda e: e.kind != 'async')
        ctx.check('R1', f'{lc.main.short}: do_work() is not re-entered', again is None, lc.main.short, 'do_work-repeated',
                  'do_work() can run twice in one child', where=loc(lc.main, lc.main.node))
        p = g.find_path(lc.primary_sync, lambda n: n is g.exit, edge_ok=lambda e: is_flow(e) and e.kind != 'exc', node_ok=lambda n: n.id not in wpost)
        ctx.check('R1', f'{lc.main.short}: every fault-free path after start-up calls do_work()', p is None, lc.main.short, 'do_work-skipped',
                  f'{lc.main.short} can finish normally without calling do_work()', where=loc(lc.main, lc.main.node), path=path_str(p or []))
        # R2 def-use of the pair
        recs = {}
        for r in lc.recorders:
            recs.setdefault(id(r.stmt), r)
        for r in recs.values():
            if r.flag is True:
                ctx.check('R2', f'{lc.main.short}: the success pair carries the do_work() result', payload_from_work(lc.main, r.payload), lc.main.short,
                          f'success-payload:{norm(r.payload)}', f'the success outcome carries `{norm(r.payload)}`, not the value returned by do_work(): result != f(*args)',
                          where=loc(lc.main, r.stmt))
            elif r.flag is False and not (isinstance(r.payload, ast.Constant) and r.payload.value is None):
                hv = handler_var_of(lc.main, r.stmt)
                ctx.check('R2', f'{lc.main.short}: the failure pair carries the caught exception', hv is not None and is_name(r.payload, hv), lc.main.short,
                          f'failure-payload:{norm(r.payload)}', f'the failure outcome carries `{norm(r.payload)}`, not the exception the target raised', where=loc(lc.main, r.stmt))
        # a user Exception raised by the target reaches a (False, e) recorder
        frec = {r.node.id for r in lc.recorders if r.flag is False and not (isinstance(r.payload, ast.Constant) and r.payload.value is None)}
        exits = {n.id for n in g.exits()}
        for wn in lc.work_nodes:
            for e in wn.succ:
                if e.kind == 'exc' and e.exc == 'UserException':
                    p = g.find_path([e.dst], lambda n: n.id in exits, edge_ok=lambda x: is_flow(x) or x.kind == 'reraise', node_ok=lambda n: n.id not in frec)
                    if lc.kind == 'remote':
                        sends = {r.node.id for r in lc.recorders if r.how == 'send'}
                        p = p or g.find_path([e.dst], lambda n: n.id in exits, edge_ok=lambda x: is_flow(x) or x.kind == 'reraise', node_ok=lambda n: n.id not in sends)
                    ctx.check('R2', f'{lc.main.short}: an Exception raised by the target is recorded as (False, e)', p is None, lc.main.short,
                              'user-exception-not-recorded', f'an exception raised by the target can leave {lc.main.short} without being reported as the error of the worker',
                              where=loc(lc.main, wn.stmt), path=path_str(p or []))
    # no library frame swallows a user exception between child-main and the target
    for name in PUBLIC + ['RemoteContextWorker']:
        cls = P.cls(name)
        for fname, callee in (('do_work', 'run'), ('run', '_target')):
            _, f = cls.resolve(fname)
            if f is None or (f.qualname, callee) in seen:
                continue
            seen.add((f.qualname, callee))
            gg = ctx.an.cfg(f, cls)
            for n in gg.nodes:
                if n.stmt is None or n.part != 'eval':
                    continue
                for e in n.succ:
                    if e.kind == 'exc' and e.cause == 'user' and e.call is not None and last_attr(e.call) == callee:
                        reach = gg.reachable([e.dst], edge_ok=lambda x: x.kind == 'reraise' or is_flow(x))
                        ctx.check('R1', f'{f.short}: {e.exc} raised in {callee}() propagates to the child-main', gg.exit.id not in reach, f.short,
                                  f'swallows-user-exception@{callee}', f'{f.short} catches an exception raised by the target and carries on: the worker reports success (or goes on) '
                                  'where a direct call would have raised', where=loc(f, n.stmt))

    # ---------------------------------------------------------------- R3 factory
    WT = P.cls('WorkerType')
    members = [k for k in WT.class_attrs]
    ctx.floor('WorkerType members', len(members), 3)
    for m in members:
        for pers in (False, True):
            try:
                res = fold_create(create, m, pers)
            except Fold as e:
                raise AnalysisError(f'Worker.create: cannot fold the class name construction ({e})')
            ctx.require(res is not None, 'Worker.create: no return reached while folding')
            target, callnode = res
            inst = f'Worker.create({m}, persistent={pers})'
            if not (isinstance(target, tuple) and target[0] == 'class'):
                ctx.check('R3', f'{inst} resolves to a class', False, 'Worker.create', f'factory:{m}:{pers}:unresolved', f'{inst} does not resolve to a class', where=loc(create, create.node))
                continue
            _, modname, clsname = target
            mod = P.modules.get(modname)
            c = mod.classes.get(clsname) if mod else None
            ok = ctx.check('R3', f'{inst} -> {modname}.{clsname} exists', c is not None, 'Worker.create', f'factory:{m}:{pers}->{modname.split(".")[-1]}.{clsname}',
                           f'{inst} builds the name {modname}.{clsname}, which does not exist: AttributeError/ImportError instead of a worker', where=loc(create, create.node))
            if not ok:
                continue
            _, wt = c.resolve('worker_type')
            _, ip = c.resolve('is_persistent')
            wtv = const_return(wt) if wt else None
            ipv = const_return(ip) if ip else None
            ctx.check('R3', f'{inst}: {clsname}.worker_type is WorkerType.{m}', wtv == f'WorkerType.{m}', 'Worker.create', f'factory:{m}:{pers}:worker_type={wtv}',
                      f'{inst} yields {clsname}, whose worker_type is {wtv}', where=loc(create, create.node))
            ctx.check('R3', f'{inst}: {clsname}.is_persistent is {pers}', ipv == str(pers), 'Worker.create', f'factory:{m}:{pers}:is_persistent={ipv}',
                      f'{inst} yields {clsname}, whose is_persistent is {ipv}', where=loc(create, create.node))
            fw = len(callnode.args) == 1 and isinstance(callnode.args[0], ast.Starred) and len(callnode.keywords) == 1 and callnode.keywords[0].arg is None
            ctx.check('R3', f'{inst}: constructor arguments are forwarded unchanged', fw, 'Worker.create', 'factory-args', 'Worker.create does not forward *args/**kwargs to the class', where=loc(create, callnode))
    ctx.check('R3', 'Worker.create rejects non-WorkerType values', any(isinstance(st, ast.If) and 'isinstance(worker_type, WorkerType)' in norm(st.test) for st in create.node.body),
              'Worker.create', 'factory-type-check', 'Worker.create does not check its worker_type argument', where=loc(create, create.node))

    # ---------------------------------------------------------------- R4 not-run outcome
    ok_store = ok_started = False
    for st in walk_local(init.node):
        sp = split_if(st, lambda t: is_name(t, 'run')) if isinstance(st, ast.If) else None
        if sp:
            for s in sp[1]:
                if isinstance(s, ast.Assign) and any(is_self_attr(t, '_result') for t in s.targets) and norm(s.value) == '(True, None)':
                    ok_store = True
                if isinstance(s, ast.Assign) and any(is_self_attr(t, '_started') for t in s.targets) and norm(s.value) == 'False':
                    ok_started = True
    # ... or the flag is computed from `run` itself
    if not ok_started:
        ok_started = any(isinstance(st, ast.Assign) and any(is_self_attr(t, '_started') for t in st.targets) and norm(st.value) in ('bool(run)', 'run is True', 'True if run else False')
                         for st in init.node.body)
    ctx.check('R4', 'a worker that is not run stores the outcome (True, None)', ok_store, 'Worker.__init__', 'not-run-outcome',
              'a worker created with run=False / without target is not given the outcome (has_error False, result None)', where=loc(init, init.node))
    ctx.check('R4', 'a worker that is not run is marked not started', ok_started, 'Worker.__init__', 'not-run-started-flag',
              'a worker that is not run is not marked _started = False: is_alive()/wait() touch a child that does not exist', where=loc(init, init.node))
    rdef = [st for st in walk_local(init.node) if isinstance(st, ast.If) and norm(st.test) == 'run is None']
    ok = bool(rdef) and any(isinstance(s, ast.Assign) and is_name(s.targets[0], 'run') and norm(s.value) == 'bool(target)' for s in rdef[0].body)
    ctx.check('R4', 'run defaults to bool(target)', ok, 'Worker.__init__', 'run-default', 'the default of `run` is not "run iff a target is given"', where=loc(init, init.node))

    # ---------------------------------------------------------------- R5 join before drain
    check_join_drain(ctx)


def check_payload(ctx, writer, reader, what):
    ctx.used(writer, reader)
    packs = [c for c in calls_in(writer.node) if last_attr(c) == 'dumps' and c.args and isinstance(c.args[0], ast.Tuple)]
    unpacks = [st for st in walk_local(reader.node) if isinstance(st, ast.Assign) and isinstance(st.targets[0], ast.Tuple) and isinstance(st.value, ast.Call) and last_attr(st.value) == 'loads']
    ok = ctx.check('R1', f'{what}: payload is packed by {writer.short} and unpacked by {reader.short}', len(packs) == 1 and len(unpacks) == 1, writer.short, f'payload-sites:{len(packs)}/{len(unpacks)}',
                   f'{what}: payload pack/unpack sites not found ({len(packs)}/{len(unpacks)})', where=loc(writer, writer.node))
    if not ok:
        return
    w = [norm(e) for e in packs[0].args[0].elts]
    r = [norm(e) for e in unpacks[0].targets[0].elts]
    ctx.check('R1', f'{what}: writer packs {w}, reader unpacks {r}', w == r, writer.short, 'payload-order:' + ','.join(w) + '->' + ','.join(r),
              f'{what}: the payload tuple is packed as {w} but unpacked as {r}: target and arguments are swapped/lost on the remote side', where=loc(reader, unpacks[0]))
    src = unpacks[0].value.args[0] if unpacks[0].value.args else None
    ctx.check('R1', f'{what}: the reader unpacks self._payload', src is not None and is_self_attr(src, '_payload'), reader.short, f'payload-source:{norm(src)}',
              f'{what}: the backend deserialises `{norm(src)}` instead of the payload', where=loc(reader, unpacks[0]))


def closure_reads(ctx, cls, f, chan, readers, depth=0, seen=None):
    """f calls (transitively, through self-methods) a function that reads the outcome channel while the child may be alive"""
    seen = seen if seen is not None else set()
    if f.qualname in seen or depth > 3:
        return False
    seen.add(f.qualname)
    for c in calls_in(f.node):
        if receiver(c) in ('self', 'super()'):
            r = ctx.prog.resolve_call(c, f, cls)
            if r and r[0] == 'func':
                if r[1] in readers or closure_reads(ctx, cls, r[1], chan, readers, depth + 1, seen):
                    return True
    return False


def check_join_drain(ctx):
    P = ctx.prog
    for name in ('ProcessWorker', 'PersistentProcessWorker'):
        cls = P.cls(name)
        lc = lifecycle(ctx, cls)
        chan = lc.outcome_channel
        # parent-side reads of the outcome channel and whether they are gated on death
        gr = lc.get_result
        g = ctx.an.cfg(gr, cls)
        reads = [n for n in g.nodes if n.stmt is not None and n.part == 'eval' and any(last_attr(c) in ('get', 'recv') and (receiver(c) or '') == f'self.{chan}.parent_end' for c in n.calls())]
        alive_tests = [n for n in g.nodes if n.kind == 'test' and 'is_alive()' in norm(n.stmt.test)]
        dom = g.dominators(edge_ok=is_flow)
        gated = bool(reads) and bool(alive_tests) and all(dom.get(r.id, set()) & {t.id for t in alive_tests} for r in reads)
        other_readers = []
        for c in cls.mro():
            if isinstance(c, str):
                continue
            for f in c.methods.values():
                if f is gr or f.name in ('_start',):
                    continue
                if any(last_attr(x) in ('get', 'recv') and (receiver(x) or '') == f'self.{chan}.parent_end' for x in calls_in(f.node)) and \
                        any((last_attr(x) == 'poll' and (receiver(x) or '') == f'self.{chan}.parent_end') or
                            ((dotted(x.func) or '').endswith('connection.wait') and f'self.{chan}.parent_end' in norm(x)) for x in calls_in(f.node)):
                    other_readers.append(f)
        for m in ('wait', 'terminate'):
            _, f = cls.resolve(m)
            if f.cls is not cls and name != 'ProcessWorker':
                continue
            joins = [c for c in calls_in(f.node) if last_attr(c) == 'join' and receiver(c) == 'self._child']
            if not joins:
                continue
            drains = f in other_readers or closure_reads(ctx, cls, f, chan, other_readers)
            ok = not gated or drains
            ctx.check('R5', f'{f.short}: the join is not part of a wait-for cycle with the result pipe', ok, f.short, f'join-before-drain:{chan}',
                      f'{f.short} joins the child process while the result pipe `{chan}` is only read by {gr.short} once the child is dead: a child sending a result '
                      '(or user_state) larger than the pipe buffer blocks in send until the parent reads, the parent reads only after the child exits - wait() never succeeds',
                      where=loc(f, joins[0]))
    # the backend sends its result and closes: the close must not be abortive (SO_LINGER on, timeout 0 discards what is still in the send buffer)
    rb = P.cls('RemoteWorker').methods['_run_backend']
    lingers = [c for c in calls_in(rb.node) if last_attr(c) == 'set_linger' and c.args and norm(c.args[0]) == 'self._socket']
    for c in lingers:
        en = c.args[1] if len(c.args) > 1 else None
        to = c.args[2] if len(c.args) > 2 else None
        abortive = isinstance(en, ast.Constant) and bool(en.value) and isinstance(to, ast.Constant) and to.value == 0
        ctx.check('R5', 'RemoteWorker._run_backend: the socket the result is sent on is not closed abortively', not abortive, 'RemoteWorker._run_backend', f'abortive-close:{norm(c)}',
                  f'`{norm(c)}` makes the close after the final send abortive: data still in the send buffer is discarded and the peer gets a reset - results larger than what the '
                  'receiver has already read are lost (has_error True, error None) on any link slower than loopback', where=loc(rb, c))
    # ... and the policy in force when the result is sent is not an inherited abortive one: SO_LINGER belongs to the connection, an accepted socket
    # inherits it from the listening socket, and the backend's socket is a copy of the accepted one.  Effective policy = the last explicit setting on
    # the chain listener -> accepted socket (accept loop) -> backend socket (before the result is sent).
    def linger_of(call):
        en = call.args[1] if len(call.args) > 1 else None
        to = call.args[2] if len(call.args) > 2 else None
        if isinstance(en, ast.Constant) and not en.value:
            return 'off'
        if isinstance(en, ast.Constant) and en.value and isinstance(to, ast.Constant):
            return 'abortive' if to.value == 0 else 'graceful'
        return 'unknown'
    RS = P.cls('RemoteServer')
    policy, chain = 'off', []
    init_s = RS.methods['__init__']
    run_s = RS.methods['run']
    ctx.used(init_s, run_s)
    listeners = []
    for mf in RS.methods.values():
        listening = {receiver(c) for c in calls_in(mf.node) if last_attr(c) == 'listen'}
        for c in calls_in(mf.node):
            if last_attr(c) == 'set_linger' and c.args and norm(c.args[0]) in listening:
                listeners.append(c)
                ctx.used(mf)
    if listeners:
        policy = linger_of(listeners[-1])
        chain.append(f'listener:{policy}')
    gsr = ctx.an.cfg(run_s, RS)
    acc = [n for n in gsr.nodes if n.stmt is not None and n.part in ('store', 'post') and any(last_attr(c) == 'accept' for c in n.calls())]
    cli_vars = [t.elts[0].id for n in acc if isinstance(n.stmt, ast.Assign) and isinstance(n.stmt.targets[0], ast.Tuple) for t in [n.stmt.targets[0]] if isinstance(t.elts[0], ast.Name)]
    if cli_vars:
        cv = cli_vars[0]
        sets = [n for n in gsr.nodes if n.stmt is not None and n.part == 'post' and any(last_attr(c) == 'set_linger' and c.args and is_name(c.args[0], cv) for c in n.calls())]
        uses = [n for n in gsr.nodes if n.stmt is not None and n.part == 'eval' and any(last_attr(c) in ('recv_msg', 'call') and any(is_name(a, cv) for a in c.args) for c in n.calls())
                and not any(last_attr(c) == 'set_linger' for c in n.calls())]
        sid = {n.id for n in sets}
        # every use of the accepted socket that can lead to a worker is reached only through the reset
        if sets and uses and gsr.find_path(acc, lambda n: n in uses, edge_ok=lambda e: is_flow(e) and e.kind != 'exc', node_ok=lambda n: n.id not in sid) is None:
            policy = linger_of([c for c in sets[-1].calls() if last_attr(c) == 'set_linger'][0])
            chain.append(f'accepted:{policy}')
    grb = ctx.an.cfg(rb, P.cls('RemoteWorker'))
    bsets = [n for n in grb.nodes if n.stmt is not None and n.part == 'post' and any(last_attr(c) == 'set_linger' and c.args and norm(c.args[0]) == 'self._socket' for c in n.calls())]
    sends = [n for n in grb.nodes if n.stmt is not None and n.part == 'eval' and any(last_attr(c) == 'send_msg' and c.args and norm(c.args[0]) == 'self._socket' for c in n.calls())]
    bid = {n.id for n in bsets}
    if bsets and sends and grb.find_path([grb.entry], lambda n: n in sends, edge_ok=lambda e: is_flow(e) and e.kind != 'exc', node_ok=lambda n: n.id not in bid) is None:
        policy = linger_of([c for c in bsets[-1].calls() if last_attr(c) == 'set_linger'][0])
        chain.append(f'backend:{policy}')
    ctx.sample({'rule': 'C02.R5', 'linger_policy_chain': chain, 'effective_when_the_result_is_sent': policy})
    ctx.check('R5', 'the connection the result travels on is not in abortive-close mode when the backend sends and closes', policy in ('off', 'graceful'), 'RemoteWorker._run_backend',
              f'result-connection-linger:{"->".join(chain) or "default"}',
              f'the effective SO_LINGER policy of the data connection when the result is sent is `{policy}` ({" -> ".join(chain) or "never set"}): an accepted socket inherits the listener\'s '
              'linger (on, 0), and unless the accept loop or the backend overrides it the last close resets the connection and discards what the parent has not read yet - '
              'a large result is lost (has_error True, error None) for the remote kind only', where=loc(rb, rb.node))
    # remote kinds: the data socket is read concurrently by the frontend thread
    RW = P.cls('RemoteWorker')
    st = RW.methods['_start']
    fe = RW.methods['_run_frontend']
    ok = any(last_attr(c) == 'Thread' for c in calls_in(st.node)) and any(last_attr(c) == '_fetch_results' for c in calls_in(fe.node))
    ctx.check('R5', 'remote kinds: the outcome is read by a frontend thread that runs concurrently with wait()/terminate()', ok, 'RemoteWorker._start', 'no-concurrent-reader',
              'the data socket is not read concurrently: large results deadlock the remote worker', where=loc(st, st.node))
