"""C05 - persistent workers process each enqueue exactly once, in order, merged args."""
import ast

from ..astutil import (AnalysisError, dotted, calls_in, last_attr, receiver, norm, is_name, walk_local, is_self_attr,
                       loc, short, parent_map)
from ..cfg import is_flow, path_str
from ..lifecycle import lifecycle

EXPLANATION = (
    'Static cross-check of the three sibling input loops (do_work of the persistent thread/process/remote kinds) against one '
    'template. R1, per iteration on the non-stop path: the positional and keyword defaults handed to run() are defined inside '
    'the iteration by copy.deepcopy(self._args/_kwargs) (pristine defaults - no loop-carried definition reaches the call); '
    'exactly one receive; the positional merge is a slice assignment A[0:len(X)] = X with X the received positional tuple; '
    'the keyword merge is K.update(Y) with Y the received keyword dict; on every path from the receive to the back-edge there '
    'is exactly one run(*A, **K) followed by exactly one _send_result(<its result>); the function returns the counter. '
    'R2: the merge target is list-typed. R3: each _send_result increments the counter by exactly one and emits exactly one '
    '(counter, True, value, self.id) tuple on the result channel whose counter field is the post-increment value; _init_child '
    'resets the counter to 0 and precedes do_work. R4: each enqueue is dominated by a guard raising WorkerClosedError when not '
    'alive or closed; each _release_child sets the closed flag on every non-early-return path; close() and wait() reach it. '
    'R5: the input channel is written only by enqueue/_release_child and read only by do_work; consumers unpack 4 fields. R4: the reader delivers what was computed - next_result ends the stream only on the end marker, never blocks on a dead worker and never reads after the end (the reader rules of C06.R3).')
TECHNIQUE = 'cross-checking sibling implementations against a template (AST + CFG path counting), def-use, who-may-write'

KINDS = ['PersistentThreadWorker', 'PersistentProcessWorker', 'PersistentRemoteWorker']


def canon_recv_parts(loop, recv_var):
    """names bound to recv_var[0] / recv_var[1] (by unpacking) -> {'name': index}"""
    out = {}
    for st in walk_local(loop):
        if isinstance(st, ast.Assign) and is_name(st.value, recv_var) and isinstance(st.targets[0], ast.Tuple) and len(st.targets[0].elts) == 2:
            for i, e in enumerate(st.targets[0].elts):
                if isinstance(e, ast.Name):
                    out[e.id] = i
    return out


def part_index(expr, recv_var, parts):
    if isinstance(expr, ast.Name) and expr.id in parts:
        return parts[expr.id]
    if isinstance(expr, ast.Subscript) and is_name(expr.value, recv_var) and isinstance(expr.slice, ast.Constant):
        return expr.slice.value
    return None


def run(ctx):
    # what was computed is delivered: the reader side of the result stream (shared with C06.R3)
    from .c06 import check_reader
    check_reader(ctx, 'R4')
    from ..frame import check_frame_attrs
    check_frame_attrs(ctx, 'C05', 'R5')
    from ..frame import check_child_thread_not_daemon
    check_child_thread_not_daemon(ctx, 'R5')
    P = ctx.prog
    results = {}
    for name in KINDS:
        cls = P.cls(name)
        _, dw = cls.resolve('do_work')
        ctx.require(dw is not None and dw.cls is cls, f'{name}.do_work override not found')
        ctx.used(dw)
        results[name] = check_loop(ctx, cls, dw)
        check_send_result(ctx, cls)
        check_guards(ctx, cls)
        check_ownership(ctx, cls)
    # sibling agreement on the template facts
    keys = sorted({k for r in results.values() for k in r})
    for k in keys:
        vals = {n: results[n].get(k) for n in KINDS}
        same = len(set(map(str, vals.values()))) == 1
        ctx.ob('R1', f'siblings agree on `{k}`: {vals}', same)
        if not same:
            odd = [n for n in KINDS if str(vals[n]) != max(set(map(str, vals.values())), key=list(map(str, vals.values())).count)]
            for n in odd:
                ctx.finding('R1', f'{n}.do_work', f'sibling-disagreement:{k}', f'{n}.do_work differs from its siblings on `{k}`: {vals}',
                            where=loc(P.cls(n).methods['do_work'], P.cls(n).methods['do_work'].node))
    # consumers
    PW = P.cls('PersistentWorker')
    nr = PW.methods['next_result']
    call = PW.methods.get('call')
    ctx.used(nr, call)
    ok = call is not None and [last_attr(c) for c in calls_in(call.node) if receiver(c) == 'self'][:2] == ['enqueue', 'next_result'] and \
        any(isinstance(st, ast.Return) and isinstance(st.value, ast.Call) and last_attr(st.value) == 'next_result' for st in walk_local(call.node))
    ctx.check('R5', 'PersistentWorker.call enqueues then returns next_result()', ok, 'PersistentWorker.call', 'call-shape',
              'call(x) is not enqueue(x) followed by returning next_result()', where=loc(call, call.node) if call else None)
    un = [st for st in walk_local(nr.node) if isinstance(st, ast.Assign) and isinstance(st.targets[0], ast.Tuple)]
    ok = bool(un) and len(un[0].targets[0].elts) == 4 and any(isinstance(st, ast.Return) and is_name(st.value, un[0].targets[0].elts[2].id) for st in walk_local(nr.node))
    ctx.check('R5', 'next_result unpacks (counter, flag, value, id) and returns the value', ok, 'PersistentWorker.next_result', 'consumer-unpack',
              'next_result does not unpack the 4-field result message / does not return its value field', where=loc(nr, nr.node))


def check_loop(ctx, cls, dw):
    facts = {}
    name = cls.name
    F = f'{name}.do_work'
    loops = [n for n in dw.node.body if isinstance(n, ast.While)]
    ctx.require(len(loops) == 1, f'{F}: expected one top-level input loop')
    lp = loops[0]
    g = ctx.an.cfg(dw, cls)
    # loop condition involves the stop flag (or `while True` with an `if self._stop: break`)
    cond = norm(lp.test)
    stop_ok = 'self._stop' in cond or any(isinstance(st, ast.If) and 'self._stop' in norm(st.test) and any(isinstance(x, ast.Break) for x in st.body) for st in lp.body)
    ctx.check('R1', f'{F}: the loop ends when the stop flag is set', stop_ok, F, 'no-stop-flag-test', 'the input loop never looks at the stop flag set by close() on the child side',
              where=loc(dw, lp))
    # the run call
    runs = [c for c in calls_in(lp) if last_attr(c) == 'run' and receiver(c) == 'self']
    ok = ctx.check('R1', f'{F}: exactly one run() call site in the loop', len(runs) == 1, F, f'run-call-sites:{len(runs)}',
                   f'the loop body has {len(runs)} call sites of self.run (expected one)', where=loc(dw, lp))
    if not ok:
        return facts
    rc = runs[0]
    star = [a.value for a in rc.args if isinstance(a, ast.Starred)]
    dstar = [k.value for k in rc.keywords if k.arg is None]
    ok = ctx.check('R1', f'{F}: run(*A, **K) forwards merged positional and keyword arguments', len(star) == 1 and len(dstar) == 1 and len(rc.args) == 1 and len(rc.keywords) == 1
                   and isinstance(star[0], ast.Name) and isinstance(dstar[0], ast.Name), F, f'run-args:{norm(rc)}',
                   f'`{norm(rc)}` does not forward exactly the merged *args and **kwargs', where=loc(dw, rc))
    if not ok:
        return facts
    A, K = star[0].id, dstar[0].id
    # definitions of A and K
    for var, attr, what in ((A, '_args', 'positional'), (K, '_kwargs', 'keyword')):
        defs_in = [st for st in walk_local(lp) if isinstance(st, ast.Assign) and any(is_name(t, var) for t in st.targets)]
        defs_all = [st for st in walk_local(dw.node) if isinstance(st, ast.Assign) and any(is_name(t, var) for t in st.targets)]
        pristine = len(defs_in) == 1 and len(defs_all) == 1 and defs_in[0] in lp.body
        ctx.check('R1', f'{F}: {what} defaults are (re)defined once per iteration, unconditionally', pristine, F, f'defaults-not-per-iteration:{what}',
                  f'the {what} defaults handed to run() are not re-created at the top level of every iteration: a call can see what an earlier call did to its arguments',
                  where=loc(dw, defs_all[0]) if defs_all else loc(dw, lp))
        if defs_all:
            v = defs_all[0].value
            dc = [c for c in calls_in(v) if (dotted(c.func) or '') == 'copy.deepcopy' and c.args and is_self_attr(c.args[0], attr)]
            ctx.check('R1', f'{F}: {what} defaults are copy.deepcopy(self.{attr})', bool(dc), F, f'defaults-not-deepcopied:{what}:{norm(v)}',
                      f'the {what} defaults are built by `{norm(v)}`, not by copy.deepcopy(self.{attr}): calls share (parts of) the default objects',
                      where=loc(dw, defs_all[0]))
            facts[f'{what}-copy'] = 'deepcopy' if dc else norm(v)
            # nothing defined outside the iteration may flow into the per-call defaults (a memo dict, a cached copy, ...)
            outer_defs = {t.id for st in walk_local(dw.node) if isinstance(st, (ast.Assign, ast.AugAssign)) and not any(st is x for x in ast.walk(lp))
                          for t in (st.targets if isinstance(st, ast.Assign) else [st.target]) if isinstance(t, ast.Name)}
            used = {n.id for n in ast.walk(v) if isinstance(n, ast.Name)}
            carried = sorted(used & outer_defs)
            ctx.check('R1', f'{F}: the {what} defaults of a call do not depend on state carried over from earlier iterations', not carried, F,
                      f'defaults-loop-carried:{what}:' + ','.join(carried),
                      f'the {what} defaults are built from `{norm(v)}`, which uses {carried} defined outside the loop: state of earlier calls (e.g. a deepcopy memo that returns the '
                      'copies made for the first call) reaches later calls - they do not see pristine defaults', where=loc(dw, defs_all[0]))
            extra_args = [a for c in dc for a in c.args[1:]] + [k for c in dc for k in c.keywords]
            ctx.check('R1', f'{F}: copy.deepcopy is called without a caller-supplied memo', not extra_args, F, f'deepcopy-with-memo:{what}',
                      'copy.deepcopy is given a memo: objects already copied for an earlier call are returned again instead of fresh copies', where=loc(dw, defs_all[0]))
            if what == 'positional':
                listy = (isinstance(v, ast.Call) and is_name(v.func, 'list')) or isinstance(v, ast.List) or \
                    (isinstance(v, ast.BinOp) and isinstance(v.left, ast.List))
                # a normalised attribute: Worker.__init__ stores list(args or [])
                if not listy and dc:
                    W = ctx.prog.cls('Worker')
                    init = W.methods['__init__']
                    def is_listy(e):
                        return (isinstance(e, ast.Call) and is_name(e.func, 'list')) or isinstance(e, ast.List)
                    for st in walk_local(init.node):
                        if isinstance(st, ast.Assign) and any(is_self_attr(t, attr) for t in st.targets):
                            listy = is_listy(st.value)
                    # ... but the constructor is not the only writer: load-time patches inject the attribute into workers created in a context
                    # ({'_args': <expr>} handed to the unpickler) - every injected value must be list-typed as well
                    for f2 in ctx.prog.funcs.values():
                        for d in ast.walk(f2.node):
                            if isinstance(d, ast.Dict):
                                for k, v2 in zip(d.keys, d.values):
                                    if isinstance(k, ast.Constant) and k.value == attr:
                                        src_ok = is_listy(v2)
                                        if is_self_attr(v2) and f2.cls is not None:
                                            stores = [st for m in f2.cls.methods.values() for st in walk_local(m.node)
                                                      if isinstance(st, ast.Assign) and any(is_self_attr(t, v2.attr) for t in st.targets)]
                                            src_ok = bool(stores) and all(is_listy(st.value) for st in stores)
                                        if not src_ok:
                                            listy = False
                ctx.check('R2', f'{F}: the target of the slice merge is list-typed', listy, F, f'merge-target-not-list:{norm(v)}',
                          f'the positional defaults `{norm(v)}` keep the type the user passed: with a tuple the slice assignment raises TypeError on the first enqueue',
                          where=loc(dw, defs_all[0]))
    # the receive
    recvs = []
    for c in calls_in(lp):
        if last_attr(c) in ('get', 'recv') and (receiver(c) or '').startswith('self._args_pipe'):
            recvs.append(c)
        if last_attr(c) == 'recv_msg' and c.args and norm(c.args[0]) == 'self._socket':
            recvs.append(c)
    ok = ctx.check('R1', f'{F}: exactly one receive per iteration', len(recvs) == 1, F, f'receives:{len(recvs)}',
                   f'{len(recvs)} receives on the input channel per iteration (expected one)', where=loc(dw, lp))
    if not ok:
        return facts
    rv = None
    for st in walk_local(lp):
        if isinstance(st, ast.Assign) and st.value is recvs[0] and isinstance(st.targets[0], ast.Name):
            rv = st.targets[0].id
    ctx.require(rv is not None, f'{F}: received value is not bound to a variable')
    parts = canon_recv_parts(lp, rv)
    # positional merge
    merges = [st for st in walk_local(lp) if isinstance(st, ast.Assign) and isinstance(st.targets[0], ast.Subscript) and is_name(st.targets[0].value, A)]
    okm = False
    detail = 'no slice assignment into the positional defaults'
    if len(merges) == 1:
        sl = merges[0].targets[0].slice
        val = merges[0].value
        vi = part_index(val, rv, parts)
        if isinstance(sl, ast.Slice) and (sl.lower is None or (isinstance(sl.lower, ast.Constant) and sl.lower.value == 0)) and sl.step is None \
                and isinstance(sl.upper, ast.Call) and is_name(sl.upper.func, 'len') and sl.upper.args and part_index(sl.upper.args[0], rv, parts) == 0 and vi == 0:
            okm = True
        else:
            detail = f'`{norm(merges[0])}` is not A[0:len(X)] = X with X the received positional arguments'
    elif len(merges) > 1:
        detail = f'{len(merges)} slice assignments into the positional defaults'
    ctx.check('R1', f'{F}: positional merge is A[0:len(X)] = X', okm, F, 'positional-merge:' + (norm(merges[0]) if merges else 'none'),
              f'the enqueued positional arguments do not replace exactly the leading defaults: {detail}', where=loc(dw, merges[0]) if merges else loc(dw, lp))
    facts['positional-merge'] = okm
    ups = [c for c in calls_in(lp) if last_attr(c) == 'update' and receiver(c) == K]
    oku = len(ups) == 1 and len(ups[0].args) == 1 and part_index(ups[0].args[0], rv, parts) == 1
    ctx.check('R1', f'{F}: keyword merge is K.update(Y)', oku, F, 'keyword-merge:' + (norm(ups[0]) if ups else 'none'),
              'the enqueued keyword arguments do not override the default ones (no K.update(<received kwargs>))', where=loc(dw, ups[0]) if ups else loc(dw, lp))
    facts['keyword-merge'] = oku
    # run then _send_result exactly once on every path receive -> back edge
    sends = [c for c in calls_in(lp) if last_attr(c) == '_send_result' and receiver(c) == 'self']
    oks = ctx.check('R1', f'{F}: exactly one _send_result() call site in the loop', len(sends) == 1, F, f'send-result-sites:{len(sends)}',
                    f'{len(sends)} call sites of _send_result in the loop (expected one)', where=loc(dw, lp))
    if oks:
        sc = sends[0]
        # its argument is the result of run
        res_ok = False
        if sc.args and isinstance(sc.args[0], ast.Name):
            for st in walk_local(lp):
                if isinstance(st, ast.Assign) and st.value is rc and is_name(st.targets[0], sc.args[0].id):
                    res_ok = True
        elif sc.args and sc.args[0] is rc:
            res_ok = True
        ctx.check('R1', f'{F}: _send_result() is given the value returned by run()', res_ok, F, f'send-result-arg:{norm(sc)}',
                  f'`{norm(sc)}` does not send the value returned by run()', where=loc(dw, sc))
        run_post = {n.id for n in g.nodes if n.stmt is not None and n.part == 'post' and any(x is rc for x in n.calls())}
        send_post = {n.id for n in g.nodes if n.stmt is not None and n.part == 'post' and any(x is sc for x in n.calls())}
        heads = [n for n in g.nodes if n.kind == 'join' and n.stmt is lp]
        # start: after the unpack of the received value (non-stop path)
        unpack_nodes = [n for n in g.nodes if n.stmt is not None and n.part in (None, 'store') and isinstance(n.stmt, ast.Assign) and is_name(n.stmt.value, rv)]
        starts = unpack_nodes or [n for n in g.nodes if n.stmt is not None and n.part == 'post' and any(x is recvs[0] for x in n.calls())]
        back = lambda n: n in heads
        p1 = g.find_path(starts, back, edge_ok=is_flow, node_ok=lambda n: n.id not in run_post)
        p2 = g.find_path(starts, back, edge_ok=is_flow, node_ok=lambda n: n.id not in send_post)
        ctx.check('R1', f'{F}: every non-stop iteration calls run()', p1 is None, F, 'iteration-skips-run',
                  'an iteration can reach the next receive without calling the target', where=loc(dw, rc), path=path_str(p1 or []))
        ctx.check('R1', f'{F}: every non-stop iteration sends its result', p2 is None, F, 'iteration-skips-send',
                  'an iteration can reach the next receive without sending the result of the call', where=loc(dw, sc), path=path_str(p2 or []))
        # order: send after run
        p3 = g.find_path(starts, lambda n: n.id in send_post, edge_ok=is_flow, node_ok=lambda n: n.id not in run_post)
        ctx.check('R1', f'{F}: run() precedes _send_result()', p3 is None, F, 'send-before-run', 'a result is sent before the target has been called', where=loc(dw, sc))
        # at most once: from after run, reaching run again requires passing the loop head
        p4 = g.find_path([n for n in g.nodes if n.id in run_post], lambda n: n.id in run_post and False, edge_ok=is_flow)
    # returns the counter
    rets = [st for st in dw.node.body if isinstance(st, ast.Return)]
    okr = bool(rets) and is_self_attr(rets[-1].value)
    ctx.check('R1', f'{F}: returns the result counter', okr, F, 'return-not-counter:' + (norm(rets[-1].value) if rets else 'none'),
              'do_work does not return the counter of delivered results: `result` of a finished persistent worker is wrong', where=loc(dw, rets[-1]) if rets else loc(dw, dw.node))
    facts['returns'] = norm(rets[-1].value) if rets else None
    return facts


def check_send_result(ctx, cls, rule='R3'):
    _, sr = cls.resolve('_send_result')
    ctx.require(sr is not None, f'{cls.name}._send_result not found')
    ctx.used(sr)
    F = sr.short
    lc = lifecycle(ctx, cls)
    counter = None
    incs = [st for st in walk_local(sr.node) if isinstance(st, ast.AugAssign) and is_self_attr(st.target) and isinstance(st.op, ast.Add)]
    incs += [st for st in walk_local(sr.node) if isinstance(st, ast.Assign) and is_self_attr(st.targets[0]) and isinstance(st.value, ast.BinOp)
             and isinstance(st.value.op, ast.Add) and is_self_attr(st.value.left, st.targets[0].attr)]
    ok = ctx.check(rule, f'{F}: increments the counter exactly once', len(incs) == 1, F, f'counter-increments:{len(incs)}',
                   f'_send_result increments the result counter {len(incs)} times per result: `result` and the end marker disagree with the number of delivered results',
                   where=loc(sr, sr.node))
    if not ok:
        return
    inc = incs[0]
    counter = inc.target.attr if isinstance(inc, ast.AugAssign) else inc.targets[0].attr
    by = inc.value if isinstance(inc, ast.AugAssign) else inc.value.right
    ctx.check(rule, f'{F}: the increment is by one', isinstance(by, ast.Constant) and by.value == 1, F, f'counter-step:{norm(by)}',
              f'the counter is advanced by {norm(by)} per result', where=loc(sr, inc))
    # the emission
    emits = []

    def tuple_of(a):
        # the message itself, or a local that was bound (once) to it
        if isinstance(a, ast.Name):
            defs = [st.value for st in walk_local(sr.node) if isinstance(st, ast.Assign) and len(st.targets) == 1 and is_name(st.targets[0], a.id)]
            if len(defs) == 1:
                a = defs[0]
        return a if isinstance(a, ast.Tuple) else None
    for c in calls_in(sr.node):
        if last_attr(c) in ('put', 'send') and c.args and tuple_of(c.args[0]) is not None:
            emits.append((c, tuple_of(c.args[0]), receiver(c)))
        if last_attr(c) == 'send_msg' and len(c.args) >= 2 and tuple_of(c.args[1]) is not None:
            emits.append((c, tuple_of(c.args[1]), norm(c.args[0])))
    ok = ctx.check(rule, f'{F}: emits exactly one message', len(emits) == 1, F, f'emissions:{len(emits)}', f'_send_result emits {len(emits)} messages per result',
                   where=loc(sr, sr.node))
    if not ok:
        return
    c, t, chan = emits[0]
    param = sr.params[1] if len(sr.params) > 1 else None
    shape = len(t.elts) == 4 and isinstance(t.elts[1], ast.Constant) and t.elts[1].value is True and is_name(t.elts[2], param) and norm(t.elts[3]) == 'self.id'
    ctx.check(rule, f'{F}: the message is (counter, True, <result>, self.id)', shape, F, f'result-message-shape:{norm(t)}',
              f'the result message `{norm(t)}` does not have the (counter, True, value, worker id) shape', where=loc(sr, c))
    want = 'self._socket' if lc.kind == 'remote' else 'self._results_pipe.child_end'
    ctx.check(rule, f'{F}: the message goes to the result channel', chan == want, F, f'result-channel:{chan}', f'results are written to `{chan}` instead of `{want}`', where=loc(sr, c))
    if len(t.elts) == 4:
        before = inc.lineno < c.lineno
        cexp = norm(t.elts[0])
        ok = (before and cexp == f'self.{counter}') or (not before and cexp == f'self.{counter} + 1')
        ctx.check(rule, f'{F}: the counter field is the post-increment value (first result is number 1)', ok, F,
                  f'counter-field:{cexp}:{"inc-first" if before else "send-first"}',
                  f'the counter field `{cexp}` does not number results 1, 2, 3, ... (increment {"before" if before else "after"} the emission)', where=loc(sr, c))
    # _init_child resets the counter and precedes do_work
    _, ic = cls.resolve('_init_child')
    reset = False
    cur = ic
    depth = 0
    while cur is not None and depth < 4:
        if any(isinstance(st, ast.Assign) and any(is_self_attr(x, counter) for x in st.targets) and isinstance(st.value, ast.Constant) and st.value.value == 0
               for st in walk_local(cur.node)):
            reset = True
            break
        nxt = None
        for x in calls_in(cur.node):
            r = ctx.prog.resolve_call(x, cur, cls)
            if r and r[0] == 'func' and r[1].name == '_init_child' and r[1] is not cur:
                nxt = r[1]
        cur = nxt
        depth += 1
    ctx.check(rule, f'{cls.name}: _init_child resets the counter to 0', reset, ic.short if ic else cls.name, f'counter-not-reset:{counter}',
              'the child never resets its result counter: a restarted worker does not count from zero', where=loc(ic, ic.node) if ic else None)
    g = lc.g
    ic_post = {n.id for n in g.nodes if n.stmt is not None and n.part == 'post' and any(last_attr(x) == '_init_child' for x in n.calls())}
    dom = g.dominators(edge_ok=is_flow)
    ok = bool(lc.work_nodes) and all(dom.get(w.id, set()) & ic_post for w in lc.work_nodes)
    ctx.check(rule, f'{cls.name}: _init_child() precedes do_work() in {lc.main.short}', ok, lc.main.short, 'init-child-not-before-work',
              'do_work() can run without _init_child() having reset the child-side state', where=loc(lc.main, lc.main.node))


def check_guards(ctx, cls):
    _, enq = cls.resolve('enqueue')
    _, rel = cls.resolve('_release_child')
    ctx.used(enq, rel)
    F = enq.short
    g = ctx.an.cfg(enq, cls)
    # guard: an if whose test has `not self.is_alive()` and `self._closed` as disjuncts and whose body raises WorkerClosedError
    guard = None
    for st in walk_local(enq.node):
        if isinstance(st, ast.If) and any(isinstance(x, ast.Raise) and 'WorkerClosedError' in norm(x.exc) for x in st.body):
            guard = st
    ok = guard is not None
    dis = []
    if ok:
        t = guard.test
        dis = [norm(v) for v in (t.values if isinstance(t, ast.BoolOp) and isinstance(t.op, ast.Or) else [t])]
    ctx.check('R4', f'{F}: rejects with WorkerClosedError when not alive', ok and 'not self.is_alive()' in dis, F, 'guard-missing:not-alive',
              'enqueue() on a dead worker does not raise WorkerClosedError', where=loc(enq, guard or enq.node))
    ctx.check('R4', f'{F}: rejects with WorkerClosedError when closed', ok and 'self._closed' in dis, F, 'guard-missing:closed',
              'enqueue() after close() does not raise WorkerClosedError: the input is written behind the stop token and silently lost', where=loc(enq, guard or enq.node))
    if ok:
        writes = [n for n in g.nodes if n.stmt is not None and n.part == 'eval' and any(
            (last_attr(c) in ('put', 'send') and (receiver(c) or '').startswith('self._args_pipe')) or
            (last_attr(c) == 'send_msg' and c.args and norm(c.args[0]) == 'self._socket') for c in n.calls())]
        gnodes = {n.id for n in g.nodes if n.kind == 'test' and n.stmt is guard}
        dom = g.dominators(edge_ok=is_flow)
        okd = bool(writes) and all(dom.get(w.id, set()) & gnodes for w in writes)
        ctx.check('R4', f'{F}: the guard dominates the write to the input channel', okd, F, 'guard-not-dominating',
                  'the input channel can be written without passing the closed/dead guard', where=loc(enq, enq.node))
    # _release_child sets the closed flag on every non-early-return path (parent region)
    R = rel.short
    gr = ctx.an.cfg(rel, cls)
    sets = {n.id for n in gr.nodes if n.stmt is not None and n.part in (None, 'store') and isinstance(n.stmt, ast.Assign)
            and any(is_self_attr(t, '_closed') for t in n.stmt.targets) and isinstance(n.stmt.value, ast.Constant) and n.stmt.value.value is True}
    tokens = [n for n in gr.nodes if n.stmt is not None and n.part == 'post' and any(
        (last_attr(c) in ('put', 'send') and c.args and isinstance(c.args[0], ast.Constant) and c.args[0].value is None) or
        (last_attr(c) == 'send_msg' and len(c.args) >= 2 and isinstance(c.args[1], ast.Constant) and c.args[1].value is None) for c in n.calls())]
    tok_eval = [n for n in gr.nodes if n.stmt is not None and n.part == 'eval' and any(t.stmt is n.stmt for t in tokens)]
    ctx.check('R4', f'{R}: writes the stop token', bool(tokens), R, 'no-stop-token', '_release_child never writes the stop token', where=loc(rel, rel.node))
    if tokens:
        # from the token write (completed or failed) every path to the exit sets the flag
        starts = tokens + [e.dst for n in tok_eval for e in n.succ if e.kind == 'exc']
        p = gr.find_path(starts, lambda n: n is gr.exit, edge_ok=lambda e: e.kind != 'async' and (is_flow(e) or e.kind in ('reraise',)), node_ok=lambda n: n.id not in sets)
        ctx.check('R4', f'{R}: the closed flag is set once the stop token has been written', p is None and bool(sets), R, 'closed-flag-not-set',
                  '_release_child writes the stop token but does not mark the worker closed: a later enqueue() is accepted and silently lost behind the stop token',
                  where=loc(rel, rel.node), path=path_str(p or []))
    # close() and wait() reach _release_child
    for m in ('close', 'wait'):
        _, f = cls.resolve(m)
        reach = reaches_call(ctx, cls, f, '_release_child', set())
        ctx.check('R4', f'{cls.name}.{m}() reaches _release_child()', reach, f.short, f'{m}-does-not-release',
                  f'{m}() never tells the child that no more input is coming: wait() would block forever', where=loc(f, f.node))


def reaches_call(ctx, cls, func, name, seen, depth=0):
    if func is None or func.qualname in seen or depth > 4:
        return False
    seen.add(func.qualname)
    for c in calls_in(func.node):
        if last_attr(c) == name and receiver(c) == 'self':
            return True
        r = ctx.prog.resolve_call(c, func, cls)
        if r and r[0] == 'func' and receiver(c) in ('self', 'super()') and reaches_call(ctx, cls, r[1], name, seen, depth + 1):
            return True
    return False


FLAG_WRITERS = {
    # attribute -> {function name: allowed constant values (None = any)}
    '_closed': {'__init__': {False}, '_release_child': {True}},
    '_socket_closed': {'__init__': {False}, '_release_child': {True}, 'enqueue': {True}, '_fetch_results': {True}},
    '_counter': {'__init__': None, '_init_child': None, '_send_result': None},
    '_stop': {'__init__': {False}, '_init_child': {False}, 'close': {True}, '_release_child': {True}},
}


def check_flag_writers(ctx, cls):
    n = 0
    for c in cls.mro():
        if isinstance(c, str):
            continue
        for f in c.methods.values():
            for st in walk_local(f.node):
                targets = st.targets if isinstance(st, ast.Assign) else ([st.target] if isinstance(st, ast.AugAssign) else [])
                for t in targets:
                    for el in (t.elts if isinstance(t, ast.Tuple) else [t]):
                        if is_self_attr(el) and el.attr in FLAG_WRITERS:
                            n += 1
                            allowed = FLAG_WRITERS[el.attr].get(f.name, 'no')
                            val = st.value.value if isinstance(getattr(st, 'value', None), ast.Constant) else '?'
                            ok = allowed != 'no' and (allowed is None or val in allowed)
                            ctx.check('R4', f'{f.short}: `{norm(st)}` is one of the known updates of the stream state', ok, f.short, f'unexpected-state-update:{el.attr}={val}@{f.name}',
                                      f'{f.short} sets self.{el.attr} (`{norm(st)}`) outside the protocol: '
                                      + {'_closed': 'a closed worker accepts enqueues again (inputs written behind the stop token are lost) or an open one refuses them',
                                         '_socket_closed': 'the closed-connection state of the worker is wrong', '_counter': 'the result counter no longer equals the number of delivered results',
                                         '_stop': 'the input loop stops early or never stops'}[el.attr], where=loc(f, st))
    return n


def check_ownership(ctx, cls):
    n_fw = check_flag_writers(ctx, cls)
    ctx.floor(f'{cls.name}: stream-state updates', n_fw, 5)
    lc = lifecycle(ctx, cls)
    if lc.kind == 'remote':
        return
    n = 0
    for c in cls.mro():
        if isinstance(c, str):
            continue
        for f in c.methods.values():
            for call in calls_in(f.node):
                r = receiver(call) or ''
                if not r.startswith('self._args_pipe.'):
                    continue
                m = last_attr(call)
                if m in ('put', 'send'):
                    n += 1
                    ctx.check('R5', f'{f.short}: write to the input channel is made by enqueue/_release_child', f.name in ('enqueue', '_release_child'), f.short,
                              f'foreign-input-writer:{f.name}', f'{f.short} writes to the input channel: inputs are no longer exactly the enqueues, in order', where=loc(f, call))
                if m in ('get', 'recv', 'get_nowait'):
                    n += 1
                    ctx.check('R5', f'{f.short}: read of the input channel is made by do_work', f.name == 'do_work', f.short,
                              f'foreign-input-reader:{f.name}', f'{f.short} reads from the input channel: an enqueued input can be consumed without being processed', where=loc(f, call))
    ctx.floor(f'{cls.name}: input channel operations', n, 3)
