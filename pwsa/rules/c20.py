"""C20 - creating a worker returns a usable worker or raises, it never hangs."""
import ast

from ..astutil import (conjuncts, edge_facts, AnalysisError, dotted, calls_in, last_attr, receiver, norm, is_name, walk_local, is_self_attr,
                       loc, short, parent_map)
from ..cfg import is_flow, path_str
from ..lifecycle import worker_classes

EXPLANATION = (
    'Static decision of the start-up handshakes. R1: for every untimed Event.wait() in a function that starts a thread (the '
    '_start implementations, the child-main waiting for its control thread, the server-side __setstate__), the CFG of the '
    'started thread function - exception edges included - passes the matching set() on every exit: no failure of the '
    'handshake can leave the constructor waiting. R2: every blocking receive of the first message of a freshly spawned '
    'process (ProcessWorker._start, RemoteServerProcess._start, server-side RemoteWorker.__setstate__) is dominated by a '
    'multiprocessing.connection.wait([... pipe end ..., <process>.sentinel]) whose result is tested for the pipe end: a '
    'child that dies while starting cannot block its creator; the accept() of the control connection is multiplexed with the '
    'client data socket the same way. R3: the failure path of the remote constructor joins the frontend thread, which closes '
    'its sockets, and re-raises. R4: registration as an active child is dominated by the completed _start(). R5: every `mp.connection.wait` has a reason why multiprocessing.connection is imported at that point (see C11.R5) - a start-up wait that fails with AttributeError leaves the client of a stand-alone server without a worker. R6: on the child side, every blocking read of a pipe end is preceded by the close of the child\'s inherited copy of the opposite end (in the same function, or in the _init_child hook), unless the child itself writes to that end - otherwise the death of the peer never produces EOF and the child (holding copies of the sockets) is left behind with the constructor blocked.')
TECHNIQUE = 'must-pass-through on the CFG with exception edges, multiplexed-wait recogniser with dominators'


def thread_creations(func):
    out = []
    for st in walk_local(func.node):
        if isinstance(st, ast.Assign) and isinstance(st.value, ast.Call) and last_attr(st.value) == 'Thread' and is_self_attr(st.targets[0]):
            tgt = [k.value for k in st.value.keywords if k.arg == 'target']
            if tgt and is_self_attr(tgt[0]):
                out.append((st.targets[0].attr, tgt[0].attr, st))
    return out


def untimed_waits(func):
    out = []
    for c in calls_in(func.node):
        if last_attr(c) == 'wait' and not c.args and not c.keywords and (receiver(c) or '').startswith('self.') and (receiver(c) or '').count('.') == 1:
            out.append(c)
    return out


def run(ctx):
    from ..submodule import check_submodule_use
    check_submodule_use(ctx, 'R5')
    from ..frame import check_frame_attrs
    check_frame_attrs(ctx, 'C20', 'R4')
    P = ctx.prog
    # ---------------------------------------------------------------- R1
    n_pairs = 0
    seen = set()
    for cls in worker_classes(P, internal=True):
        for c in cls.mro():
            if isinstance(c, str):
                continue
            for f in c.methods.values():
                waits = untimed_waits(f)
                threads = thread_creations(f)
                if not waits or not threads:
                    continue
                for w in waits:
                    ev = receiver(w).split('.')[1]
                    # the thread started last before the wait
                    cands = [t for t in threads if t[2].lineno < w.lineno]
                    if not cands:
                        continue
                    tattr, target, tst = cands[-1]
                    _, tf = cls.resolve(target)
                    if tf is None:
                        raise AnalysisError(f'{f.short}: thread target {target} not resolvable for {cls.name}')
                    key = (f.qualname, ev, tf.qualname)
                    if key in seen:
                        continue
                    seen.add(key)
                    n_pairs += 1
                    ctx.used(f, tf)
                    g = ctx.an.cfg(tf, cls)
                    set_ids = {n.id for n in g.nodes if n.stmt is not None and n.part == 'post' and any(
                        last_attr(x) == 'set' and receiver(x) == f'self.{ev}' for x in n.calls())}
                    exits = {n.id for n in g.exits()}
                    p = g.find_path([g.entry], lambda n: n.id in exits, edge_ok=lambda e: e.kind != 'async', node_ok=lambda n: n.id not in set_ids)
                    ctx.check('R1', f'{f.short} waits (untimed) on {ev}: every exit of {tf.short} passes {ev}.set()', p is None and bool(set_ids),
                              tf.short, f'exit-without-set:{ev}' + (':' + (p[-1].dst.label or 'return') if p else ''),
                              f'{f.short} waits for self.{ev} without a timeout, but {tf.short} can end '
                              + (f'(by {p[-1].dst.label})' if p and p[-1].dst.kind == 'raise' else '') +
                              f' without setting it: a failure during start-up hangs the constructor forever', where=loc(tf, tf.node), path=path_str(p or []))
    ctx.floor('untimed start-up waits paired with a thread function', n_pairs, 4)

    # ---------------------------------------------------------------- R2 sentinel-guarded start-up receives
    sites = []
    PW = P.cls('ProcessWorker')
    RW = P.cls('RemoteWorker')
    cands = [(PW, PW.methods['_start'])]
    for c in P.subclasses(PW):
        if '_start' in c.methods:
            cands.append((c, c.methods['_start']))
    cands.append((RW, RW.methods['__setstate__']))
    n_recv = 0
    for cls, f in cands:
        ctx.used(f)
        g = ctx.an.cfg(f, cls)
        dom = g.dominators(edge_ok=lambda e: e.kind != 'async')
        for c in calls_in(f.node):
            r = receiver(c) or ''
            if last_attr(c) in ('recv', 'get') and r.startswith('self.') and r.endswith('.parent_end') and not c.args:
                n_recv += 1
                pipe = r
                rn = [n for n in g.nodes if n.stmt is not None and n.part == 'eval' and any(x is c for x in n.calls())]
                ok, why = guarded_by_wait(g, dom, f, rn, pipe, '.sentinel')
                ctx.check('R2', f'{f.short}: start-up receive on {pipe} is multiplexed with the child\'s sentinel', ok, f.short,
                          f'bare-startup-recv:{pipe}',
                          f'{f.short} reads the first message of the freshly spawned process with a bare {last_attr(c)}() ({why}): a child that dies while '
                          'starting never sends it and its creator (constructor / server accept loop) blocks forever', where=loc(f, c))
                if ok and f.name == '_start':
                    check_startup_report_consumed(ctx, 'R2', cls, f, g, c, pipe)
            if last_attr(c) == 'accept' and f.name == '__setstate__':
                n_recv += 1
                rn = [n for n in g.nodes if n.stmt is not None and n.part == 'eval' and any(x is c for x in n.calls())]
                lst = receiver(c)
                ok, why = guarded_by_wait(g, dom, f, rn, lst, '_socket')
                ctx.check('R2', f'{f.short}: accept() of the control connection is multiplexed with the client data socket', ok, f.short,
                          'bare-accept', f'{f.short} blocks in accept() on the control listener ({why}): a client that dies before connecting leaves the '
                          'server blocked forever and no other client is ever served', where=loc(f, c))
    ctx.floor('start-up receive/accept sites', n_recv, 4)
    check_child_side_reads(ctx)
    # the close-your-copy discipline of R6 covers the descriptors a *spawned* child is handed; a forked one inherits everything
    from ..frame import check_spawn_context
    check_spawn_context(ctx, 'R6')
    # ... and the constructor that runs _start() through super().__init__() closes its copy of the child end only afterwards
    for cls, f in cands:
        if f.name != '_start':
            continue
        init = cls.methods.get('__init__')
        if init is None:
            continue
        gi = ctx.an.cfg(init, cls)
        sup = [n for n in gi.nodes if n.stmt is not None and n.part == 'post' and any(last_attr(c) == '__init__' and receiver(c) == 'super()' for c in n.calls())]
        closers = [n for n in gi.nodes if n.stmt is not None and n.part == 'eval' and any(last_attr(c) == 'close' and (receiver(c) or '').endswith('_comms.child_end') for c in n.calls())]
        if not closers or not sup:
            continue
        domi = gi.dominators(edge_ok=lambda e: e.kind != 'async')
        sid = {n.id for n in sup}
        ok = all(domi.get(n.id, set()) & sid for n in closers)
        ctx.check('R2', f'{init.short}: the parent closes its copy of the child end of the start-up pipe only after super().__init__() (which runs _start) has returned', ok, init.short,
                  'child-end-closed-before-start', f'{init.short} closes the child end of the start-up pipe before the child has been started and has reported: the sentinel-guarded '
                  'receive of _start() then takes the EOF of a child that died while starting for its identity message', where=loc(init, closers[0].stmt))

    # ---------------------------------------------------------------- R3 failure path of the remote constructor
    st = RW.methods['_start']
    fe = RW.methods['_run_frontend']
    ctx.used(st, fe)
    gs = ctx.an.cfg(st, RW)
    raises = [n for n in gs.nodes if n.kind == 'stmt' and isinstance(n.stmt, ast.Raise) and n.part in (None, 'eval')]
    wait_nodes = [n for n in gs.nodes if n.stmt is not None and n.part == 'post' and any(last_attr(c) == 'wait' and not c.args for c in n.calls())]
    after = gs.reachable(wait_nodes, edge_ok=is_flow)
    fail_raises = [n for n in raises if n.id in after]
    ctx.check('R3', 'RemoteWorker._start: a failed handshake is re-raised in the constructor', bool(fail_raises), st.short, 'startup-error-not-raised',
              'RemoteWorker._start does not raise when the frontend reports a failed handshake: the constructor returns a worker without a child',
              where=loc(st, st.node))
    if fail_raises:
        join_ids = {n.id for n in gs.nodes if n.stmt is not None and n.part == 'post' and any(last_attr(c) == 'join' for c in n.calls())}
        p = gs.find_path(wait_nodes, lambda n: n in fail_raises, edge_ok=is_flow, node_ok=lambda n: n.id not in join_ids)
        ctx.check('R3', 'RemoteWorker._start: the frontend thread is joined before the failure is raised', p is None, st.short, 'frontend-not-joined',
                  'the failure path of RemoteWorker._start raises without joining the frontend thread', where=loc(st, st.node))
    # the frontend failure handler closes the data socket
    handlers = [h for t in walk_local(fe.node) if isinstance(t, ast.Try) for h in t.handlers
                if any(last_attr(c) == 'set' for x in h.body for c in calls_in(x))]
    ok = bool(handlers) and all(any(last_attr(c) == 'close' for x in h.body for c in calls_in(x)) and 'self._socket' in norm(h) for h in handlers)
    ctx.check('R3', 'RemoteWorker._run_frontend: the failure handler closes the sockets it opened', ok, fe.short, 'failure-handler-leaks-sockets',
              'the frontend does not close its sockets when the handshake fails', where=loc(fe, fe.node))

    # ---------------------------------------------------------------- R4 registration after _start
    W = P.cls('Worker')
    init = W.methods['__init__']
    ctx.used(init)
    g = ctx.an.cfg(init, W)
    start_post = {n.id for n in g.nodes if n.stmt is not None and n.part == 'post' and any(last_attr(c) == '_start' for c in n.calls())}
    regs = [n for n in g.nodes if n.stmt is not None and n.part == 'eval' and any(last_attr(c) == 'register_child' for c in n.calls())]
    dom = g.dominators(edge_ok=is_flow)
    ok = bool(regs) and bool(start_post) and all(dom.get(n.id, set()) & start_post for n in regs)
    ctx.check('R4', 'Worker.__init__: register_child() is dominated by the completed _start()', ok, 'Worker.__init__', 'register-before-start',
              'the worker is registered before _start() has succeeded: a failed construction leaves it in active_children()', where=loc(init, init.node))
    ctx.stats.update({'wait_set_pairs': n_pairs, 'startup_receive_sites': n_recv})


def check_startup_report_consumed(ctx, rule, cls, f, g, c, pipe):
    """(shared by C20.R2 and C01.R3)"""
    # the start-up report travels on the pipe that later carries the outcome: _start may only return normally once the report has been
    # read or the child is known to be gone - a wait that can end with neither (a timeout) and carries on leaves the report in the pipe,
    # where the outcome reader takes it for the final message
    wvars = {}
    for st in walk_local(f.node):
        if isinstance(st, ast.Assign) and isinstance(st.value, ast.Call) and (dotted(st.value.func) or '').endswith('connection.wait') and \
                isinstance(st.targets[0], ast.Name) and st.value.args and isinstance(st.value.args[0], ast.List):
            t = st.value.args[1] if len(st.value.args) > 1 else next((k.value for k in st.value.keywords if k.arg == 'timeout'), None)
            timed = t is not None and not (isinstance(t, ast.Constant) and t.value is None)
            wvars[st.targets[0].id] = (timed, [norm(e) for e in st.value.args[0].elts])
    wnodes = [n for n in g.nodes if n.stmt is not None and n.part == 'post' and isinstance(n.stmt, ast.Assign) and isinstance(n.stmt.value, ast.Call)
              and (dotted(n.stmt.value.func) or '').endswith('connection.wait')]
    read_ids = {n.id for n in g.nodes if n.stmt is not None and n.part == 'post' and any(last_attr(x) in ('recv', 'get') and receiver(x) == pipe for x in n.calls())}

    def gone_fact(facts):
        for txt, truth in facts:
            if ' in ' not in txt:
                continue
            e, v = txt.rsplit(' in ', 1)
            if v not in wvars:
                continue
            timed, elts = wvars[v]
            if truth and e.endswith('.sentinel'):
                return True
            # an untimed wait returns a non-empty list: with two objects waited for, "the pipe is not ready" means the sentinel is
            if not truth and not timed and len(elts) == 2 and e == pipe and any(x.endswith('.sentinel') for x in elts):
                return True
        return False
    gone_ids = {n.id for n in g.nodes if isinstance(n.stmt, ast.Assert) and gone_fact(conjuncts(n.stmt.test, True))}

    def flow(e):
        if e.kind in ('async', 'exc', 'reraise'):
            return False
        if e.kind in ('true', 'false') and gone_fact(edge_facts(e)):
            return False
        return True
    p = g.find_path(wnodes, lambda n: n is g.exit or n.kind == 'return', edge_ok=flow, node_ok=lambda n: n.id not in read_ids and n.id not in gone_ids) if wnodes else None
    ctx.check(rule, f'{f.short}: returns only once the start-up report has been read or the child is known to be gone', p is None and bool(wnodes), f.short,
              f'startup-report-left-in-the-pipe:{pipe}',
              f'{f.short} can return normally although neither the start-up report was read from {pipe} nor the child\'s sentinel was ready (the wait ended '
              'with neither, e.g. by a timeout): the report arrives later on the pipe that carries the outcome, and the outcome reader unpacks it as the final '
              'message - has_error / result / error raise for ever after the child dies without one', where=loc(f, c), path=path_str(p or []))


def guarded_by_wait(g, dom, f, recv_nodes, pipe, other_suffix):
    """recv_nodes are dominated by the `pipe in ready` side of a test on the result of connection.wait([pipe, <...other_suffix>])"""
    waits = []
    for st in walk_local(f.node):
        if isinstance(st, ast.Assign) and isinstance(st.value, ast.Call) and (dotted(st.value.func) or '').endswith('connection.wait') \
                and st.value.args and isinstance(st.value.args[0], ast.List) and isinstance(st.targets[0], ast.Name):
            elts = [norm(e) for e in st.value.args[0].elts]
            if pipe in elts and any(e.endswith(other_suffix) for e in elts):
                waits.append((st.targets[0].id, st))
    if not waits:
        return False, 'no connection.wait([...]) on the pipe together with ' + other_suffix.strip('._')
    for var, wst in waits:
        doms = set()
        for n in g.nodes:
            if n.kind == 'test' and isinstance(n.stmt, ast.If) and n.part in (None, 'post'):
                # polarity-free: the edge that establishes `pipe in <ready>` (also as a conjunct, also through `not`)
                for e in n.succ:
                    if e.kind in ('true', 'false') and (f'{pipe} in {var}', True) in edge_facts(e):
                        doms.add(e.dst.id)
            # an assert <other> in ready on the else side is a belief, not a guard
        if doms and recv_nodes and all(dom.get(r.id, set()) & doms for r in recv_nodes):
            # "the pipe end is ready" means "a message is there" only while this process still holds the other end of the pipe: once
            # it has closed its copy, the death of the child makes the pipe end ready as well (EOF) and the receive raises EOFError
            if pipe.endswith('.parent_end'):
                other = pipe[:-len('.parent_end')] + '.child_end'
                closers = [n for n in g.nodes if n.stmt is not None and n.part == 'eval' and any(last_attr(c) == 'close' and receiver(c) == other for c in n.calls())]
                rid = {r.id for r in recv_nodes}
                p = g.find_path(closers, lambda x: x.id in rid, edge_ok=lambda e: e.kind != 'async') if closers else None
                if p is not None:
                    return False, f'{other} is closed by this process before the guarded receive: a dead child makes {pipe} ready (EOF) too'
            return True, ''
    return False, 'the result of the wait is not tested for the pipe before receiving'


def check_child_side_reads(ctx):
    """R6 (child side of the pipes): a blocking read of `self.<P>.child_end` in the child ends with EOF when the other side dies only if the
    child does not itself hold a copy of `<P>.parent_end` any more.  For every such read in the child-main / work loop of the process and remote
    kinds - unless the child is itself a writer of that end (the control pipe, through which it releases its own control thread) - the child's
    copy of the parent end is closed before the read: in the same function on every path (dominance), or at the top level of the `_init_child`
    hook that the child-main calls before the work loop."""
    from ..lifecycle import lifecycle, worker_classes
    P = ctx.prog
    n = 0
    seen = set()
    for cls in worker_classes(P, internal=True):
        lc = lifecycle(ctx, cls)
        if lc.kind == 'thread':
            continue
        funcs = [lc.main]
        _, dw = cls.resolve('do_work')
        if dw is not None:
            funcs.append(dw)
        _, ic = cls.resolve('_init_child')
        child_writes = set()
        for c in cls.mro():
            if isinstance(c, str):
                continue
            for f in c.methods.values():
                for call in calls_in(f.node):
                    r = receiver(call) or ''
                    if last_attr(call) in ('send', 'put') and r.startswith('self.') and r.endswith('.parent_end') and f.name not in ('enqueue', 'close', 'terminate', 'wait', '_release_child', '__setstate__', '_start'):
                        child_writes.add(r)
        init_closes = set()
        if ic is not None:
            chain = [ic]
            for call in calls_in(ic.node):
                rr = P.resolve_call(call, ic, cls)
                if rr and rr[0] == 'func' and rr[1].name == '_init_child':
                    chain.append(rr[1])
            for f in chain:
                for st in f.node.body:
                    if isinstance(st, ast.Expr) and isinstance(st.value, ast.Call) and last_attr(st.value) == 'close':
                        init_closes.add(receiver(st.value))
        for f in funcs:
            g = ctx.an.cfg(f, cls)
            dom = None
            for call in calls_in(f.node):
                r = receiver(call) or ''
                if not (last_attr(call) in ('recv', 'get') and r.startswith('self.') and r.endswith('.child_end')):
                    continue
                if any(k.arg == 'timeout' for k in call.keywords) or (last_attr(call) == 'get' and call.args):
                    continue
                other = r[:-len('.child_end')] + '.parent_end'
                key = (f.qualname, r, call.lineno)
                if key in seen or other in child_writes:
                    continue
                seen.add(key)
                n += 1
                dom = dom or g.dominators(edge_ok=lambda e: e.kind != 'async')
                closers = {x.id for x in g.nodes if x.stmt is not None and x.part == 'post' and any(last_attr(c2) == 'close' and receiver(c2) == other for c2 in x.calls())}
                rn = [x for x in g.nodes if x.stmt is not None and x.part == 'eval' and any(c2 is call for c2 in x.calls())]
                ok = bool(rn) and all(dom.get(x.id, set()) & closers for x in rn)
                if not ok and f is dw and other in init_closes:
                    ok = True
                ctx.check('R6', f'{f.short}: the child has closed its copy of {other} before it blocks in `{short(call, 40)}`', ok, f.short, f'child-holds-peer-end:{other}',
                          f'{f.short} blocks in `{short(call, 50)}` while the child still holds its inherited copy of {other}: if the other side dies at that moment the read never '
                          'sees EOF - the child is left behind for ever and, as it also holds copies of the sockets, the client\'s constructor never gets an answer either', where=loc(f, call))
    ctx.floor('blocking child-side reads of a pipe end', n, 2)



def startup_report_sites(ctx):
    """(cls, _start function, cfg, receive call, pipe) of the sentinel-guarded start-up receives of the process kinds - for C01.R3"""
    P = ctx.prog
    PW = P.cls('ProcessWorker')
    out = []
    for cls in [PW] + [c for c in P.subclasses(PW) if '_start' in c.methods]:
        f = cls.methods['_start']
        g = ctx.an.cfg(f, cls)
        dom = g.dominators(edge_ok=lambda e: e.kind != 'async')
        for c in calls_in(f.node):
            r = receiver(c) or ''
            if last_attr(c) in ('recv', 'get') and r.startswith('self.') and r.endswith('.parent_end') and not c.args:
                rn = [n for n in g.nodes if n.stmt is not None and n.part == 'eval' and any(x is c for x in n.calls())]
                if guarded_by_wait(g, dom, f, rn, r, '.sentinel')[0]:
                    out.append((cls, f, g, c, r))
    return out
