"""C15 - load-time state patches reach only the addressed objects and leave no residue."""
import ast

from ..astutil import (AnalysisError, dotted, calls_in, last_attr, receiver, norm, is_name, walk_local, is_self_attr,
                       loc, short, parent_map, names_in)
from ..cfg import is_flow, path_str

EXPLANATION = (
    'Static decision of the per-thread restore state. R1: the state object is a threading.local(), and every field of it that '
    'is read during a load (reads that only build the message of a raise excluded) is unconditionally (re)assigned by the '
    'constructor of the context that loads/load enter - so a load that failed part-way cannot influence the next one and '
    'threads cannot see each other\'s frames. R2: patches are merged into a state at exactly one site, from the current frame '
    'only; remote_loads / remote_load enter the context on every path around the standard unpickling call and pass the '
    'caller\'s patches to it. R3 producer/consumer coverage: the frame consumer (the patched __setstate__ calling '
    'child_restored, which pops the current frame) is installed for every object the dispatch predicate routes - at any depth, '
    'in any container - whereas frames are produced only for the names found by a non-recursive scan of the parent\'s top-level '
    'state values; unless the consumer tests that the frame is its own, an opt-in object held in a container consumes the '
    'frame of its holder.')
TECHNIQUE = 'definite assignment + who-may-write on the per-thread state, coverage comparison of frame producer and consumer'


def run(ctx):
    P = ctx.prog
    RS = P.cls('RemoteState')
    C = RS.nested_classes.get('context')
    ctx.require(C is not None, 'RemoteState.context not found')
    smod = P.module('_remote_pickle.state')
    holder = check_residue(ctx, 'R1')
    # __enter__ pushes the caller's patches as the top frame; __exit__ removes the stack
    en = C.methods.get('__enter__')
    ok = en is not None and any(last_attr(c) == 'append' and norm(c.func.value).endswith('.stack') and 'self' in names_in(c.args[0]) for c in calls_in(en.node))
    ctx.check('R2', 'context.__enter__ pushes the caller\'s patches as the top-level frame', ok, 'RemoteState.context.__enter__', 'top-frame-not-pushed',
              'the patches passed to loads() are not installed as the frame of the top-level object', where=loc(en, en.node) if en else None)

    # ---------------------------------------------------------------- R2 single merge site; wrappers enter the context
    merges = []
    for f in P.funcs.values():
        if f.module.name.startswith(P.package + '._remote_pickle') or f.module.name == P.package + '.remote_pickle':
            for c in calls_in(f.node):
                if last_attr(c) == 'update' and c.args and isinstance(c.args[0], ast.Call) and last_attr(c.args[0]) in ('current_patches', 'parent_patches', 'get_current_patches_info'):
                    merges.append((f, c))
    ctx.check('R2', 'patches are merged into a state at exactly one site', len(merges) == 1, merges[0][0].short if merges else 'RemoteState', f'merge-sites:{len(merges)}',
              f'{len(merges)} sites merge patches into object states (expected one)', where=loc(*merges[0]) if merges else None)
    if merges:
        f, c = merges[0]
        ctx.check('R2', 'the merge takes the patches of the current frame only', last_attr(c.args[0]) == 'current_patches', f.short, f'merge-source:{last_attr(c.args[0])}',
                  'an object is patched with patches that are not addressed to it', where=loc(f, c))
        tgt = receiver(c)
        cp = any(isinstance(st, ast.Assign) and is_name(st.targets[0], tgt) and isinstance(st.value, ast.Call) and last_attr(st.value) == 'copy' for st in ast.walk(f.node))
        ctx.check('R2', 'the merge works on a copy of the pickled state', cp, f.short, 'merge-in-place', 'patches are merged into the unpickled state object itself', where=loc(f, c))
    cpf = RS.methods['current_patches']
    gi = RS.methods['get_current_patches_info']
    # `if <iterator> < 0: return <empty frame>` - the iterator is the local read from patches_iter() (or the call itself)
    itv = [st.targets[0].id for st in walk_local(gi.node) if isinstance(st, ast.Assign) and isinstance(st.targets[0], ast.Name) and isinstance(st.value, ast.Call) and last_attr(st.value) == 'patches_iter']

    def neg_test(t):
        return isinstance(t, ast.Compare) and len(t.ops) == 1 and isinstance(t.ops[0], ast.Lt) and isinstance(t.comparators[0], ast.Constant) and t.comparators[0].value == 0 and (
            (isinstance(t.left, ast.Name) and t.left.id in itv) or (isinstance(t.left, ast.Call) and last_attr(t.left) == 'patches_iter'))
    ok = any(isinstance(st, ast.If) and neg_test(st.test) and any(isinstance(x, ast.Return) for x in st.body) for st in walk_local(gi.node))
    ctx.check('R2', 'with no frame left the current patches are empty', ok, 'RemoteState.get_current_patches_info', 'no-empty-frame', 'without a current frame a stale frame is used', where=loc(gi, gi.node))
    rp = P.module('remote_pickle')
    for fn, inner in (('remote_loads', 'pickle.loads'), ('remote_load', 'pickle.load')):
        f = rp.functions[fn]
        ctx.used(f)
        g = ctx.an.cfg(f)
        inner_nodes = [n for n in g.nodes if n.stmt is not None and n.part in ('eval',) and any((dotted(c.func) or '') == inner for c in n.calls())]
        enters = {n.id for n in g.nodes if n.kind == 'with_enter' and n.part in ('post', None) and any('context' == last_attr(c) for c in n.calls())}
        dom = g.dominators(edge_ok=is_flow)
        ok = bool(inner_nodes) and all(dom.get(n.id, set()) & enters for n in inner_nodes)
        # lexically inside the with
        withs = [w for w in walk_local(f.node) if isinstance(w, ast.With) and any(last_attr(c) == 'context' for it in w.items for c in calls_in(it.context_expr))]
        inside = bool(withs) and all(any(n.stmt is x or any(n.stmt is y for y in ast.walk(x)) for x in withs[0].body) for n in inner_nodes)
        ctx.check('R2', f'{fn}: the standard unpickling call runs inside RemoteState.context(...)', ok and inside, f'remote_pickle.{fn}', f'{fn}-outside-context',
                  f'{fn} can unpickle without (re)initialising the per-thread restore state', where=loc(f, f.node))
        if withs:
            carg = [c for it in withs[0].items for c in calls_in(it.context_expr) if last_attr(c) == 'context'][0]
            ok = bool(carg.args) and is_name(carg.args[0], 'extra_kwargs')
            ctx.check('R2', f'{fn}: the caller\'s patches are handed to the context', ok, f'remote_pickle.{fn}', f'{fn}-patches-dropped', f'{fn} does not pass extra_kwargs to the context', where=loc(f, carg))
        dflt = any(isinstance(st, ast.Assign) and is_name(st.targets[0], 'extra_kwargs') and norm(st.value) == 'extra_kwargs or {}' for st in walk_local(f.node))
        ctx.check('R2', f'{fn}: no patches means an empty dict', dflt, f'remote_pickle.{fn}', f'{fn}-default', f'{fn} does not default its patches', where=loc(f, f.node))

    # ---------------------------------------------------------------- R3 producer / consumer coverage
    RP = P.cls('RemotePickler36')
    rr = RP.methods['remote_reduce']
    rec = RS.methods['recreate_obj_and_patch_setstate']
    cr = RS.methods['child_restored']
    ctx.used(rr, rec, cr)
    # consumer installed for every routed object: the reduce callable of remote_reduce is the helper, and the helper installs the wrapper unconditionally
    install = [st for st in rec.node.body if isinstance(st, ast.Assign) and isinstance(st.targets[0], ast.Attribute) and st.targets[0].attr == '__setstate__']
    consumer_everywhere = bool(install)
    # consumer pops unconditionally?
    pops = [c for c in calls_in(cr.node) if last_attr(c) == 'close_current_ctx']
    pm = parent_map(cr.node)
    own_test = False
    for c in pops:
        cur = c
        while cur in pm:
            cur = pm[cur]
            if isinstance(cur, ast.If) and ('obj' in names_in(cur.test)):
                own_test = True
    # producer: scan of the top-level state values only
    scans = [st for st in walk_local(rr.node) if isinstance(st, ast.For) and '.items()' in norm(st.iter) and any(last_attr(c) == 'subject_to_custom_reduce' for c in calls_in(st))]
    recursive = False
    if scans:
        for c in calls_in(scans[0]):
            if last_attr(c) == 'subject_to_custom_reduce':
                arg = c.args[0] if c.args else None
                # the predicate is applied to the value itself, not to the members of container values
                recursive = not (isinstance(arg, ast.Name) and isinstance(scans[0].target, ast.Tuple) and arg.id == scans[0].target.elts[1].id)
    # producer and consumer agree on *which* objects take part: the scan that lists children uses the same metaclass test as the table that routes
    # objects to the reducer (issubclass(<class>, SupportRemoteGetState), which goes through __subclasscheck__ - isinstance() does not)
    sub = RP.methods.get('subject_to_custom_reduce')
    DTs = [c for c in P.classes.values() if c.name == 'dyn_dispatch_table' or ('__getitem__' in c.methods and any(
        is_name(x.func, 'issubclass') and norm(x.args[1]).endswith('SupportRemoteGetState') for x in calls_in(c.methods['__getitem__'].node)))]
    prod = [x for x in calls_in(sub.node) if is_name(x.func, 'issubclass') and len(x.args) == 2 and norm(x.args[1]).endswith('SupportRemoteGetState')
            and isinstance(x.args[0], ast.Call) and is_name(x.args[0].func, 'type') and x.args[0].args and is_name(x.args[0].args[0], sub.params[-1])] if sub is not None else []
    ctx.check('R3', 'the scan that lists the opt-in children of an object applies the test that routes objects to the remote reducer (issubclass of the class, through the metaclass)',
              bool(prod) and bool(DTs), 'RemotePickler36.subject_to_custom_reduce', 'producer-predicate-differs',
              'children are listed by a different test than the one that sends objects through the remote reducer (e.g. isinstance(), which does not consult the metaclass): an object that is '
              'remote-aware by signature only is restored through the patching protocol but gets no frame of its own - it consumes its parent\'s frame and is patched with the parent\'s patches',
              where=loc(sub, sub.node) if sub is not None else None)
    ok = not (consumer_everywhere and not own_test and not recursive)
    ctx.sample({'rule': 'C15.R3', 'consumer_installed_for_every_routed_object': consumer_everywhere, 'consumer_tests_own_frame': own_test, 'producer_scans_containers': recursive})
    ctx.check('R3', 'frames are produced for every object that consumes one (or the consumer recognises its own frame)', ok, 'RemoteState.child_restored',
              'frame-consumer-without-own-frame-test',
              'every opt-in object, wherever it sits, pops the current frame when it is restored (child_restored has no own-frame test), but frames are only pushed for opt-in objects '
              'that are direct values of their holder\'s state: an opt-in object held in a list/dict/tuple consumes - and is patched with - the frame of its holder, '
              'so a top-level patch lands on the container-held object and not on the top-level object', where=loc(cr, cr.node))
    check_write_back(ctx, RS, cr)


# ---------------------------------------------------------------------------------------------------- R4
DICT, TRUTHY = 'dict(possibly empty)', 'non-empty'


def truth3(e, env):
    """three-valued truth of a test under the abstract environment of a real frame; (value, mentions_role_variable)"""
    if isinstance(e, ast.Name):
        if e.id in env:
            return (True if env[e.id] == TRUTHY else None), True
        return None, False
    if isinstance(e, ast.UnaryOp) and isinstance(e.op, ast.Not):
        v, m = truth3(e.operand, env)
        return (None if v is None else not v), m
    if isinstance(e, ast.BoolOp):
        vals = [truth3(x, env) for x in e.values]
        m = any(x[1] for x in vals)
        vs = [x[0] for x in vals]
        if isinstance(e.op, ast.And):
            return (False if False in vs else (None if None in vs else True)), m
        return (True if True in vs else (None if None in vs else False)), m
    if isinstance(e, ast.Call) and isinstance(e.func, ast.Name) and e.func.id == 'bool' and len(e.args) == 1:
        return truth3(e.args[0], env)
    if isinstance(e, ast.Call) and isinstance(e.func, ast.Name) and e.func.id == 'isinstance' and len(e.args) == 2 and isinstance(e.args[0], ast.Name) and e.args[0].id in env:
        if norm(e.args[1]) == 'dict' and env[e.args[0].id] == DICT:
            return True, True
        return None, True
    if isinstance(e, ast.Compare) and len(e.ops) == 1:
        l, r, op = e.left, e.comparators[0], e.ops[0]
        if isinstance(l, ast.Name) and l.id in env and isinstance(r, ast.Constant) and r.value is None and isinstance(op, (ast.Is, ast.IsNot, ast.Eq, ast.NotEq)):
            return isinstance(op, (ast.IsNot, ast.NotEq)), True      # every part of a real frame is not None
        a, ma = truth3(l, env)
        b, mb = truth3(r, env)
        if (ma or mb) and isinstance(op, (ast.Eq, ast.NotEq)) and all(isinstance(x, ast.Call) and isinstance(x.func, ast.Name) and x.func.id == 'bool' for x in (l, r)):
            if a is None or b is None:
                return None, True
            return ((a == b) if isinstance(op, ast.Eq) else (a != b)), True
        return None, any(isinstance(x, ast.Name) and x.id in env for x in ast.walk(e))
    return None, any(isinstance(x, ast.Name) and x.id in env for x in ast.walk(e))


def check_write_back(ctx, RS, cr):
    """R4 producer/consumer agreement on what a real frame is.  break_patches pushes a real frame (index, name, sub) for every
    addressed child whose patch `sub` is a dict - any dict, the empty one included.  When such a child has been restored,
    child_restored must put the restored object back under its name in the parent's patches (the parent's own
    state.update(patches) would otherwise overwrite the child with the raw patch value).  The tests on the way to that
    write-back are evaluated three-valued under the abstract environment of a real frame: own patches = a dict that may be
    empty, name = a non-empty string, parent patches = a dict that contains the name (non-empty), none of them None."""
    bp = RS.methods['break_patches']
    ctx.used(bp)
    # producer predicate: the real frame constructor is guarded by isinstance(<sub>, dict) only
    real = [c for c in calls_in(bp.node) if last_attr(c) == '_patches_t' and len(c.args) == 3 and not (isinstance(c.args[1], ast.Constant) and c.args[1].value is None)]
    ctx.require(len(real) == 1, 'break_patches: the construction of a real frame was not found')
    sub = real[0].args[2]
    pm = parent_map(bp.node)
    guards = []
    cur = real[0]
    while cur in pm:
        cur = pm[cur]
        if isinstance(cur, ast.If):
            guards.append(norm(cur.test))
    ok = any(g == f'isinstance({norm(sub)}, dict)' for g in guards)
    ctx.check('R4', 'break_patches pushes a real frame for every dict-valued patch of a child (any dict)', ok and not any(g in (norm(sub), f'{norm(sub)} and isinstance({norm(sub)}, dict)') for g in guards),
              'RemoteState.break_patches', 'real-frame-guard:' + ';'.join(guards), f'the real frame of a child is pushed under {guards}', where=loc(bp, real[0]))
    # consumer: role variables of child_restored
    roles = {}
    for st in walk_local(cr.node):
        if isinstance(st, ast.Assign) and len(st.targets) == 1 and isinstance(st.targets[0], ast.Name) and isinstance(st.value, ast.Call):
            r = {'current_patches': 'own', 'current_child_name': 'name', 'parent_patches': 'parent'}.get(last_attr(st.value))
            if r:
                roles.setdefault(r, []).append(st.targets[0].id)
    ctx.require(all(len(roles.get(r, [])) == 1 for r in ('own', 'name', 'parent')), 'child_restored: the frame parts (own patches, name, parent patches) are not each read once')
    OWN, NAME, PARENT = roles['own'][0], roles['name'][0], roles['parent'][0]
    env = {OWN: DICT, NAME: TRUTHY, PARENT: TRUTHY}
    g = ctx.an.cfg(cr, RS)
    wb = [n for n in g.nodes if n.stmt is not None and isinstance(n.stmt, ast.Assign) and n.part in (None, 'store') and isinstance(n.stmt.targets[0], ast.Subscript)
          and is_name(n.stmt.targets[0].value, PARENT) and is_name(n.stmt.targets[0].slice, NAME) and is_name(n.stmt.value, cr.params[1] if len(cr.params) > 1 else 'obj')]
    ctx.check('R4', 'child_restored puts the restored child back under its name in the parent\'s patches', bool(wb), 'RemoteState.child_restored', 'no-write-back',
              'child_restored does not hand the restored child back to its parent\'s patches: the parent\'s state.update(patches) replaces the child by the raw patch dict', where=loc(cr, cr.node))
    if not wb:
        return
    wid = {n.id for n in wb}
    undecided = []

    def feasible(e):
        if not is_flow(e) or e.kind in ('exc', 'reraise'):
            return False
        if e.src.kind == 'test' and e.kind in ('true', 'false') and isinstance(e.src.stmt, (ast.If, ast.While)):
            v, m = truth3(e.src.stmt.test, env)
            if v is None and not m:
                return True          # a test on something else: not decided by this rule, both sides kept
            if v is None:
                undecided.append(norm(e.src.stmt.test))
                return True
            return v == (e.kind == 'true')
        return True
    p = g.find_path([g.entry], lambda n: n is g.exit, edge_ok=feasible, node_ok=lambda n: n.id not in wid)
    tests = sorted({norm(e.src.stmt.test) for e in (p or []) if e.src.kind == 'test' and isinstance(e.src.stmt, (ast.If, ast.While)) and truth3(e.src.stmt.test, env) == (None, True)})
    ctx.sample({'rule': 'C15.R4', 'abstract_environment_of_a_real_frame': {OWN: DICT, NAME: TRUTHY + ' str', PARENT: TRUTHY + ' dict'},
                'tests_in_child_restored': {norm(n.stmt.test): str(truth3(n.stmt.test, env)[0]) for n in g.nodes if n.kind == 'test' and isinstance(n.stmt, ast.If)}})
    ctx.check('R4', 'for every real frame (any dict patch, the empty one included) child_restored reaches the write-back', p is None, 'RemoteState.child_restored',
              'write-back-skipped-for-real-frame:' + ';'.join(tests),
              f'child_restored can return without writing the restored child back although break_patches pushed a real frame for it: the test(s) {tests} are not implied by '
              '"the frame is real" (a dict patch may be empty) - the producer tests the type, the consumer the truth value; for a patch {name: {}} the parent then overwrites the child with {}',
              where=loc(cr, cr.node), path=path_str(p or []))

def loc_cls(c, node):
    return f'{c.module.relpath}:{getattr(node, "lineno", "?")}'


def check_residue(ctx, rule):
    """the per-thread restore state: a threading.local whose every field that a load reads is unconditionally re-initialised when a load is entered,
    whose entry beliefs hold on every history, and which only the state module touches - so a load that failed part-way (a client that died inside the
    control handshake, a raising __setstate__) cannot influence the next one on that thread"""
    P = ctx.prog
    RS = P.cls('RemoteState')
    C = RS.nested_classes.get('context')
    ctx.require(C is not None, 'RemoteState.context not found')
    smod = P.module('_remote_pickle.state')
    # ---------------------------------------------------------------- R1 per-thread state
    holder = None
    shared_defaults = []
    for k, v in RS.class_attrs.items():
        if isinstance(v, ast.Call) and (dotted(v.func) or '') == 'threading.local':
            holder = k
        elif isinstance(v, ast.Call) and isinstance(v.func, ast.Name):
            # an instance of a subclass of threading.local is per-thread too - except for what its class body defines: a class attribute is one
            # object for all threads, and a mutable one (a list used as the frame stack) is shared state again
            sub = [c for c in P.classes.values() if c.name == v.func.id and any((dotted(b) or '') == 'threading.local' for b in c.node.bases)]
            if sub:
                holder = k
                for name, val in sub[0].class_attrs.items():
                    if isinstance(val, (ast.List, ast.Dict, ast.Set, ast.Call, ast.ListComp, ast.DictComp)):
                        shared_defaults.append((sub[0], name, val))
    for c, name, val in shared_defaults:
        ctx.check(rule, f'the per-thread state class {c.name} has no mutable class-level default', False, f'{c.name}', f'shared-default-in-thread-local:{name}',
                  f'`{name} = {norm(val)}` in the body of {c.name} is a single object shared by every thread: as soon as it is emptied in place instead of replaced, concurrent loads on '
                  'different threads work on one frame stack - one caller\'s objects receive the other\'s patches', where=loc_cls(c, val))
    any_holder = [k for k in RS.class_attrs if 'active' in k or 'context' in k.lower()]
    ctx.check(rule, 'the restore state lives in a threading.local()', holder is not None, 'RemoteState', 'state-not-thread-local:' + ','.join(
        f'{k}={norm(RS.class_attrs[k])}' for k in any_holder), 'the restore stack is not per-thread: concurrent loads on several threads corrupt each other\'s frames',
        where=smod.relpath)
    holder = holder or (any_holder[0] if any_holder else '_active_contexts')
    # fields read anywhere in the module (excluding reads inside raise statements)
    reads, writes = {}, {}
    for f in P.funcs.values():
        if f.module is not smod:
            continue
        ctx.used(f)
        pm = parent_map(f.node)
        for a in walk_local(f.node):
            if isinstance(a, ast.Attribute) and isinstance(a.value, ast.Attribute) and a.value.attr == holder:
                in_raise = False
                cur = a
                while cur in pm:
                    cur = pm[cur]
                    if isinstance(cur, ast.Raise):
                        in_raise = True
                if isinstance(a.ctx, ast.Load):
                    if in_raise:
                        ctx.note(f'{f.short}: `{norm(a)}` is only read to build the message of a raise (field never assigned) - observation')
                        continue
                    reads.setdefault(a.attr, (f, a))
                elif isinstance(a.ctx, ast.Store):
                    writes.setdefault(a.attr, []).append((f, a))
    init = C.methods.get('__init__')
    ctx.require(init is not None, 'RemoteState.context.__init__ not found')
    uncond = set()
    for st in init.node.body:
        if isinstance(st, ast.Assign):
            for t in st.targets:
                if isinstance(t, ast.Attribute) and isinstance(t.value, ast.Attribute) and t.value.attr == holder:
                    uncond.add(t.attr)
    ctx.floor('per-thread fields read during a load', len(reads), 3)
    for field, (f, a) in sorted(reads.items()):
        ctx.check(rule, f'field `{field}` (read by {f.short}) is unconditionally initialised when a load is entered', field in uncond, 'RemoteState.context.__init__',
                  f'field-not-reinitialised:{field}', f'the per-thread field `{field}` is read during a load but not unconditionally (re)assigned when a load begins: '
                  'after a load that failed part-way the next loads() on the same thread starts from the residue', where=loc(f, a))
    # stated beliefs about the per-thread state at the start of a load must hold on every history (Engler-style contradiction):
    # `assert not hasattr(state, F)` is contradicted if F is assigned by a load and not deleted on every exit of the context
    ex = C.methods.get('__exit__')
    for st in init.node.body:
        if isinstance(st, ast.Assert):
            t = st.test
            if isinstance(t, ast.UnaryOp) and isinstance(t.op, ast.Not) and isinstance(t.operand, ast.Call) and is_name(t.operand.func, 'hasattr') and len(t.operand.args) == 2 \
                    and isinstance(t.operand.args[1], ast.Constant) and holder in norm(t.operand.args[0]):
                field = t.operand.args[1].value
                if field not in writes:
                    ctx.ob(rule, f'belief `{norm(st.test)}`: the field is never assigned - vacuously true', True)
                    continue
                okb = False
                if ex is not None:
                    gx = ctx.an.cfg(ex, C)
                    dels = {n.id for n in gx.nodes if n.stmt is not None and isinstance(n.stmt, ast.Delete) and any(
                        isinstance(x, ast.Attribute) and x.attr == field for x in n.stmt.targets)}
                    px = gx.find_path([gx.entry], lambda n: n is gx.exit, edge_ok=is_flow, node_ok=lambda n: n.id not in dels)
                    okb = bool(dels) and px is None
                ctx.check(rule, f'belief `{norm(st.test)}` at the start of a load holds on every history', okb, 'RemoteState.context.__init__', f'belief-contradicted:hasattr:{field}',
                          f'a load asserts that the per-thread field `{field}` does not exist when it starts, but the field is only removed when the previous load succeeded: '
                          'after one loads() that raised part-way every later loads() on that thread fails with AssertionError', where=loc(init, st))
    # nothing outside the state module touches the holder
    foreign = [(f, a) for f in P.funcs.values() if f.module is not smod for a in ast.walk(f.node) if isinstance(a, ast.Attribute) and a.attr == holder]
    ctx.check(rule, 'only the state module touches the per-thread state', not foreign, foreign[0][0].short if foreign else 'RemoteState', 'foreign-state-access',
              'code outside _remote_pickle/state.py manipulates the restore stack', where=loc(*foreign[0]) if foreign else None)
    return holder

