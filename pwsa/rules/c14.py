"""C14 - every opt-in object, wherever it sits, is serialised remotely exactly once."""
import ast

from ..astutil import (facts_at, canon, AnalysisError, dotted, calls_in, last_attr, receiver, norm, is_name, walk_local, is_self_attr,
                       loc, short, parent_map, names_in)
from ..cfg import is_flow, path_str

EXPLANATION = (
    'Static decision of the remote reducer and of the restore stack. R1: on every normal path of remote_reduce there is '
    'exactly one __getstate__ call (path counting on the CFG) and it carries remote=<pickler flag>. R2: the reduce value has '
    'the shape of object.__reduce_ex__ (copyreg.__newobj__ / __newobj_ex__ with (type(obj), *args) / (type(obj), args, '
    'kwargs), state, list items, dict items) wrapped in the re-creation helper, which calls newobj(*newargs) and returns the '
    'object. R3 optional-hook guard: pickle-protocol hooks a class may lack (__setstate__, __getnewargs__, '
    '__getnewargs_ex__) are only accessed under a hasattr/getattr-default guard - the package guards two of the three, an '
    'unguarded access contradicts its own practice. R4 frame balance: linear effect summaries (len(stack), iter) of '
    'break_patches with a symbolic number n of opt-in children and of child_restored/close_current_ctx are extracted from the '
    'source; starting from the invariant the code itself asserts (iter == len(stack) - 1), the assertion at the first child '
    'after break_patches(n) requires a coefficient equality in n; if it only holds for n == 1 the code\'s own belief is '
    'contradicted for every n >= 2.')
TECHNIQUE = 'path counting on the CFG, shape check, linear effect summaries with a symbolic child count (coefficient comparison, no solver)'


def roles_of(node, names):
    """source text of `node` with the locals renamed to the role they play (keys of findings must not depend on local names)"""
    import copy
    if node is None:
        return 'None'
    t = copy.deepcopy(node)
    for n in ast.walk(t):
        if isinstance(n, ast.Name) and n.id in names and names[n.id]:
            n.id = names[n.id]
    return norm(t)


def run(ctx):
    P = ctx.prog
    RP = P.cls('RemotePickler36')
    rr = RP.methods['remote_reduce']
    RS = P.cls('RemoteState')
    rec = RS.methods['recreate_obj_and_patch_setstate']
    ctx.used(rr, rec)
    g = ctx.an.cfg(rr, RP)

    # ---------------------------------------------------------------- R1 exactly one __getstate__
    gs_eval = [n for n in g.nodes if n.stmt is not None and n.part == 'eval' and any(last_attr(c) == '__getstate__' for c in n.calls())]
    gs_post = [n for n in g.nodes if n.stmt is not None and n.part == 'post' and any(last_attr(c) == '__getstate__' for c in n.calls())]
    sites = {id(c) for n in gs_eval for c in n.calls() if last_attr(c) == '__getstate__'}
    ctx.check('R1', 'remote_reduce has one __getstate__ call site', len(sites) == 1, 'RemotePickler36.remote_reduce', f'getstate-sites:{len(sites)}',
              f'remote_reduce calls __getstate__ at {len(sites)} sites: the state of an opt-in object is taken {"more than once" if sites else "never"}', where=loc(rr, rr.node))
    ids = {n.id for n in gs_post}
    rets = [n for n in g.nodes if n.kind == 'return']
    p = g.find_path([g.entry], lambda n: n in rets, edge_ok=lambda e: is_flow(e) and e.kind != 'exc', node_ok=lambda n: n.id not in ids)
    ctx.check('R1', 'every normal path of remote_reduce takes the state', p is None and bool(ids), 'RemotePickler36.remote_reduce', 'getstate-skipped',
              'a path of remote_reduce returns a reduce value without calling __getstate__(remote=...)', where=loc(rr, rr.node), path=path_str(p or []))
    again = g.find_path(gs_post, lambda n: n in gs_eval, edge_ok=is_flow)
    ctx.check('R1', 'the state is taken at most once per object', again is None, 'RemotePickler36.remote_reduce', 'getstate-repeated', 'the state can be taken twice for one object', where=loc(rr, rr.node))
    call = [c for n in gs_eval for c in n.calls() if last_attr(c) == '__getstate__']
    if call:
        c = call[0]
        ok = is_name(c.func.value, rr.params[1]) and len(c.keywords) == 1 and c.keywords[0].arg == 'remote'
        ctx.check('R1', 'the state is taken from the object being reduced, with the remote keyword', ok, 'RemotePickler36.remote_reduce', f'getstate-call:{norm(c)}',
                  f'`{norm(c)}` is not obj.__getstate__(remote=...)', where=loc(rr, c))

    # ---------------------------------------------------------------- R2 reduce shape
    ret_stmts = [st for st in walk_local(rr.node) if isinstance(st, ast.Return)]
    ok = len(ret_stmts) == 1 and isinstance(ret_stmts[0].value, ast.Tuple) and len(ret_stmts[0].value.elts) == 5
    ctx.check('R2', 'remote_reduce returns a 5-tuple (callable, args, state, listitems, dictitems)', ok, 'RemotePickler36.remote_reduce', 'reduce-arity',
              'the reduce value is not the 5-tuple of object.__reduce_ex__', where=loc(rr, ret_stmts[0]) if ret_stmts else loc(rr, rr.node))
    SV = LV = DV = None
    OBJP = rr.params[1] if len(rr.params) > 1 else 'obj'
    for st in walk_local(rr.node):
        if isinstance(st, ast.Assign) and isinstance(st.targets[0], ast.Name):
            v = st.value
            if isinstance(v, ast.Call) and last_attr(v) == '__getstate__':
                SV = st.targets[0].id
            # the items variables by what they hold (an iterator over the object itself / over its items()), however the choice is written
            for arm in _arms(v):
                k = _items_kind(arm, OBJP)
                if k == 'list':
                    LV = st.targets[0].id
                if k == 'dict':
                    DV = st.targets[0].id
    check_provenance(ctx, rr, SV, LV, DV)
    # locals of remote_reduce by role (not by name)
    OBJ = rr.params[1] if len(rr.params) > 1 else 'obj'
    NO = NA = CH = AV = KV = None
    for st in walk_local(rr.node):
        if isinstance(st, ast.Assign) and isinstance(st.targets[0], ast.Name) and (dotted(st.value) or '').startswith('copyreg.__newobj'):
            NO = st.targets[0].id
        if isinstance(st, ast.Assign) and isinstance(st.targets[0], ast.Name) and isinstance(st.value, ast.Tuple) and st.value.elts and norm(st.value.elts[0]) == f'type({OBJ})':
            NA = st.targets[0].id
        if isinstance(st, ast.Assign) and isinstance(st.targets[0], ast.Tuple) and len(st.targets[0].elts) == 2 and isinstance(st.value, ast.Call) and last_attr(st.value) == '__getnewargs_ex__' \
                and all(isinstance(x, ast.Name) for x in st.targets[0].elts):
            AV, KV = [x.id for x in st.targets[0].elts]
        if isinstance(st, ast.For):
            for c in calls_in(st):
                if last_attr(c) == 'append' and isinstance(c.func.value, ast.Name) and any(last_attr(x) == 'subject_to_custom_reduce' for x in calls_in(st)):
                    CH = c.func.value.id
    ctx.require(None not in (NO, NA, AV, KV), 'remote_reduce: the locals playing newobj / newargs / args / kwargs were not found')
    if ok:
        e = ret_stmts[0].value.elts
        names = [norm(x) for x in e]
        roles = ['state' if n == SV else 'listitems' if n == LV else 'dictitems' if n == DV else n for n in names[2:]]
        ctx.check('R2', 'reduce value carries state, listitems, dictitems in this order', roles == ['state', 'listitems', 'dictitems'], 'RemotePickler36.remote_reduce',
                  'reduce-order:' + ','.join(roles), f'the reduce value lists {roles}', where=loc(rr, ret_stmts[0]))
        # the callable is the re-creation helper, its args wrap (newobj, newargs, children_names)
        defs = {}
        for st in walk_local(rr.node):
            if isinstance(st, ast.Assign) and isinstance(st.targets[0], ast.Name):
                defs.setdefault(st.targets[0].id, []).append(st.value)
        helper = defs.get(names[0], [None])[-1] if isinstance(e[0], ast.Name) else e[0]
        ctx.check('R2', 'the reduce callable is RemoteState.recreate_obj_and_patch_setstate', helper is not None and norm(helper).endswith('recreate_obj_and_patch_setstate'),
                  'RemotePickler36.remote_reduce', f'reduce-callable:{norm(helper)}', 'opt-in objects are not re-created through the patching helper', where=loc(rr, ret_stmts[0]))
        wrap = defs.get(names[1], [None])[-1] if isinstance(e[1], ast.Name) else e[1]
        okw = isinstance(wrap, ast.Tuple) and len(wrap.elts) == 3 and [norm(x) for x in wrap.elts] == [NO, NA, CH] and None not in (NO, NA, CH)
        ctx.check('R2', 'the helper receives (newobj, newargs, children_names)', okw, 'RemotePickler36.remote_reduce', 'helper-args:' + roles_of(wrap, {NO: 'newobj', NA: 'newargs', CH: 'children_names'}),
                  'the re-creation helper is not given (newobj, newargs, children_names)', where=loc(rr, ret_stmts[0]))
    # newobj / newargs definitions
    pairs = []
    for st in walk_local(rr.node):
        if isinstance(st, ast.If):
            for branch in (st.body, st.orelse):
                no = [x for x in branch if isinstance(x, ast.Assign) and is_name(x.targets[0], NO)]
                na = [x for x in branch if isinstance(x, ast.Assign) and is_name(x.targets[0], NA)]
                if no and na:
                    pairs.append((norm(no[0].value), roles_of(na[0].value, {OBJ: 'obj', AV: 'args', KV: 'kwargs'})))
    want = {('copyreg.__newobj__', '(type(obj), *args)'), ('copyreg.__newobj_ex__', '(type(obj), args, kwargs)')}
    ctx.check('R2', 'newobj/newargs follow object.__reduce_ex__ (protocol 2+)', set(pairs) == want, 'RemotePickler36.remote_reduce', 'newobj-shapes:' + ';'.join(f'{a}{b}' for a, b in sorted(pairs)),
              f'the object is re-created with {sorted(pairs)} instead of copyreg.__newobj__(type(obj), *args) / copyreg.__newobj_ex__(type(obj), args, kwargs)', where=loc(rr, rr.node))
    # helper: ret = newobj(*newargs); return ret
    mk = [st for st in walk_local(rec.node) if isinstance(st, ast.Assign) and isinstance(st.value, ast.Call) and is_name(st.value.func, rec.params[0])]
    ok = len(mk) == 1 and len(mk[0].value.args) == 1 and isinstance(mk[0].value.args[0], ast.Starred) and is_name(mk[0].value.args[0].value, rec.params[1])
    var = mk[0].targets[0].id if mk and isinstance(mk[0].targets[0], ast.Name) else None
    ok = ok and any(isinstance(st, ast.Return) and is_name(st.value, var) for st in rec.node.body)
    ctx.check('R2', 'the helper returns newobj(*newargs)', ok, 'RemoteState.recreate_obj_and_patch_setstate', 'helper-recreate', 'the helper does not re-create the object with newobj(*newargs)', where=loc(rec, rec.node))
    bp = [c for c in calls_in(rec.node) if last_attr(c) == 'break_patches']
    ok = len(bp) == 1 and bp[0].args and is_name(bp[0].args[0], rec.params[2])
    ctx.check('R2', 'the helper pushes the frames of the object\'s opt-in children', ok, 'RemoteState.recreate_obj_and_patch_setstate', 'helper-break-patches',
              'break_patches(children_names) is not called exactly once per re-created object', where=loc(rec, rec.node))
    # children_names: keys of dict state whose value is opt-in
    ch = [st for st in walk_local(rr.node) if isinstance(st, ast.For) and f'{SV}.items()' in norm(st.iter)]
    ok = bool(ch) and any(last_attr(c) == 'append' and receiver(c) == CH for c in calls_in(ch[0])) and any(last_attr(c) == 'subject_to_custom_reduce' for c in calls_in(ch[0]))
    ctx.check('R2', 'children_names are the state keys holding opt-in objects', ok, 'RemotePickler36.remote_reduce', 'children-scan', 'opt-in children are not recorded by name', where=loc(rr, rr.node))

    # ---------------------------------------------------------------- R3 optional hooks guarded
    hooks = ('__setstate__', '__getnewargs__', '__getnewargs_ex__')
    n_hook = 0
    for f in (rr, rec):
        pm = parent_map(f.node)
        nested = [x for x in ast.walk(f.node) if isinstance(x, ast.FunctionDef) and x is not f.node]
        for a in ast.walk(f.node):
            if not (isinstance(a, ast.Attribute) and a.attr in hooks and isinstance(a.ctx, ast.Load)):
                continue
            # accesses inside the installed wrapper (after the wrapper itself was installed as obj.__setstate__) are fine
            if any(any(a is y for y in ast.walk(nf)) for nf in nested):
                continue
            n_hook += 1
            base = norm(a.value)
            guarded = False
            stn = a
            while stn in pm and not isinstance(stn, ast.stmt):
                stn = pm[stn]
            # polarity-free: some enclosing conditional establishes hasattr(<base>, '<hook>') for this statement
            if (f"hasattr({base}, '{a.attr}')", True) in facts_at(pm, stn):
                guarded = True
            cur = a
            while cur in pm:
                prev, cur = cur, pm[cur]
                if isinstance(cur, ast.Try) and any('AttributeError' in ' '.join(ctx.an.handler_types(h, f)) for h in cur.handlers) and any(prev is x for x in cur.body):
                    guarded = True
            ctx.check('R3', f'{f.short}: access to the optional hook {a.attr} is guarded', guarded, f.short, f'unguarded-hook:{a.attr}',
                      f'{f.short} reads `{norm(a)}` unconditionally; a class need not define {a.attr} (object has none in this Python): loading an opt-in object of such a class '
                      'fails with AttributeError instead of restoring it the way standard unpickling would', where=loc(f, a))
    ctx.floor('optional-hook accesses', n_hook, 2)

    # ---------------------------------------------------------------- R4 frame balance
    check_balance(ctx, RS)
    check_entry_beliefs(ctx, RS)
    # the predicate that routes an object to the remote reducer answers from a cache: it must be keyed by the class itself (shared with C13.R4)
    from .c13 import check_cache_key
    M = P.cls('SupportRemoteGetStateMeta')
    chk = [f for n, f in M.methods.items() if 'check_type' in n]
    if chk:
        ctx.used(chk[0])
        check_cache_key(ctx, chk[0], 'R1')

REWRAP = ('OrderedDict', 'collections.OrderedDict', 'dict')
MUTATORS = ('pop', 'popitem', 'clear', 'update', 'setdefault', 'move_to_end', '__setitem__', '__delitem__', 'append', 'extend', 'remove', 'insert', 'sort', 'reverse')


def _arms(v):
    """the alternatives of a value written as (nested) conditional expressions"""
    if isinstance(v, ast.IfExp):
        return _arms(v.body) + _arms(v.orelse)
    return [v]


def _arm_facts(v, want, facts=frozenset()):
    """canon() facts under which the alternative `want` of the conditional expression `v` is the one evaluated"""
    from ..astutil import conjuncts
    if v is want:
        return set(facts)
    if isinstance(v, ast.IfExp):
        for arm, truth in ((v.body, True), (v.orelse, False)):
            r = _arm_facts(arm, want, set(facts) | set(conjuncts(v.test, truth)))
            if r is not None:
                return r
    return None


def _items_kind(arm, obj):
    t = norm(arm)
    if t in (f'{obj}.__iter__()', f'iter({obj})'):
        return 'list'
    if t in (f'{obj}.items().__iter__()', f'iter({obj}.items())'):
        return 'dict'
    return None


def check_provenance(ctx, rr, SV, LV, DV):
    """R2 who-may-write frame on the three payload variables of the reduce value: what is sent is what was taken.
    The state variable is defined by the __getstate__ call and may only be re-wrapped by a content-preserving mapping
    constructor applied to itself; nothing in remote_reduce mutates it. listitems/dictitems have a single definition."""
    pm = parent_map(rr.node)

    def stmt_of(n):
        while n in pm and not isinstance(n, ast.stmt):
            n = pm[n]
        return n
    n_stores = 0
    for var, role in ((SV, 'state'), (LV, 'listitems'), (DV, 'dictitems')):
        if var is None:
            continue
        for n in walk_local(rr.node):
            if isinstance(n, ast.Name) and n.id == var and isinstance(n.ctx, (ast.Store, ast.Del)):
                st = stmt_of(n)
                n_stores += 1
                v = st.value if isinstance(st, ast.Assign) and len(st.targets) == 1 and st.targets[0] is n else None
                ok = False
                if v is not None:
                    if role == 'state':
                        ok = (isinstance(v, ast.Call) and last_attr(v) == '__getstate__') or \
                             (isinstance(v, ast.Call) and dotted(v.func) in REWRAP and len(v.args) == 1 and not v.keywords and is_name(v.args[0], var))
                    else:
                        # every alternative is None or the iterator over the object (its items), the latter only where the object is known to
                        # be a list (a dict): the choice may be a conditional expression or an if statement
                        obj = rr.params[1] if len(rr.params) > 1 else 'obj'
                        typ = 'list' if role == 'listitems' else 'dict'
                        ok = True
                        for arm in _arms(v):
                            if isinstance(arm, ast.Constant) and arm.value is None:
                                continue
                            facts = (_arm_facts(v, arm) or set()) | facts_at(pm, st, rr.node)
                            if _items_kind(arm, obj) != typ or (f'isinstance({obj}, {typ})', True) not in facts:
                                ok = False
                ctx.check('R2', f'the {role} of the reduce value is only defined by what was taken from the object', ok, 'RemotePickler36.remote_reduce',
                          f'{role}-replaced:{norm(st)[:60]}', f'`{short(st)}` replaces the {role} taken from the object: what is restored on the other side is not what __getstate__(remote=...) returned',
                          where=loc(rr, st))
            if role == 'state' and isinstance(n, ast.Subscript) and is_name(n.value, var) and isinstance(n.ctx, (ast.Store, ast.Del)):
                st = stmt_of(n)
                ctx.check('R2', 'remote_reduce does not edit the state it took', False, 'RemotePickler36.remote_reduce', f'state-mutated:{norm(st)[:60]}',
                          f'`{short(st)}` edits the state taken from the object', where=loc(rr, st))
            if role == 'state' and isinstance(n, ast.Call) and last_attr(n) in MUTATORS and receiver(n) == var:
                st = stmt_of(n)
                ctx.check('R2', 'remote_reduce does not edit the state it took', False, 'RemotePickler36.remote_reduce', f'state-mutated:{norm(n)[:60]}',
                          f'`{short(st)}` edits the state taken from the object', where=loc(rr, st))
    ctx.floor('stores to the payload variables of the reduce value', n_stores, 4)


def check_balance(ctx, RS):
    bp, cr, cc = RS.methods['break_patches'], RS.methods['child_restored'], RS.methods['close_current_ctx']
    inc, dec = RS.methods['increment_patches_iter'], RS.methods['decrement_patches_iter']
    ctx.used(bp, cr, cc, inc, dec)

    def step(f):
        for st in walk_local(f.node):
            if isinstance(st, ast.AugAssign) and norm(st.target).endswith('.iter') and isinstance(st.value, ast.Constant):
                return st.value.value if isinstance(st.op, ast.Add) else -st.value.value
        raise AnalysisError(f'{f.short}: iterator step not recognised')
    inc_by, dec_by = step(inc), step(dec)
    # break_patches: list built with exactly one append per name
    g = ctx.an.cfg(bp, RS)
    loops = [n for n in walk_local(bp.node) if isinstance(n, ast.For) and is_name(n.iter, bp.params[1])]
    ctx.require(len(loops) == 1, 'break_patches: loop over the child names not found')
    lp = loops[0]
    apps = [c for c in calls_in(lp) if last_attr(c) == 'append']
    ctx.require(apps, 'break_patches: no append in the loop')
    acc = receiver(apps[0])
    app_post = {n.id for n in g.nodes if n.stmt is not None and n.part == 'post' and any(last_attr(c) == 'append' and receiver(c) == acc for c in n.calls())}
    heads = [n for n in g.nodes if n.kind == 'for' and n.stmt is lp]
    body_starts = [e.dst for h in heads for e in h.succ if e.kind == 'true']
    from ..paths import explore, bool_flags
    counts = explore(g, body_starts, app_post, lambda n: n in heads, flags=bool_flags(bp.node))
    per_name = 1 if set(counts) == {1} else None
    ctx.sample({'rule': 'C14.R4', 'appends_per_loop_iteration (flag-aware exploration)': sorted(counts)})
    ctx.check('R4', 'break_patches builds exactly one frame per child name', per_name == 1, 'RemoteState.break_patches', 'frames-per-child',
              'break_patches does not create exactly one frame per opt-in child', where=loc(bp, lp))
    # insertion: stack[it+1:it+1] = acc  (delta len = n)  under `if acc:`
    ins = [st for st in walk_local(bp.node) if isinstance(st, ast.Assign) and isinstance(st.targets[0], ast.Subscript) and norm(st.targets[0].value).endswith('.stack')
           and isinstance(st.targets[0].slice, ast.Slice) and is_name(st.value, acc)]
    ctx.require(len(ins) == 1, 'break_patches: insertion of the frames into the stack not recognised')
    sl = ins[0].targets[0].slice
    pure_insert = norm(sl.lower) == norm(sl.upper)
    d_len = 'n' if pure_insert and per_name == 1 else None
    # iterator advance in the same branch
    pm = parent_map(bp.node)
    branch = pm[ins[0]]
    d_iter = 0
    sym = False
    for st in getattr(branch, 'body', []):
        for c in calls_in(st):
            if last_attr(c) == 'increment_patches_iter':
                d_iter += inc_by
            if last_attr(c) == 'decrement_patches_iter':
                d_iter += dec_by
            if last_attr(c) == 'set_patches_iter':
                sym = True
        if isinstance(st, ast.AugAssign) and norm(st.target).endswith('.iter'):
            if isinstance(st.value, ast.Constant):
                d_iter += st.value.value
            else:
                sym = True
    if d_len is None:
        raise AnalysisError('break_patches: stack effect not recognised')
    # belief in child_restored
    beliefs = [st for st in cr.node.body if isinstance(st, ast.Assert)]
    want = None
    for b in beliefs:
        t = norm(b.test)
        if 'patches_iter()' in t and 'len(' in t and '.stack)' in t:
            want = t
    ctx.require(want is not None, 'child_restored: the iter == len(stack) - 1 belief was not found (restore stack redesigned)')
    offset = None
    t = beliefs[0].test
    if isinstance(t, ast.Compare) and isinstance(t.ops[0], ast.Eq) and isinstance(t.comparators[0], ast.BinOp) and isinstance(t.comparators[0].op, ast.Sub) \
            and isinstance(t.comparators[0].right, ast.Constant):
        offset = -t.comparators[0].right.value
    ctx.require(offset is not None, 'child_restored: belief shape not recognised')
    # close: del stack[iter] ; decrement
    dels = [st for st in walk_local(cc.node) if isinstance(st, ast.Delete) and '.stack[' in norm(st.targets[0])]
    decs = [c for c in calls_in(cc.node) if last_attr(c) == 'decrement_patches_iter']
    pop_len, pop_iter = -len(dels), dec_by * len(decs)
    ctx.check('R4', 'close_current_ctx pops one frame and steps the iterator back by one', (pop_len, pop_iter) == (-1, -1), 'RemoteState.close_current_ctx',
              f'pop-effect:{pop_len},{pop_iter}', f'close_current_ctx has effect (len {pop_len}, iter {pop_iter})', where=loc(cc, cc.node))
    # From the belief I: iter = len + offset.  After break_patches(n>=1): iter' = iter + d_iter, len' = len + n.
    # The belief at the first child needs iter + d_iter = len + n + offset  <=>  d_iter = n  (coefficients of n: 0 vs 1 unless d_iter is symbolic in n)
    if sym:
        ctx.ob('R4', 'iterator advance depends on the number of children (symbolic) - balance holds for every n', True)
        holds_for = 'all n'
    else:
        holds_for = f'n == {d_iter}'
    ok = sym
    ctx.sample({'rule': 'C14.R4', 'break_patches_effect': {'len': '+n', 'iter': ('f(n)' if sym else f'+{d_iter}')}, 'belief': want, 'pop_effect': [pop_len, pop_iter],
                'belief_after_break_patches_holds_for': holds_for})
    ctx.check('R4', f'the belief `{want}` still holds at the first child after break_patches(n) for every n >= 1 (holds for {holds_for})', ok,
              'RemoteState.break_patches', f'frame-balance:len+n,iter+{d_iter}|belief:iter==len{offset:+d}',
              f'break_patches(n) inserts n frames but advances the iterator by {d_iter}; child_restored believes iter == len(stack){offset:+d}; starting from that belief the first '
              f'child\'s child_restored needs iter+{d_iter} == len+n{offset:+d}, i.e. {holds_for}: with two or more opt-in direct children (or one shared child) loads() fails with '
              'AssertionError', where=loc(bp, ins[0]))


def check_entry_beliefs(ctx, RS):
    """`assert not hasattr(<per-thread state>, F)` at the start of a load vs. the conditional removal of F at its end"""
    C = RS.nested_classes.get('context')
    if C is None or '__init__' not in C.methods:
        raise AnalysisError('RemoteState.context not found')
    init, ex = C.methods['__init__'], C.methods.get('__exit__')
    ctx.used(init, ex)
    assigned = {t.attr for st in ast.walk(init.node) if isinstance(st, ast.Assign) for t in st.targets if isinstance(t, ast.Attribute)}
    for st in init.node.body:
        if isinstance(st, ast.Assert):
            t = st.test
            if isinstance(t, ast.UnaryOp) and isinstance(t.op, ast.Not) and isinstance(t.operand, ast.Call) and is_name(t.operand.func, 'hasattr') and len(t.operand.args) == 2 \
                    and isinstance(t.operand.args[1], ast.Constant):
                field = t.operand.args[1].value
                if field not in assigned:
                    ctx.ob('R4', f'belief `{norm(st.test)}`: the field is never assigned - vacuously true', True)
                    continue
                okb = False
                if ex is not None:
                    gx = ctx.an.cfg(ex, C)
                    dels = {n.id for n in gx.nodes if n.stmt is not None and isinstance(n.stmt, ast.Delete) and any(isinstance(x, ast.Attribute) and x.attr == field for x in n.stmt.targets)}
                    px = gx.find_path([gx.entry], lambda n: n is gx.exit, edge_ok=is_flow, node_ok=lambda n: n.id not in dels)
                    okb = bool(dels) and px is None
                ctx.check('R4', f'belief `{norm(st.test)}` at the start of a load holds on every history', okb, 'RemoteState.context.__init__', f'belief-contradicted:hasattr:{field}',
                          f'a load asserts that `{field}` does not exist when it starts, but it is only removed when the previous load succeeded: after one failed load every later '
                          'load on that thread fails with AssertionError instead of succeeding', where=loc(init, st))
