"""C12 - stopping the server reaps its children and every parent finds out."""
import ast
import re

from ..astutil import (facts_at, late_bound_closures, AnalysisError, dotted, calls_in, last_attr, receiver, norm, is_name, walk_local, is_self_attr,
                       loc, short, parent_map, names_in)
from ..cfg import is_flow, path_str
from .c03 import split_regions, calls_in_stmts

EXPLANATION = (
    'Static decision (thin, structural) of the server shutdown path. R1: the finally block of RemoteServer.run iterates over '
    'every registry a creation site writes (children and contexts), calls terminate(..., force=True, '
    '_release_remote_ctrl=True) for each element inside a per-element handler and falls back to SIGTERM for survivors; the '
    'graceful-stop exceptions (WorkerTerminatedError, KeyboardInterrupt) are absorbed so that run returns through that '
    'finally. R2: the context helper reaps the children it created in a finally (forced terminate + SIGTERM fallback) and '
    'registers every child it creates. R3: RemoteServerProcess._release_self reaches break_accept(), which connects to the '
    'listening address, so a graceful terminate() of the server process reaches the accept loop; the SIGTERM handler signals '
    'every live child and then re-raises the default action. R4: after a forced kill the server fabricates a well-shaped '
    '(False, None) outcome on the data socket and closes it; the remote control thread closes the data socket when the child '
    'dies, so the parent-side frontend always sees a closed connection (mapped to (False, None) by C01.R3).'
    ' R3 also: the forced stage of the terminate() the server process inherits delivers SIGTERM (Process.terminate / os.kill(..., SIGTERM)), the signal whose handler reaps the children - Process.kill() would by-pass it.')
TECHNIQUE = 'site/shape checks and CFG reachability on RemoteServer.run, the context helper and the release chain'


def reap_loop_ok(ctx, func, loop, what):
    """for child in ...: try: child.terminate(..., force=True, _release_remote_ctrl=True); if child.is_alive(): os.kill(child.pid, SIGTERM) except: log"""
    var = loop.target.id if isinstance(loop.target, ast.Name) else None
    F = func.short
    tries = [st for st in loop.body if isinstance(st, ast.Try)]
    ok = ctx.check('R1' if what == 'server' else 'R2', f'{F}: each element is reaped inside its own handler', len(tries) == 1 and bool(tries[0].handlers), F, f'reap-not-per-element[{what}]',
                   'a failure while terminating one child aborts the reaping of the others', where=loc(func, loop))
    body = tries[0].body if ok else loop.body
    terms = [c for st in body for c in calls_in(st) if last_attr(c) == 'terminate' and receiver(c) == var]
    rule = 'R1' if what == 'server' else 'R2'
    if not ctx.check(rule, f'{F}: terminate() is called on every element', len(terms) == 1, F, f'reap-without-terminate[{what}]',
                     'children are not terminated when the server / context stops', where=loc(func, loop)):
        return
    kw = {k.arg: k.value for k in terms[0].keywords}
    f_ok = isinstance(kw.get('force'), ast.Constant) and kw['force'].value is True
    ctx.check(rule, f'{F}: the children are terminated with force=True', f_ok, F, f'reap-force[{what}]:{norm(kw.get("force"))}',
              'children are reaped without force: a child that swallows the exception survives the server', where=loc(func, terms[0]))
    r_ok = isinstance(kw.get('_release_remote_ctrl'), ast.Constant) and kw['_release_remote_ctrl'].value is True
    ctx.check(rule, f'{F}: the remote control threads are released', r_ok, F, f'reap-release-ctrl[{what}]', 'the remote control threads are not released: the server process cannot exit', where=loc(func, terms[0]))
    t_ok = 'timeout' in kw or terms[0].args
    ctx.check(rule, f'{F}: terminate is bounded', bool(t_ok), F, f'reap-timeout[{what}]', 'terminate of a child is not given a timeout', where=loc(func, terms[0]))
    fb = [st for st in body if isinstance(st, ast.If) and 'is_alive()' in norm(st.test) and not norm(st.test).startswith('not ')
          and any((dotted(c.func) or '') == 'os.kill' and 'SIGTERM' in norm(c) and norm(c.args[0]) == f'{var}.pid' for x in st.body for c in calls_in(x))]
    ctx.check(rule, f'{F}: survivors get SIGTERM', bool(fb), F, f'reap-no-sigterm-fallback[{what}]', 'a child that survives terminate() is not signalled', where=loc(func, loop))


def check_context_reaping(ctx, RCW):
    """must-pass-through, wherever the reaping call `self._target(None, _clean=True)` lives: in do_work (then every exit after the call of the
    inherited work loop passes it) or in an override of the _cleanup hook that the child-main runs in its finally (then every exit of the
    hook passes it, whatever the inherited hook raises first)"""
    def is_clean(c):
        return last_attr(c) == '_target' and any(k.arg == '_clean' and isinstance(k.value, ast.Constant) and k.value.value is True for k in c.keywords)
    homes = [f for f in RCW.methods.values() if any(is_clean(c) for c in calls_in(f.node))]
    if not homes:
        return False, [], RCW.relpath if hasattr(RCW, 'relpath') else None
    ok_all, pth, where = True, [], None
    for f in homes:
        ctx.used(f)
        if f.name not in ('do_work', '_cleanup'):
            ok_all, where = False, loc(f, f.node)
            continue
        g = ctx.an.cfg(f, RCW)
        clean_ids = {n.id for n in g.nodes if n.stmt is not None and n.part == 'post' and any(is_clean(c) for c in n.calls())}
        if f.name == 'do_work':
            starts = [n for n in g.nodes if n.stmt is not None and n.part == 'eval' and any(last_attr(c) == 'do_work' and receiver(c) == 'super()' for c in n.calls())]
        else:
            starts = [g.entry]
        if not starts or not clean_ids:
            ok_all, where = False, loc(f, f.node)
            continue
        exits = {n.id for n in g.exits()}
        # an exception of the reaping call itself is not a way around it
        edge_ok = lambda e: e.kind != 'async' and not (e.kind == 'exc' and e.call is not None and is_clean(e.call))
        p = g.find_path(starts, lambda n: n.id in exits, edge_ok=edge_ok, node_ok=lambda n: n.id not in clean_ids)
        if p is not None:
            ok_all, pth, where = False, path_str(p), loc(f, f.node)
    return ok_all, pth, where


def _stmt_of(pm, node):
    while node in pm and not isinstance(node, ast.stmt):
        node = pm[node]
    return node


def sigterm_handler(ih):
    """the closure of install_handlers that is registered for SIGTERM (found by role, not by name)"""
    for c in calls_in(ih.node):
        if (dotted(c.func) or '') == 'signal.signal' and len(c.args) == 2 and 'SIGTERM' in norm(c.args[0]) and isinstance(c.args[1], ast.Name) and c.args[1].id in ih.nested:
            return ih.nested[c.args[1].id]
    return None


def run(ctx):
    P = ctx.prog
    RS = P.cls('RemoteServer')
    run_f = RS.methods['run']
    ctx.used(run_f)
    # ---------------------------------------------------------------- R1 reap loop covers the registries
    tries = [t for t in run_f.node.body if isinstance(t, ast.Try) and t.finalbody]
    ctx.require(tries, 'RemoteServer.run: try/finally not found')
    t = tries[0]
    # registries written by creation sites in the loop
    regs = set()
    for st in t.body:
        for n in walk_local(st):
            if isinstance(n, ast.Call) and last_attr(n) == 'append' and (receiver(n) or '').startswith('self.'):
                regs.add(receiver(n).split('.')[1])
            if isinstance(n, ast.Assign) and isinstance(n.targets[0], ast.Subscript) and is_self_attr(n.targets[0].value):
                regs.add(n.targets[0].value.attr)
    ctx.floor('server registries written by creation sites', len(regs), 2)
    loops = [n for st in t.finalbody for n in walk_local(st) if isinstance(n, ast.For)]
    covered = set()

    def local_defs():
        # name -> defining expression, for plain and tuple assignments of the finally block (`a, self.x = self.x, []` defines a as self.x)
        out = {}
        for st in t.finalbody:
            for x in walk_local(st):
                if isinstance(x, ast.Assign):
                    for tg in x.targets:
                        if isinstance(tg, ast.Name):
                            out[tg.id] = x.value
                        if isinstance(tg, ast.Tuple) and isinstance(x.value, ast.Tuple) and len(tg.elts) == len(x.value.elts):
                            for a, b in zip(tg.elts, x.value.elts):
                                if isinstance(a, ast.Name):
                                    out[a.id] = b
        return out

    def iter_text(lp):
        # follow locals (snapshots): `closing = list(chain(self.children, ...))`, `children, self.children = self.children, []` ; `for child in chain(children, ...)`
        defs = local_defs()
        txt = norm(lp.iter)
        for _ in range(3):
            for nm, ex in defs.items():
                txt = re.sub(r'(?<![\w.])' + re.escape(nm) + r'\b', '(' + norm(ex) + ')', txt)
        return txt
    for lp in loops:
        for r in regs:
            if f'self.{r}' in iter_text(lp):
                covered.add(r)
    # the registries stay populated until the reap loop is over: the SIGTERM handler (and a second shutdown request) rely on them
    reap = [lp for lp in loops if any(f'self.{r}' in iter_text(lp) for r in regs)]
    if reap:
        first_loop_idx = min(t.finalbody.index(st) for st in t.finalbody if any(lp is st or any(lp is x for x in ast.walk(st)) for lp in reap))
        early = [c for i, st in enumerate(t.finalbody) if i < first_loop_idx for c in calls_in(st)
                 if last_attr(c) in ('clear', 'pop', 'popitem') and (receiver(c) or '') in tuple(f'self.{r}' for r in regs)]
        early += [st for i, st in enumerate(t.finalbody) if i < first_loop_idx and isinstance(st, ast.Assign) and any(
            is_self_attr(x) and x.attr in regs for tg in st.targets for x in (tg.elts if isinstance(tg, ast.Tuple) else [tg]))]
        ctx.check('R1', 'the registries are emptied only after every child has been reaped', not early, 'RemoteServer.run', 'registry-cleared-before-reaping',
                  'the shutdown path empties children/contexts before it has terminated them: a SIGTERM that arrives while the server is still reaping (e.g. the forced kill of '
                  'server.terminate(timeout) when a child needs its whole grace period) finds nothing to kill - the remaining children outlive the server and their parents block',
                  where=loc(run_f, early[0]) if early else None)
    # ... and while the server is serving, a child leaves the `children` registry only on evidence that its *process* is gone: both shutdown paths (the
    # finally loop and the SIGTERM handler) walk that list, so a live child dropped from it outlives the server.  In the accept loop the list is appended
    # to; a pruning is accepted only as a filter that keeps every child whose is_alive() is true.
    acc_loops = [n for n in walk_local(run_f.node) if isinstance(n, ast.While) and any(last_attr(c) == 'accept' for c in calls_in(n))]
    for lp0 in acc_loops:
        for n in walk_local(lp0):
            what = None
            if isinstance(n, ast.Call) and (receiver(n) or '') == 'self.children' and last_attr(n) in ('remove', 'pop', 'clear', '__delitem__', 'discard'):
                what = n
            if isinstance(n, ast.Delete) and any('self.children' in norm(tg) for tg in n.targets):
                what = n
            if isinstance(n, (ast.Assign, ast.AugAssign)) and any(is_self_attr(tg, 'children') or (isinstance(tg, ast.Subscript) and is_self_attr(tg.value, 'children'))
                                                                     for tg in (n.targets if isinstance(n, ast.Assign) else [n.target])):
                v = n.value
                keeps_alive = False
                if isinstance(n, ast.Assign) and isinstance(v, ast.ListComp) and len(v.generators) == 1 and norm(v.generators[0].iter) == 'self.children' \
                        and isinstance(v.generators[0].target, ast.Name) and is_name(v.elt, v.generators[0].target.id) and len(v.generators[0].ifs) == 1:
                    var = v.generators[0].target.id
                    from ..astutil import canon as _canon
                    keeps_alive = _canon(v.generators[0].ifs[0]) == (f'{var}.is_alive()', True)
                if not keeps_alive:
                    what = n
            if what is not None:
                ctx.check('R1', 'RemoteServer.run: a child leaves the registry of the serving loop only when its process is dead', False, 'RemoteServer.run',
                          f'child-dropped-from-registry:{norm(what)[:70]}',
                          f'`{short(what)}` takes children out of self.children while the server is serving on a criterion other than the death of the child process: a live '
                          'child that is no longer listed is reaped neither by the shutdown loop nor by the SIGTERM handler - it outlives the server and its parent never finds out',
                          where=loc(run_f, what))
    ctx.ob('R1', f'the accept loop only appends to self.children ({len(acc_loops)} loop)', bool(acc_loops))
    for r in sorted(regs):
        ctx.check('R1', f'RemoteServer.run: the shutdown loop covers the registry `{r}`', r in covered, 'RemoteServer.run', f'registry-not-reaped:{r}',
                  f'children registered in `{r}` are not terminated when the server stops: their processes outlive it and their parents never find out', where=loc(run_f, t))
    for lp in loops:
        if any(f'self.{r}' in iter_text(lp) for r in regs):
            reap_loop_ok(ctx, run_f, lp, 'server')
    # graceful stop is absorbed -> finally -> normal return
    types = [set(ctx.an.handler_types(h, run_f)) for h in t.handlers]
    absorbed = any({'WorkerTerminatedError'} <= ty and not any(isinstance(x, ast.Raise) for x in h.body) for ty, h in zip(types, t.handlers))
    ctx.check('R1', 'RemoteServer.run absorbs the graceful-stop exception and returns through the finally', absorbed, 'RemoteServer.run', 'graceful-stop-not-absorbed',
              'WorkerTerminatedError is not absorbed by RemoteServer.run', where=loc(run_f, t))
    sock_closed = any(last_attr(c) == 'close' and receiver(c) == 'self.socket' for st in t.finalbody for c in calls_in(st))
    ctx.check('R1', 'RemoteServer.run closes the listening socket on shutdown', sock_closed, 'RemoteServer.run', 'listener-not-closed', 'the listening socket stays open after shutdown', where=loc(run_f, t))

    # ---------------------------------------------------------------- R2 context helper
    RC = P.cls('RemoteContext')
    cwf = RC.methods['_create_worker']
    RCW = P.cls('RemoteContextWorker')
    dw = RCW.methods['do_work']
    ctx.used(cwf, dw)
    ok, pth, where = check_context_reaping(ctx, RCW)
    ctx.check('R2', 'RemoteContextWorker: once the work loop has started, every way the helper process ends passes the reaping of the context\'s children (`_clean`)', ok,
              'RemoteContextWorker.do_work', 'context-cleanup-not-in-finally',
              'the context helper can end without reaping the workers of its context (an exception - e.g. the BrokenPipeError of the end marker written to a server that is already gone - '
              'leaves the function that contains the reaping before the reaping is reached): the children outlive the server and their parents never find out',
              where=where, path=pth)
    clean = [st for st in cwf.node.body if isinstance(st, ast.If) and norm(st.test) == '_clean']
    ok = bool(clean)
    if ok:
        lps = [n for st in clean[0].body for n in walk_local(st) if isinstance(n, ast.For) and 'self._children' in norm(n.iter)]
        comps = [(n, g) for st in clean[0].body for n in ast.walk(st) if isinstance(n, (ast.ListComp, ast.GeneratorExp, ast.SetComp)) for g in n.generators if 'self._children' in norm(g.iter)]
        ok = bool(lps) or bool(comps)
        # a closure created per child must bind that child when it is created (default argument, args=) - not read the loop variable when it finally runs
        for cl, v in late_bound_closures(clean[0]):
            ctx.check('R2', 'RemoteContext._create_worker(_clean=True): what is started per child is bound to that child', False, 'RemoteContext._create_worker', f'late-binding-closure:{v}',
                      f'`{short(cl, 60)}` reads the loop variable `{v}` when it runs, not when it is created: started after the iteration has moved on, every one of them ends the last '
                      'child only - the other workers of a deleted context stay alive (and keep running its target) while the server reports the delete as done', where=loc(cwf, cl))
        if lps and any(last_attr(c) == 'terminate' for c in calls_in(lps[0])):
            reap_loop_ok(ctx, cwf, lps[0], 'context')
        elif ok:
            # the per-child work lives in a local function applied to each child (directly, or as the target of a thread with args=(child,)): judge its body
            holder = lps[0] if lps else comps[0][0]
            var = (lps[0].target.id if lps and isinstance(lps[0].target, ast.Name) else (comps[0][1].target.id if comps and isinstance(comps[0][1].target, ast.Name) else None))
            used = {x.id for x in ast.walk(holder) if isinstance(x, ast.Name)}
            helpers = [g for g in ast.walk(cwf.node) if isinstance(g, ast.FunctionDef) and g is not cwf.node and g.name in used and g.args.args]
            if helpers:
                g = helpers[0]
                synth = ast.For(target=ast.Name(id=g.args.args[0].arg, ctx=ast.Store()), iter=holder.iter if lps else comps[0][1].iter, body=g.body, orelse=[])
                ast.copy_location(synth, g)
                reap_loop_ok(ctx, cwf, synth, 'context')
            else:
                ok = False
    ctx.check('R2', 'RemoteContext._create_worker(_clean=True) iterates over the children it created', ok, 'RemoteContext._create_worker', 'context-clean-loop',
              'the clean-up branch of the context helper does not iterate over its children', where=loc(cwf, cwf.node))
    reg = [c for c in calls_in(cwf.node) if last_attr(c) == 'append' and receiver(c) == 'self._children']
    ctx.check('R2', 'RemoteContext._create_worker registers every worker it creates', len(reg) == 1, 'RemoteContext._create_worker', 'context-child-not-registered',
              'workers created inside a context are not remembered: deleting the context or stopping the server leaves them running', where=loc(cwf, cwf.node))

    # ---------------------------------------------------------------- R3 graceful path reaches the accept loop
    RSP = P.cls('RemoteServerProcess')
    rs = RSP.methods.get('_release_self')
    ok = rs is not None and any(last_attr(c) == 'break_accept' for c in calls_in(rs.node))
    ctx.check('R3', 'RemoteServerProcess._release_self calls break_accept()', ok, 'RemoteServerProcess._release_self', 'release-self-missing',
              'a graceful terminate() of the server process does not wake the blocking accept(): the injected exception is never noticed', where=loc(rs, rs.node) if rs else None)
    ba = RS.methods.get('break_accept')
    ctx.require(ba is not None, 'RemoteServer.break_accept not found')
    ctx.used(rs, ba)
    conns = [c for c in calls_in(ba.node) if last_attr(c) == 'connect']
    ok = bool(conns) and all('self.addr' in norm(c) for c in conns)
    ctx.check('R3', 'break_accept connects to the listening address', ok, 'RemoteServer.break_accept', 'break-accept-target', 'break_accept does not connect to the server\'s own address',
              where=loc(ba, ba.node))
    ih = RS.methods.get('install_handlers')
    ctx.require(ih is not None, 'RemoteServer.install_handlers not found')
    cu = sigterm_handler(ih)
    ctx.require(cu is not None, 'RemoteServer.install_handlers: the closure installed for SIGTERM was not found')
    ctx.used(ih, cu)
    lp = [n for n in walk_local(cu.node) if isinstance(n, ast.For) and 'self.children' in norm(n.iter)]
    ok = bool(lp) and any((dotted(c.func) or '') == 'os.kill' and 'SIGTERM' in norm(c) for c in calls_in(lp[0]))
    ctx.check('R3', 'SIGTERM handler signals every live child', ok, 'RemoteServer.install_handlers.<cleanup>', 'sigterm-children', 'the SIGTERM handler does not signal the children', where=loc(cu, cu.node))
    calls = [norm(c) for c in calls_in(cu.node)]
    ok = any('signal.signal(signal.SIGTERM, signal.SIG_DFL)' in c for c in calls) and any('os.kill(os.getpid(), signal.SIGTERM)' in c for c in calls)
    ctx.check('R3', 'SIGTERM handler re-raises the default action', ok, 'RemoteServer.install_handlers.<cleanup>', 'sigterm-not-reraised', 'after cleaning up the SIGTERM handler does not terminate the server',
              where=loc(cu, cu.node))
    reg = any((dotted(c.func) or '') == 'signal.signal' and 'SIGTERM' in norm(c.args[0]) and is_name(c.args[1], cu.name) for c in calls_in(ih.node))
    ctx.check('R3', 'the SIGTERM handler is installed', reg, 'RemoteServer.install_handlers', 'sigterm-not-installed', 'install_handlers does not install the SIGTERM handler', where=loc(ih, ih.node))
    # the forced stage of stopping the server must deliver the signal that handler is installed for: RemoteServerProcess inherits terminate() from the
    # process kind, whose forced kill is a call on self._child - Process.terminate() (SIGTERM) runs the handler, Process.kill() (SIGKILL) by-passes it
    RSP = P.cls('RemoteServerProcess')
    tf = RSP.find_method('terminate') if hasattr(RSP, 'find_method') else None
    if tf is None:
        for c0 in RSP.mro():
            if not isinstance(c0, str) and 'terminate' in c0.methods:
                tf = c0.methods['terminate']
                break
    ctx.require(tf is not None, 'RemoteServerProcess: terminate() not resolved')
    ctx.used(tf)
    forced = [c for c in calls_in(tf.node) if last_attr(c) in ('terminate', 'kill') and receiver(c) == 'self._child'] + \
             [c for c in calls_in(tf.node) if (dotted(c.func) or '') == 'os.kill']
    bad = [c for c in forced if last_attr(c) == 'kill' and receiver(c) == 'self._child'] + [c for c in forced if (dotted(c.func) or '') == 'os.kill' and 'SIGTERM' not in norm(c)]
    ctx.check('R3', f'{tf.short} (the terminate() of the server process): the forced stage sends SIGTERM, the signal whose handler reaps the children', bool(forced) and not bad, tf.short,
              'server-forced-stop-bypasses-the-handler:' + (norm(bad[0].func) if bad else 'none'),
              f'the forced stage of {tf.short} uses `{norm(bad[0]) if bad else "?"}`: the server process is killed without running its SIGTERM handler, so a server that did not finish its '
              'graceful shutdown within the timeout (a client half-way through a request, children that take long to reap) dies leaving its children running - and their parents, '
              'whose sockets the orphans still hold, never find out', where=loc(tf, bad[0] if bad else tf.node))
    ctx.note('the SIGTERM handler iterates only over `children` (not `contexts`); checked by experiment to be benign (context helpers exit on EOF of their input pipe) - not armed')

    # ---------------------------------------------------------------- R4 forced kill reports and closes; control thread closes on child death
    RW = P.cls('RemoteWorker')
    term = RW.methods['terminate']
    ctx.used(term)
    reg2 = split_regions(term)
    ctx.require(reg2 is not None, 'RemoteWorker.terminate: regions not recognised')
    stmts = reg2['server']
    g = ctx.an.cfg(term, RW)
    kill = [n for n in g.nodes if n.stmt is not None and n.part == 'post' and any(last_attr(c) in ('terminate', 'kill') and receiver(c) == 'self._child' for c in n.calls())]
    fab = {n.id for n in g.nodes if n.stmt is not None and n.part == 'eval' and any(last_attr(c) == 'send_msg' and len(c.args) >= 2 and norm(c.args[1]) == '(False, None)' and norm(c.args[0]) == 'self._socket' for c in n.calls())}
    rets = [n for n in g.nodes if n.kind == 'return']
    p = g.find_path(kill, lambda n: n in rets, edge_ok=is_flow, node_ok=lambda n: n.id not in fab)
    ctx.check('R4', 'RemoteWorker.terminate[server]: after a forced kill a (False, None) outcome is sent on the data socket', bool(kill) and p is None, 'RemoteWorker.terminate',
              'forced-kill-no-outcome', 'after force-killing the backend the server does not tell the parent: the frontend keeps waiting for a result', where=loc(term, term.node))
    from ..sockets import _calls_following_helpers, check_child_death_eof, check_forced_kill_eof
    closes = [c for c in _calls_following_helpers(ctx, RW, term, stmts) if last_attr(c) == 'close' and receiver(c) == 'self._socket']
    ctx.check('R4', 'RemoteWorker.terminate[server]: the data socket is closed after the fabricated outcome', bool(closes), 'RemoteWorker.terminate', 'forced-kill-socket-open',
              'the server keeps the data socket open after a forced kill', where=loc(term, term.node))
    cr = RW.methods['_ctrl_fn_remote']
    ctx.used(cr)
    check_child_death_eof(ctx, 'R4')
    check_forced_kill_eof(ctx, 'R4')
    # _release_remote_ctrl: after the child is dead the control thread is told to stop
    # the statements guarded by `_release_remote_ctrl` being true, wherever in a (possibly nested / inverted) conditional the flag is tested
    pmt = parent_map(term.node)
    guarded_calls = [c for st in stmts for c in calls_in(st)
                     if ('_release_remote_ctrl', True) in facts_at(pmt, _stmt_of(pmt, c))]
    ok = any(last_attr(c) == 'foreign_raise' and 'GracefulExitError' in norm(c) for c in guarded_calls) and any(last_attr(c) == 'join' for c in guarded_calls)
    ctx.check('R4', 'RemoteWorker.terminate[server]: _release_remote_ctrl stops and joins the remote control thread', ok, 'RemoteWorker.terminate', 'ctrl-thread-not-released',
              'the remote control thread is not stopped on server shutdown', where=loc(term, term.node))
