"""C16 - user_state is synchronised child-to-parent at end of life, and only then."""
import ast

from ..astutil import (receiver_texts, AnalysisError, dotted, calls_in, last_attr, receiver, norm, is_name, walk_local, is_self_attr,
                       loc, short, parent_map, names_in)
from ..cfg import is_flow, path_str
from ..lifecycle import lifecycle, worker_classes, PUBLIC

EXPLANATION = (
    'Static decision of how user_state travels. R1: every outcome message of the process kinds is a 2-tuple whose second '
    'element is self._user_state read at send time, on the success and on the exception path, and the parent unpacks it '
    'together with the pair; the remote backend sends the state as the message immediately after the outcome on every path, '
    'and both frontends read outcome then state in the same order (send-sequence / receive-sequence agreement). R2: on the '
    'parent side the state attribute is written only by the constructor and the outcome-fetch functions; the property setter '
    'stores only after the is_child guard that raises otherwise. R3: restart() calls _get_result() before '
    '_get_restart_args(), and the restart arguments carry the state attribute as init_state. R4: for each kind the '
    'parent-side store of the received state is either eager (made by the frontend thread that wait/terminate/is_alive join '
    'before reporting death) or deferred to a function that runs on demand - then that function is reachable from the '
    'user_state getter itself, so a parent that reads user_state right after wait() returned True sees the child\'s value.'
    " R1 also: the received state is stored whatever its value - the unpacking may go through a local, but the store into the state attribute has no test of its own (None or an empty container is a state the child may have assigned last); nobody but the reader closes the parent's end of the pipe that carries the final message.")
TECHNIQUE = 'channel send/receive sequence agreement, who-may-write, call-graph reachability from the getter'

STATE = '_user_state'


def run(ctx):
    P = ctx.prog
    W = P.cls('Worker')
    getter = W.methods['user_state']
    setter = W.setters.get('user_state')
    ctx.require(setter is not None, 'Worker.user_state setter not found')
    ctx.used(getter, setter)
    # the attribute behind the property
    rets = [st.value for st in walk_local(getter.node) if isinstance(st, ast.Return)]
    ctx.require(rets and is_self_attr(rets[-1]), 'Worker.user_state getter does not return an attribute')
    attr = rets[-1].attr

    seen = set()
    for cls in worker_classes(P, internal=False):
        lc = lifecycle(ctx, cls)
        if (lc.main.qualname, lc.kind) in seen:
            continue
        seen.add((lc.main.qualname, lc.kind))
        ctx.used(lc.main)
        # ------------------------------------------------------------ R1 child side
        if lc.kind == 'process':
            sends = {}
            for r in lc.recorders:
                if r.how == 'send':
                    sends.setdefault(id(r.stmt), r)
            ctx.floor(f'{lc.main.short}: outcome sends', len(sends), 1 if lc.outcome_var else 2)
            check_report_first(ctx, cls, lc, attr)
            # the state travels in the child's final message: the parent's end of that pipe is closed by nobody but the function that reads the message
            chan_end = f'self.{lc.outcome_channel}.parent_end'
            for c in lc.cls.mro():
                if isinstance(c, str):
                    continue
                for f2 in c.methods.values():
                    if f2 is lc.main or f2 is lc.get_result or (f2.qualname, 'close') in seen:
                        continue
                    for call in calls_in(f2.node):
                        if last_attr(call) == 'close' and chan_end in receiver_texts(f2.node, call):
                            seen.add((f2.qualname, 'close'))
                            ctx.check('R1', f'{f2.short}: the pipe that carries the final (outcome, state) message is not closed before the message has been read', False, f2.short,
                                      f'state-channel-closed:{f2.name}', f'{f2.short} closes {chan_end} while the child\'s final message may still be unread: the parent keeps the '
                                      'initial user_state (and restart() passes it on) although the child reported', where=loc(f2, call))
            st_of = {n.id: e for n, e in lc.state_sends}
            for r in sends.values():
                a = r.call.args[0] if r.call.args else r.call
                se = st_of.get(r.node.id)
                ok = se is not None and is_self_attr(se, attr)
                ctx.check('R1', f'{lc.main.short}: the {"success" if r.flag else "failure"} report carries self.{attr}', ok, lc.main.short,
                          f'report-without-state:{"success" if r.flag else "failure"}:{norm(se) if se is not None else norm(a)}',
                          f'the {"success" if r.flag else "failure"} report of the child sends `{norm(a)}`: the last user_state assigned in the child never reaches the parent', where=loc(lc.main, r.stmt))
            gr = lc.get_result
            ctx.used(gr)
            un = [st for st in walk_local(gr.node) if isinstance(st, ast.Assign) and isinstance(st.targets[0], ast.Tuple) and len(st.targets[0].elts) == 2]
            ok = len(un) >= 1 and is_self_attr(un[0].targets[0].elts[0], lc.slot)
            cond = None
            if ok and not is_self_attr(un[0].targets[0].elts[1], attr):
                # the state may go through a local first; it must then be stored wherever the unpacking ran (no test of its own in between:
                # every value, None included, is a state the child may have assigned last)
                from ..astutil import guards_of
                tmp = un[0].targets[0].elts[1]
                pm = parent_map(gr.node)
                base = {id(g0) for g0, _ in guards_of(pm, un[0], gr.node)}
                stores = [st for st in walk_local(gr.node) if isinstance(st, ast.Assign) and len(st.targets) == 1 and is_self_attr(st.targets[0], attr)
                          and isinstance(tmp, ast.Name) and is_name(st.value, tmp.id) and st.lineno > un[0].lineno]
                ok = bool(stores)
                extra = [g0 for st in stores for g0, _ in guards_of(pm, st, gr.node) if id(g0) not in base]
                if ok and len(extra) >= len(stores):
                    cond = extra[0]
            ctx.check('R1', f'{gr.short}: the parent unpacks (outcome, state) into the slot and self.{attr}', ok, gr.short, 'state-not-unpacked',
                      f'{gr.short} does not store the received state: the parent keeps the initial user_state', where=loc(gr, gr.node))
            ctx.check('R1', f'{gr.short}: the received state is stored whatever its value', cond is None, gr.short, 'state-stored-conditionally',
                      f'{gr.short} stores the received state only under `{norm(cond.test) if cond is not None else ""}`: a child whose last assignment is a value '
                      'failing that test (None, an empty container) leaves the parent - and the next incarnation after restart() - with the previous state',
                      where=loc(gr, cond if cond is not None else gr.node))
        elif lc.kind == 'remote':
            g = lc.g
            out = [r for r in lc.recorders if r.how == 'send']
            st_ids = {n.id for n, a in lc.state_sends if is_self_attr(a, attr)}
            ctx.check('R1', f'{lc.main.short}: the backend sends self.{attr}', bool(st_ids), lc.main.short, 'state-not-sent',
                      'the backend never sends its user_state', where=loc(lc.main, lc.main.node))
            for r in out:
                # the very next send on the data socket after the outcome is the state
                nxt = g.find_path([r.node], lambda n: n.stmt is not None and n.part == 'eval' and n.stmt is not r.stmt and any(last_attr(c) == 'send_msg' for c in n.calls()), edge_ok=is_flow)
                ok = False
                if nxt:
                    tgt = nxt[-1].dst
                    ok = any(last_attr(c) == 'send_msg' and len(c.args) >= 2 and is_self_attr(c.args[1], attr) and norm(c.args[0]) == lc.outcome_socket for c in tgt.calls())
                ctx.check('R1', f'{lc.main.short}: the message following the outcome is self.{attr}', ok, lc.main.short, 'state-not-after-outcome',
                          'the backend does not send user_state as the message right after the outcome: the frontend reads something else as the state (or the outcome as the state)',
                          where=loc(lc.main, r.stmt))
            # frontends: outcome read then state read
            _, fr = cls.resolve('_fetch_results')
            if fr.qualname not in seen:
                seen.add(fr.qualname)
                ctx.used(fr)
                stores = [st for st in walk_local(fr.node) if isinstance(st, ast.Assign) and any(is_self_attr(t, attr) for t in st.targets)]
                ok = len(stores) == 1 and isinstance(stores[0].value, ast.Call) and last_attr(stores[0].value) == 'recv_msg' and norm(stores[0].value.args[0]) == 'self._socket'
                ctx.check('R1', f'{fr.short}: stores the message read after the outcome into self.{attr}', ok, fr.short, 'frontend-state-store',
                          f'{fr.short} does not store the state message into self.{attr}', where=loc(fr, fr.node))
                if ok:
                    gg = ctx.an.cfg(fr, cls)
                    snode = [n for n in gg.nodes if n.stmt is stores[0] and n.part == 'eval']
                    slot_stores = {n.id for n in gg.nodes if n.stmt is not None and n.part in (None, 'store') and isinstance(n.stmt, ast.Assign) and any(is_self_attr(t, lc.slot) for t in n.stmt.targets)
                                   and not isinstance(n.stmt.value, ast.Tuple)}
                    dom = gg.dominators(edge_ok=is_flow)
                    ok2 = bool(snode) and all(dom.get(n.id, set()) & slot_stores for n in snode)
                    ctx.check('R1', f'{fr.short}: the state is read after the outcome has been received', ok2, fr.short, 'state-read-before-outcome',
                              f'{fr.short} reads the state message before the outcome: the two are swapped', where=loc(fr, stores[0]))

    # ---------------------------------------------------------------- R2 who writes the state on the parent side
    n_w = 0
    for f in P.funcs.values():
        if f.cls is None or W not in f.cls.mro():
            continue
        for st in walk_local(f.node):
            tg = []
            if isinstance(st, ast.Assign):
                for t in st.targets:
                    tg += t.elts if isinstance(t, ast.Tuple) else [t]
            elif isinstance(st, ast.AugAssign):
                tg = [st.target]
            for t in tg:
                if is_self_attr(t, attr):
                    n_w += 1
                    ok = (f.name == '__init__' and f.cls is W) or f.name in ('_get_result', '_fetch_results') or f is setter or \
                        (f.name == '_start' and isinstance(st.targets[0], ast.Tuple))
                    ctx.check('R2', f'{f.short}: store to self.{attr} is made by the constructor / an outcome-fetch function / the guarded setter', ok, f.short,
                              f'foreign-state-writer:{f.name}', f'{f.short} assigns self.{attr}: the parent\'s user_state changes at another moment than the end of the child\'s life',
                              where=loc(f, st))
    ctx.floor('stores to the state attribute', n_w, 5)
    # constructor: from init_state
    init = W.methods['__init__']
    ok = any(isinstance(st, ast.Assign) and any(is_self_attr(t, attr) for t in st.targets) and is_name(st.value, 'init_state') for st in walk_local(init.node))
    ctx.check('R2', 'Worker.__init__: the state starts as init_state', ok, 'Worker.__init__', 'init-state', 'the initial user_state is not the init_state argument', where=loc(init, init.node))
    # setter guard
    g = ctx.an.cfg(setter, W)
    stores = [n for n in g.nodes if n.stmt is not None and n.part in (None, 'store') and isinstance(n.stmt, ast.Assign) and any(is_self_attr(t, attr) for t in n.stmt.targets)]
    good = set()
    for n in g.nodes:
        if n.kind == 'test' and isinstance(n.stmt, ast.If) and n.part in (None, 'post'):
            t = norm(n.stmt.test)
            if t == 'not self.is_child' and any(isinstance(x, ast.Raise) for x in n.stmt.body):
                good |= {e.dst.id for e in n.succ if e.kind == 'false'}
            if t == 'self.is_child':
                good |= {e.dst.id for e in n.succ if e.kind == 'true'}
    dom = g.dominators(edge_ok=is_flow)
    ok = bool(stores) and all(dom.get(n.id, set()) & good for n in stores)
    ctx.check('R2', 'user_state setter: the store is dominated by the is_child guard', ok, 'Worker.user_state.setter', 'setter-unguarded',
              'user_state can be assigned from the parent: the change is never seen by the child and is overwritten when the child ends', where=loc(setter, setter.node))
    raises = any(isinstance(st, ast.If) and norm(st.test) == 'not self.is_child' and any(isinstance(x, ast.Raise) for x in st.body) for st in walk_local(setter.node))
    ctx.check('R2', 'user_state setter rejects assignments from the parent', raises, 'Worker.user_state.setter', 'setter-does-not-raise',
              'assigning user_state from the parent is not rejected', where=loc(setter, setter.node))

    # ---------------------------------------------------------------- R3 restart
    PW = P.cls('PersistentWorker')
    rs = PW.methods['restart']
    ctx.used(rs)
    gr_calls = [c for c in calls_in(rs.node) if last_attr(c) == '_get_result' and receiver(c) == 'self']
    ra_calls = [c for c in calls_in(rs.node) if last_attr(c) == '_get_restart_args' and receiver(c) == 'self']
    clears = [c for c in calls_in(rs.node) if last_attr(c) == 'clear' and '__dict__' in (receiver(c) or '')]
    ok = bool(gr_calls) and bool(ra_calls) and gr_calls[0].lineno < ra_calls[0].lineno and (not clears or ra_calls[0].lineno < clears[0].lineno)
    if ok:
        # must-pass-through: every path that reaches _get_restart_args() has completed a _get_result()
        gg = ctx.an.cfg(rs, PW)
        sync = {n.id for n in gg.nodes if n.stmt is not None and n.part == 'post' and any(c in gr_calls for c in n.calls())}
        tgt = [n for n in gg.nodes if n.stmt is not None and n.part == 'eval' and any(c in ra_calls for c in n.calls())]
        pth = gg.find_path([gg.entry], lambda n: n in tgt, edge_ok=is_flow, node_ok=lambda n: n.id not in sync)
        if pth is not None:
            ok = False
            ctx.sample({'rule': 'C16.R3', 'path_without_sync': path_str(pth)})
    ctx.check('R3', 'restart(): _get_result() (state sync) precedes _get_restart_args(), which precedes __dict__.clear()', ok, 'PersistentWorker.restart', 'restart-order',
              'restart() collects the constructor arguments before the last user_state of the old incarnation has been fetched (or after it was cleared): '
              'the new incarnation starts from a stale state', where=loc(rs, rs.node))
    ga = W.methods['_get_restart_args']
    ctx.used(ga)
    ok = False
    for st in walk_local(ga.node):
        if isinstance(st, ast.Return):
            for d in ast.walk(st.value):
                if isinstance(d, ast.Dict):
                    for k, v in zip(d.keys, d.values):
                        if isinstance(k, ast.Constant) and k.value == 'init_state' and is_self_attr(v, attr):
                            ok = True
    ctx.check('R3', f'_get_restart_args passes self.{attr} as init_state', ok, 'Worker._get_restart_args', 'restart-args-without-state',
              'restart() does not start the new incarnation from the last synchronised state', where=loc(ga, ga.node))

    # ---------------------------------------------------------------- R4 the getter sees the synchronised value
    done = set()
    for name in PUBLIC:
        cls = P.cls(name)
        lc = lifecycle(ctx, cls)
        if lc.kind == 'thread':
            ctx.ob('R4', f'{name}: shared memory - no transfer needed', True)
            continue
        if lc.kind == 'remote':
            # eager: the frontend thread stores it before it ends, and wait()/is_alive() join / test that thread
            _, w = cls.resolve('wait')
            joins = reaches_join(ctx, cls, w, set())
            ctx.check('R4', f'{name}: the state is stored by the frontend thread, which wait() joins before reporting death', joins, w.short, 'frontend-not-joined',
                      f'{w.short} can report the worker dead without having joined the frontend thread that stores the state', where=loc(w, w.node))
            check_wait_joins(ctx, cls, w, done)
            continue
        # deferred (process kinds): the store sits in _get_result; it must be reachable from the getter
        reach = reaches(ctx, cls, getter, lc.get_result.name, set())
        ctx.check('R4', f'{name}: the deferred store in {lc.get_result.short} is reachable from the user_state getter', reach, 'Worker.user_state', f'getter-does-not-sync:{lc.kind}',
                  f'the {lc.kind} kinds receive the state lazily in {lc.get_result.short}, which the user_state getter never reaches: after wait() returned True user_state is '
                  'still the initial value until result/error/has_error has been read once', where=loc(getter, getter.node))


def reaches(ctx, cls, func, name, seen, depth=0):
    if func is None or func.qualname in seen or depth > 4:
        return False
    seen.add(func.qualname)
    for c in calls_in(func.node):
        if receiver(c) in ('self', 'super()'):
            if last_attr(c) == name:
                return True
            r = ctx.prog.resolve_call(c, func, cls)
            if r and r[0] == 'func' and reaches(ctx, cls, r[1], name, seen, depth + 1):
                return True
    return False


def reaches_join(ctx, cls, func, seen, depth=0):
    if func is None or func.qualname in seen or depth > 3:
        return False
    seen.add(func.qualname)
    for c in calls_in(func.node):
        if last_attr(c) == 'join' and receiver(c) == 'self._child':
            return True
        if receiver(c) in ('self', 'super()'):
            r = ctx.prog.resolve_call(c, func, cls)
            if r and r[0] == 'func' and r[1].name == func.name and reaches_join(ctx, cls, r[1], seen, depth + 1):
                return True
    return False


def check_wait_joins(ctx, cls, w, done):
    """R4 must-pass-through for the eager (remote) kinds: the frontend thread stores the outcome first and the state second, so
    "the outcome is there" is no evidence that the state is.  On the parent side of wait(), every path to a return that can
    report the worker dead passes the join of the frontend thread, a delegation to the inherited wait(), or the true side of a
    dead guard (the dead flag itself is only set with such evidence - C04.R2)."""
    from .c03 import split_regions
    from .c04 import joins_child, guard_dsts, DEAD_GUARDS, in_stmts
    chain = [w]
    for c in calls_in(w.node):
        r = ctx.prog.resolve_call(c, w, cls)
        if r and r[0] == 'func' and r[1].name == 'wait' and r[1] is not w:
            chain.append(r[1])
    for f in chain:
        if f.qualname in done:
            continue
        done.add(f.qualname)
        ctx.used(f)
        reg = split_regions(f)
        stmts = reg['parent'] if reg else f.node.body
        g = ctx.an.cfg(f, f.cls)

        def evidence(call):
            if joins_child(ctx, f.cls, call, f):
                return True
            r = ctx.prog.resolve_call(call, f, f.cls)
            return bool(r and r[0] == 'func' and r[1].name == 'wait' and r[1] is not f)
        ev = {n.id for n in g.nodes if n.stmt is not None and n.part == 'post' and any(evidence(c) for c in n.calls())}
        ev |= guard_dsts(g, DEAD_GUARDS, 'true')
        rets = [n for n in g.nodes if n.kind == 'return' and n.part in (None, 'eval') and in_stmts(n.stmt, stmts)
                and not (isinstance(n.stmt.value, ast.Constant) and n.stmt.value.value in (False, None))]
        ctx.floor(f'returns of {f.short} that can report death', len(rets), 1)
        rid = {n.id for n in rets}
        p = g.find_path([g.entry], lambda n: n.id in rid and n.id not in ev, edge_ok=lambda e: is_flow(e) and e.kind != 'exc', node_ok=lambda n: n.id not in ev)
        ctx.check('R4', f'{f.short}: every return that can report the worker dead follows the join of the frontend thread (which stores the state)', p is None, f.short,
                  'reports-death-before-frontend-joined',
                  f'{f.short} can return a true value without having joined the frontend thread: the thread stores the outcome first and the user state second, so a caller that '
                  'polls the outcome and then calls wait() reads the initial user_state after wait() returned True - and restart() passes that stale state on as init_state',
                  where=loc(f, p[-1].dst.stmt) if p else loc(f, f.node), path=path_str(p or []))


def check_report_first(ctx, cls, lc, attr):
    """R5 (process kinds): once the work has ended, nothing that can fail or be interrupted stands between it and the report that carries the state.
    On the fault-free paths from the end of do_work() to the first report, every statement outside an exception handler that has a transport-fault
    edge or is a landing point of a graceful terminate (the injector is still alive) must still be followed by a report on every path: otherwise
    that one fault - the end marker written to a closed results pipe, a terminate arriving during the clean-up - loses the last user_state
    although the worker ended in a way that lets it report.  (Landings inside the recording handler itself are judged by C03.R3.)"""
    g = lc.g
    main = lc.main
    reports = {n.id for n, a in lc.state_sends if is_self_attr(a, attr)}
    if not reports:
        return
    pm = parent_map(main.node)

    def in_handler(st):
        cur = st
        while cur in pm:
            cur = pm[cur]
            if isinstance(cur, ast.ExceptHandler):
                return True
        return False
    landing = {id(e) for e in lc.landing_edges()}
    exits = {n.id for n in g.exits()}
    seen, stack = set(), []
    for w in lc.work_nodes:
        stack += [e.dst for e in w.succ if is_flow(e) and e.kind != 'exc']
    n_mid = 0
    while stack:
        n = stack.pop()
        if n.id in seen or n.id in reports:
            continue
        seen.add(n.id)
        if n.stmt is not None and not in_handler(n.stmt):
            for e in n.succ:
                fault = id(e) in landing or (e.kind == 'exc' and e.cause == 'e3')
                if not fault:
                    continue
                n_mid += 1
                p = g.find_path([e.dst], lambda x: x.id in exits, edge_ok=lambda x: is_flow(x) or x.kind == 'reraise', node_ok=lambda x: x.id not in reports)
                role = next((last_attr(c) for c in n.calls()), None) or type(n.stmt).__name__
                ctx.check('R5', f'{main.short}: a {"terminate landing" if e.kind == "async" else e.exc} at `{short(n.stmt, 50)}` (after the work has ended, before the report) still leads to a report',
                          p is None, main.short, f'state-report-behind:{role}',
                          f'`{short(n.stmt, 60)}` runs between the end of do_work() and the report that carries user_state, and a '
                          f'{"graceful terminate landing there" if e.kind == "async" else e.exc + " raised there"} leaves {main.short} without any report: the parent keeps the stale '
                          'user_state (and restart() passes it on) although the worker ended in a way that lets it report', where=loc(main, n.stmt),
                          path=[n.describe(), f'--{e.kind}:{e.exc}--> {e.dst.describe()}'] + path_str(p or []))
        for e in n.succ:
            if is_flow(e) and e.kind != 'exc':
                stack.append(e.dst)
    ctx.stats.setdefault('fallible_statements_between_work_and_report', {})[main.short] = n_mid

