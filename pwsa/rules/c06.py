"""C06 - a persistent result stream is a correct prefix and always ends, whatever happens."""
import ast

from ..astutil import (split_if, edge_facts, facts_at, AnalysisError, dotted, calls_in, last_attr, receiver, norm, is_name, walk_local, is_self_attr,
                       loc, short, parent_map)
from ..cfg import is_flow, path_str
from ..lifecycle import lifecycle, worker_classes, landing_label, handler_context, is_persistent

EXPLANATION = (
    'Static decision of the end-of-stream machinery of the persistent kinds. R1: in each child-main every path from the '
    'start-up sync point to any exit - with any inputs and one injected fault (library exception or asynchronous landing) - '
    'passes the _cleanup() call; for the thread kind (a queue has no EOF) the call must also complete; each _cleanup emits a '
    '(counter, False, None, id) marker on the result channel; the remote frontend (product-state exploration over its '
    'signalled-flag) leaves _fetch_results on every exit with a marker forwarded or fabricated - never fabricated after a '
    'forwarded one - and the result endpoint closed. R2: the frontend holds no fatal belief about the marker counter (an '
    'interrupted or failed _send_result makes the child\'s count differ from what was delivered). R3: next_result reads '
    'non-blockingly once the worker is not alive; the non-blocking read polls before it receives and maps every transport '
    'failure to queue.Empty (escape summary); results_iter stops on queue.Empty. R4: marker emission is guarded by the '
    'cleaned-up flag. R5: every attribute read by the clean-up closure is assigned before the child is created (constructor '
    'chain prefix), not only inside the guarded body. R6: the sockets of the remote protocol are blocking (an idle persistent worker is not a dead one), and when the server learns from the child\'s sentinel that the child died it shuts down the write side of the data socket (helpers followed) - close() alone sends no EOF while the accept loop holds a copy of a context worker\'s socket.')
TECHNIQUE = 'must-pass-through on the CFG with exception/async edges (budgeted path search), product-state exploration, escape summaries, definite assignment over the constructor chain'

PERSISTENT = ['PersistentThreadWorker', 'PersistentProcessWorker', 'PersistentRemoteWorker', 'RemoteContextWorker']


def is_marker_tuple(expr):
    return isinstance(expr, ast.Tuple) and len(expr.elts) == 4 and isinstance(expr.elts[1], ast.Constant) and expr.elts[1].value is False


def attrs_read_closure(ctx, cls, func, depth=0, seen=None):
    """self.<attr> data attributes read by func and by the self-methods / properties it uses."""
    seen = seen if seen is not None else set()
    if func.qualname in seen or depth > 4:
        return {}
    seen.add(func.qualname)
    out = {}
    for n in walk_local(func.node):
        if isinstance(n, ast.Attribute) and is_name(n.value, 'self') and isinstance(n.ctx, ast.Load):
            c, m = cls.resolve(n.attr)
            if m is not None:
                if m.is_property or any(isinstance(p, ast.Call) and p.func is n for p in walk_local(func.node)):
                    for k, v in attrs_read_closure(ctx, cls, m, depth + 1, seen).items():
                        out.setdefault(k, v)
                continue
            out.setdefault(n.attr, (func, n))
    return out


def assigned_before_child(ctx, cls):
    """attributes definitely assigned on `self` before the child is created, along the resolved __init__ chain"""
    out = set()
    for c in cls.mro():
        if isinstance(c, str) or '__init__' not in c.methods:
            continue
        f = c.methods['__init__']
        for st in f.node.body:
            # stop at the statement that hands over to the next __init__ / starts the child
            hand_over = any((last_attr(x) == '__init__' and isinstance(x.func, ast.Attribute) and isinstance(x.func.value, ast.Call)
                             and is_name(x.func.value.func, 'super')) for x in calls_in(st))
            starts = False
            for n in walk_local(st):
                if isinstance(n, ast.Call) and last_attr(n) == '_start' and receiver(n) == 'self':
                    starts = True
            if hand_over:
                break
            if starts:
                # statements of the enclosing block before _start() still count
                for sub in walk_local(st):
                    if isinstance(sub, ast.Assign) and sub.lineno < [x.lineno for x in walk_local(st) if isinstance(x, ast.Call) and last_attr(x) == '_start'][0]:
                        for t in sub.targets:
                            for e in (t.elts if isinstance(t, ast.Tuple) else [t]):
                                if is_self_attr(e):
                                    out.add(e.attr)
                break
            if isinstance(st, (ast.Assign, ast.AnnAssign)):
                targets = st.targets if isinstance(st, ast.Assign) else [st.target]
                for t in targets:
                    for e in (t.elts if isinstance(t, ast.Tuple) else [t]):
                        if is_self_attr(e):
                            out.add(e.attr)
    return out


def run(ctx):
    # every result is emitted exactly once, as (counter, True, value, id), on the result channel (the sender side of "never duplicated"; shared with C05.R3)
    from .c05 import check_send_result
    from ..lifecycle import worker_classes as _wc
    for cls0 in _wc(ctx.prog, internal=False):
        if cls0.name.startswith('Persistent'):
            check_send_result(ctx, cls0, 'R2')
    from ..sockets import check_blocking_sockets, check_child_death_eof, check_forced_kill_eof
    check_blocking_sockets(ctx, 'R6')
    check_child_death_eof(ctx, 'R6')
    check_forced_kill_eof(ctx, 'R6')
    from ..frame import check_frame_attrs
    check_frame_attrs(ctx, 'C06', 'R4')
    P = ctx.prog
    classes = [P.cls(n) for n in PERSISTENT if P.has_cls(n)]
    ctx.floor('persistent classes', len(classes), 4)
    seen = set()
    for cls in classes:
        lc = lifecycle(ctx, cls)
        g = lc.g
        ctx.used(lc.main)
        _, cleanup = cls.resolve('_cleanup')
        ctx.require(cleanup is not None, f'{cls.name}._cleanup not found')
        ctx.used(cleanup)
        # an override that delegates to the inherited hook: the inherited hook is judged below, the override must reach the delegation first
        hops = 0
        while hops < 3:
            hops += 1
            deleg = [c for c in calls_in(cleanup.node) if last_attr(c) == '_cleanup' and receiver(c) == 'super()']
            own = [c for c in calls_in(cleanup.node) if (last_attr(c) in ('put', 'send') and c.args and is_marker_tuple(c.args[0])) or
                   (last_attr(c) == 'send_msg' and len(c.args) >= 2 and is_marker_tuple(c.args[1]))]
            if own or not deleg:
                break
            go = ctx.an.cfg(cleanup, cls)
            did = {n.id for n in go.nodes if n.stmt is not None and n.part == 'eval' and any(x is deleg[0] for x in n.calls())}
            exits_o = {n.id for n in go.exits()}
            p = go.find_path([go.entry], lambda n: n.id in exits_o, edge_ok=lambda e: e.kind != 'async', node_ok=lambda n: n.id not in did)
            ctx.check('R1', f'{cleanup.short}: the override reaches the inherited clean-up (which emits the end marker) before anything else can end it', p is None, cleanup.short,
                      'override-skips-inherited-cleanup', f'{cleanup.short} can end before it has called super()._cleanup(): no end-of-stream marker is written',
                      where=loc(cleanup, cleanup.node), path=path_str(p or []))
            r = ctx.prog.resolve_call(deleg[0], cleanup, cls)
            if not (r and r[0] == 'func'):
                break
            cleanup = r[1]
            ctx.used(cleanup)
        exits = {n.id for n in g.exits()}
        # ------------------------------------------------------------ R1 child-main passes _cleanup on all exits
        ev = {n.id for n in lc.cleanup_nodes}
        post = {n.id for n in g.nodes if n.stmt is not None and n.part == 'post' and any(last_attr(c) == '_cleanup' and receiver(c) == 'self' for c in n.calls())}
        ctx.check('R1', f'{cls.name}: {lc.main.short} calls _cleanup()', bool(ev), lc.main.short, 'no-cleanup-call',
                  f'{lc.main.short} never calls _cleanup(): no end-of-stream marker is ever produced', where=loc(lc.main, lc.main.node))
        if ev:
            capable = lc.capable

            def fault(e):
                if e.kind == 'async':
                    return e.src.id in capable
                return e.kind == 'exc' and e.cause in ('e3', 'e3p')
            p = g.find_path_budget(lc.primary_sync, lambda n: n.id in exits, avoid=ev, budget=1, is_fault=fault)
            ctx.check('R1', f'{cls.name}: every exit of {lc.main.short} after start-up (inputs + one fault) goes through _cleanup()', p is None,
                      lc.main.short, 'exit-without-cleanup',
                      f'{lc.main.short} can end without calling _cleanup(): consumers of the result stream never get an end marker'
                      + ('' if lc.kind == 'thread' else ' (only the EOF of the pipe, if any)'), where=loc(lc.main, lc.main.node), path=path_str(p or []))
            if lc.kind == 'thread':
                # a queue has no EOF: the call must also complete.  Only an asynchronous landing can cut it.
                bad = {}
                for e in lc.landing_edges():
                    if e.src.id in ev or (e.src.id in post and e.phase == 'pre'):
                        # landing on the clean-up call itself (pre-effect = anywhere inside it)
                        if e.src.id in ev:
                            bad.setdefault(f'{handler_context(e.src)}|land@{landing_label(e.src)}', e)
                n_ok = 0
                for key, e in bad.items():
                    ctx.ob('R1', f'{cls.name}: a landing inside _cleanup() cannot cut the end marker', False)
                    ctx.finding('R1', lc.main.short, key,
                                f'{cls.name}: a terminate() landing inside `self._cleanup()` (before the marker is queued) ends the thread without an end-of-stream '
                                'marker; a queue has no EOF, so next_result()/the Pool would block forever on a dead worker',
                                where=f'{lc.main.module.relpath}:{e.src.line}', path=[f'async landing [{e.phase}] at {e.src.describe()}'])
        # ------------------------------------------------------------ R1/R4 the clean-up itself
        if cleanup.qualname not in seen:
            seen.add(cleanup.qualname)
            gc = ctx.an.cfg(cleanup, cls)
            markers = []
            for c in calls_in(cleanup.node):
                if last_attr(c) in ('put', 'send') and c.args and is_marker_tuple(c.args[0]):
                    markers.append((c, receiver(c)))
                if last_attr(c) == 'send_msg' and len(c.args) >= 2 and is_marker_tuple(c.args[1]):
                    markers.append((c, norm(c.args[0])))
            ok = ctx.check('R1', f'{cleanup.short}: emits a (counter, False, None, id) marker', len(markers) == 1, cleanup.short,
                           f'marker-count:{len(markers)}', f'{cleanup.short} emits {len(markers)} end-of-stream markers (expected exactly one)',
                           where=loc(cleanup, cleanup.node))
            if ok:
                c, chan = markers[0]
                t = c.args[0] if last_attr(c) != 'send_msg' else c.args[1]
                shape_ok = is_self_attr(t.elts[0]) and isinstance(t.elts[2], ast.Constant) and t.elts[2].value is None and norm(t.elts[3]) == 'self.id'
                ctx.check('R1', f'{cleanup.short}: marker is (self.<counter>, False, None, self.id)', shape_ok, cleanup.short, f'marker-shape:{norm(t)}',
                          f'the end marker `{norm(t)}` does not have the (counter, False, None, worker id) shape consumers unpack', where=loc(cleanup, c))
                want = 'self._socket' if lc.kind == 'remote' else 'self._results_pipe.child_end'
                ctx.check('R1', f'{cleanup.short}: marker is written to the result channel', chan == want, cleanup.short, f'marker-channel:{chan}',
                          f'the end marker is written to `{chan}`, not to the result channel `{want}`', where=loc(cleanup, c))
                # reached on every flow path unless the cleaned-up guard returns first
                mid = {n.id for n in gc.nodes if n.stmt is not None and n.part == 'post' and any(x is c for x in n.calls())}
                flagged = [n for n in gc.nodes if n.kind == 'test' and isinstance(n.stmt, ast.If) and is_self_attr(n.stmt.test)]
                guard_attr = flagged[0].stmt.test.attr if flagged else None

                def edge_ok(e):
                    if not is_flow(e):
                        return False
                    if guard_attr and e.src.kind == 'test' and e.kind == 'true' and isinstance(e.src.stmt, ast.If) and is_self_attr(e.src.stmt.test, guard_attr):
                        return False
                    return True
                p = gc.find_path([gc.entry], lambda n: n is gc.exit, edge_ok=edge_ok, node_ok=lambda n: n.id not in mid)
                ctx.check('R1', f'{cleanup.short}: the marker is emitted on every path (unless already cleaned up)', p is None, cleanup.short,
                          'marker-skipped', f'a path through {cleanup.short} returns without emitting the end marker', where=loc(cleanup, c), path=path_str(p or []))
                if lc.kind in ('thread', 'process'):
                    # R4 exactly-once guard: flag tested first, set afterwards
                    sets = [st for st in walk_local(cleanup.node) if isinstance(st, ast.Assign) and guard_attr and any(is_self_attr(x, guard_attr) for x in st.targets)
                            and isinstance(st.value, ast.Constant) and st.value.value is True]
                    ctx.check('R4', f'{cleanup.short}: marker emission guarded by a cleaned-up flag that is set afterwards', bool(guard_attr and sets), cleanup.short,
                              'no-once-guard', f'{cleanup.short} can emit the end marker twice (no cleaned-up flag)', where=loc(cleanup, cleanup.node))
                if lc.kind == 'process':
                    closes = [x for x in calls_in(cleanup.node) if last_attr(x) == 'close' and receiver(x) == 'self._results_pipe.child_end']
                    ctx.check('R1', f'{cleanup.short}: closes the child end of the result pipe', bool(closes), cleanup.short, 'result-pipe-not-closed',
                              'the child never closes its end of the result pipe in _cleanup()', where=loc(cleanup, cleanup.node))
        # ------------------------------------------------------------ R5 clean-up reads only defined state
        key = ('R5', cls.name)
        reads = attrs_read_closure(ctx, cls, cleanup)
        # the reporting statements of the child-main's finally blocks
        defined = assigned_before_child(ctx, cls)
        # attributes the child-main assigns before its guarded body
        first_try = next((st for st in lc.main.node.body if isinstance(st, ast.Try)), None)
        for st in lc.main.node.body:
            if st is first_try:
                break
            for n in walk_local(st):
                if isinstance(n, ast.Assign):
                    for t in n.targets:
                        for e in (t.elts if isinstance(t, ast.Tuple) else [t]):
                            if is_self_attr(e):
                                defined.add(e.attr)
        # attributes injected by the server into remote workers
        if lc.kind == 'remote':
            defined |= {'_socket'}
        n_reads = 0
        for attr, (f, node) in sorted(reads.items()):
            n_reads += 1
            ok = attr in defined
            ctx.check('R5', f'{cls.name}: `{attr}` read by the clean-up ({f.short}) is assigned before the child is created', ok, f.short,
                      f'cleanup-reads-undefined:{attr}',
                      f'{f.short} (run from the finally block of {lc.main.short}) reads self.{attr}, which is only assigned inside the guarded body '
                      '(e.g. _init_child): a terminate() landing before that makes the clean-up raise AttributeError - no end marker, and for remote workers no final result',
                      where=loc(f, node))
        ctx.floor(f'{cls.name}: attributes read by the clean-up', n_reads, 2)

    check_frontend(ctx)
    check_reader(ctx)


# ------------------------------------------------------------------------------------------------ frontend
def check_frontend(ctx):
    P = ctx.prog
    cls = P.cls('PersistentRemoteWorker')
    _, fr = cls.resolve('_fetch_results')
    ctx.require(fr is not None and fr.cls is cls, 'PersistentRemoteWorker._fetch_results not found')
    ctx.used(fr)
    g = ctx.an.cfg(fr, cls)
    # classify the puts on the result channel
    puts = [c for c in calls_in(fr.node) if last_attr(c) == 'put' and receiver(c) == 'self._results_pipe.child_end']
    ctx.floor('frontend puts on the result channel', len(puts), 2)
    pm = parent_map(fr.node)
    # the valid flag: second element unpacked from the received message
    valid_var = None
    for st in walk_local(fr.node):
        if isinstance(st, ast.Assign) and isinstance(st.targets[0], ast.Tuple) and len(st.targets[0].elts) == 4 and isinstance(st.value, ast.Name):
            valid_var = st.targets[0].elts[1].id
            counter_rem = st.targets[0].elts[0].id
    kinds = {}
    for c in puts:
        a = c.args[0]
        if is_marker_tuple(a):
            kinds[id(c)] = 'fabricated'
            continue
        # inside `if not valid` (true branch) or its else
        cur, k = c, None
        while cur in pm:
            prev, cur = cur, pm[cur]
            if isinstance(cur, ast.If) and valid_var and norm(cur.test) in (f'not {valid_var}', valid_var):
                in_body = any(prev is x or any(prev is y for y in ast.walk(x)) for x in cur.body)
                neg = norm(cur.test).startswith('not ')
                k = 'forwarded-marker' if in_body == neg else 'result'
                break
        kinds[id(c)] = k or 'unknown'
    ctx.sample({'frontend_puts': sorted(kinds.values())})
    ctx.check('R1', 'frontend: forwards the end marker sent by the child', 'forwarded-marker' in kinds.values(), fr.short, 'marker-not-forwarded',
              'the frontend never forwards the end-of-stream marker sent by the child', where=loc(fr, fr.node))
    ctx.check('R1', 'frontend: fabricates an end marker when the connection is lost', 'fabricated' in kinds.values(), fr.short, 'marker-not-fabricated',
              'the frontend never fabricates an end-of-stream marker: when the connection is lost consumers of the result stream block forever',
              where=loc(fr, fr.node))
    # the signalled flag
    flag = None
    for st in walk_local(fr.node):
        if isinstance(st, ast.Assign) and isinstance(st.targets[0], ast.Name) and isinstance(st.value, ast.Constant) and st.value.value is False \
                and st in fr.node.body:
            flag = st.targets[0].id
    # product-state exploration: (node, flag, emitted, closed)
    node_kind = {}
    for n in g.nodes:
        if n.stmt is None:
            continue
        for c in n.calls() if not isinstance(n.stmt, (ast.If, ast.While, ast.For, ast.Try, ast.With)) else []:
            if id(c) in kinds and n.part == 'post':
                node_kind[n.id] = kinds[id(c)]
            if last_attr(c) == 'close' and receiver(c) == 'self._results_pipe.child_end' and n.part == 'post':
                node_kind[n.id] = 'close'
    start = (g.entry.id, False, False, False)
    seen = {start}
    stack = [(g.entry, False, False, False, ())]
    viol = {}
    nstates = 0
    while stack:
        n, fl, em, cl, trail = stack.pop()
        nstates += 1
        k = node_kind.get(n.id)
        if k == 'fabricated':
            if em:
                viol.setdefault('double-marker', trail)
            em = True
        elif k == 'forwarded-marker':
            em = True
        elif k == 'close':
            cl = True
        if n.kind == 'stmt' and n.part in (None, 'store') and isinstance(n.stmt, ast.Assign) and flag and is_name(n.stmt.targets[0], flag) \
                and isinstance(n.stmt.value, ast.Constant):
            fl = bool(n.stmt.value.value)
        if n.kind in ('exit', 'raise'):
            if not em:
                viol.setdefault('exit-without-marker:' + (n.label or 'return'), trail)
            if not cl:
                viol.setdefault('exit-without-close:' + (n.label or 'return'), trail)
            continue
        for e in n.succ:
            if e.kind == 'async':
                continue
            if n.kind == 'test' and flag and isinstance(n.stmt, ast.If) and e.kind in ('true', 'false'):
                t = norm(n.stmt.test)
                if t == f'not {flag}' and (e.kind == 'true') == fl:
                    continue
                if t == flag and (e.kind == 'true') != fl:
                    continue
            em2, cl2 = em, cl
            if e.kind == 'exc' and e.call is not None and (id(e.call) in kinds or (last_attr(e.call) == 'close' and receiver(e.call) == 'self._results_pipe.child_end')):
                # a failure of the write to the result channel itself: the channel is broken, its reader sees EOF
                continue
            st = (e.dst.id, fl, em2, cl2)
            if st in seen:
                continue
            seen.add(st)
            stack.append((e.dst, fl, em2, cl2, trail + (e,) if len(trail) < 40 else trail))
    ctx.stats['frontend_product_states'] = nstates
    for key in ('exit-without-marker', 'exit-without-close', 'double-marker'):
        hits = {k: v for k, v in viol.items() if k.startswith(key)}
        msg = {'exit-without-marker': 'the frontend thread can leave _fetch_results without having put an end-of-stream marker on the result pipe: next_result()/the Pool block forever on a dead worker',
               'exit-without-close': 'the frontend thread can leave _fetch_results without closing the result endpoint',
               'double-marker': 'the frontend can fabricate an end marker after it has already forwarded/fabricated one'}[key]
        ctx.ob('R1', f'frontend: no {key} on any exit ({nstates} product states explored)', not hits)
        for k, trail in hits.items():
            ctx.finding('R1', fr.short, k, msg, where=loc(fr, fr.node), path=path_str(list(trail)))
    # R2 no fatal belief on the marker counter
    beliefs = []
    for st in walk_local(fr.node):
        if isinstance(st, ast.Assert):
            cur = st
            in_marker_branch = False
            while cur in pm:
                prev, cur = cur, pm[cur]
                if isinstance(cur, ast.If) and valid_var and norm(cur.test) == f'not {valid_var}' and any(prev is x for x in cur.body):
                    in_marker_branch = True
            names = {n.id for n in ast.walk(st.test) if isinstance(n, ast.Name)}
            if in_marker_branch and isinstance(st.test, ast.Compare) and 'counter' in ' '.join(names) and len(names) >= 2 and any('remote' in n or n == counter_rem for n in names):
                beliefs.append(st)
    ctx.check('R2', 'frontend: no fatal belief that the child\'s marker counter equals the number of results received', not beliefs, fr.short,
              'marker-counter-belief', 'the frontend asserts that the counter in the end marker equals the number of results it received; the child counts before '
              'sending, so a result that cannot be pickled (or a terminate() landing inside _send_result) contradicts the belief, the frontend dies on the assertion '
              'before reading the final result and the worker ends without its real outcome', where=loc(fr, beliefs[0]) if beliefs else None)


# ------------------------------------------------------------------------------------------------ reader side
def check_reader(ctx, rule='R3'):
    P = ctx.prog
    PW = P.cls('PersistentWorker')
    nr = PW.methods.get('next_result')
    ctx.require(nr is not None, 'PersistentWorker.next_result not found')
    ctx.used(nr)
    # non-blocking read when not alive: for every read of the result pipe, the effective `block` argument is provably false whenever is_alive() is false
    # (three-valued evaluation: the read sits on the not-alive side of a test of is_alive(), or its block argument is `... and self.is_alive()` / False)
    pmr = parent_map(nr.node)

    def local_def(name):
        ds = [st.value for st in walk_local(nr.node) if isinstance(st, ast.Assign) and len(st.targets) == 1 and is_name(st.targets[0], name)]
        return ds[0] if len(ds) == 1 else None

    def false_when_dead(e, depth=0):
        """is expression e certainly false once self.is_alive() is false?"""
        if e is None:
            return False
        if isinstance(e, ast.Constant):
            return e.value is False
        if isinstance(e, ast.Call) and last_attr(e) == 'is_alive' and receiver(e) == 'self':
            return True
        if isinstance(e, ast.BoolOp) and isinstance(e.op, ast.And):
            return any(false_when_dead(v, depth) for v in e.values)
        if isinstance(e, ast.BoolOp) and isinstance(e.op, ast.Or):
            return all(false_when_dead(v, depth) for v in e.values)
        if isinstance(e, ast.Name) and depth < 3:
            d = local_def(e.id)
            return d is not None and false_when_dead(d, depth + 1)
        return False
    reads_all = [c for c in calls_in(nr.node) if last_attr(c) in ('get', 'get_nowait', 'recv') and 'endpoint' in (receiver(c) or '') + norm(c.func)]
    ok = bool(reads_all)
    for c in reads_all:
        stn = c
        while stn in pmr and not isinstance(stn, ast.stmt):
            stn = pmr[stn]
        facts = facts_at(pmr, stn)
        alive_here = ('self.is_alive()', True) in facts
        dead_here = ('self.is_alive()', False) in facts
        if last_attr(c) == 'get_nowait':
            continue
        barg = next((k.value for k in c.keywords if k.arg == 'block'), c.args[0] if c.args else None)
        if alive_here:
            continue                      # this read only runs for a live worker
        if barg is not None and false_when_dead(barg):
            continue
        if dead_here and barg is not None and isinstance(barg, ast.Constant) and barg.value is False:
            continue
        ok = False
    ctx.check(rule, 'next_result: the read is non-blocking once the worker is not alive', ok, 'PersistentWorker.next_result', 'blocking-read-when-dead',
              'next_result() does a blocking read on a worker that is not alive: if the stream has ended it blocks forever instead of raising queue.Empty',
              where=loc(nr, nr.node))
    # flag false -> queue.Empty
    unpack = [st for st in walk_local(nr.node) if isinstance(st, ast.Assign) and isinstance(st.targets[0], ast.Tuple) and len(st.targets[0].elts) == 4]
    ok = False
    marker_branch = None
    if unpack:
        fv = unpack[0].targets[0].elts[1]
        for st in walk_local(nr.node):
            sp = split_if(st, lambda t: isinstance(fv, ast.Name) and is_name(t, fv.id)) if isinstance(st, ast.If) else None
            if sp and any(isinstance(x, ast.Raise) and 'Empty' in norm(x.exc) for x in sp[1]):
                ok = True
                marker_branch = sp[1]          # statements run when the flag is false
    ctx.check(rule, 'next_result: an end marker (flag False) raises queue.Empty', ok, 'PersistentWorker.next_result', 'marker-not-mapped-to-Empty',
              'next_result() does not turn the end-of-stream marker into queue.Empty', where=loc(nr, nr.node))
    # the end of the stream is latched: nothing is ever written after the marker, so once it has been read no later call may wait
    # (is_alive() is no evidence - the forwarding thread of a remote worker outlives the marker it has forwarded)
    latch = None
    for x in marker_branch or []:
        if isinstance(x, ast.Assign) and len(x.targets) == 1 and is_self_attr(x.targets[0]) and isinstance(x.value, ast.Constant) and x.value.value is True:
            latch = x.targets[0].attr
    ctx.check(rule, 'next_result: reading the end marker is remembered (a flag is set before queue.Empty is raised)', latch is not None, 'PersistentWorker.next_result', 'end-of-stream-not-latched',
              'next_result() forgets that it has read the end-of-stream marker: a later call made while is_alive() is still true (the forwarding thread of a remote worker stays alive '
              'for a while after the marker) does a blocking read on a pipe nobody writes to any more and never returns, even after the worker has died', where=loc(nr, nr.node))
    if latch is not None:
        raised = [x for x in walk_local(nr.node) if isinstance(x, ast.Assign) and any(is_self_attr(t, latch) for t in x.targets) and isinstance(x.value, ast.Constant) and x.value.value is True]
        stray = [x for x in raised if not any(x is y for mb in (marker_branch or []) for y in ast.walk(mb))]
        ctx.check(rule, f'next_result: self.{latch} is raised only where the end marker has just been read', not stray, 'PersistentWorker.next_result', 'stream-ended-without-a-marker',
                  f'next_result() declares the stream ended (self.{latch} = True) on a path that has not read the end marker - e.g. when a non-blocking read finds nothing ready yet on a '
                  'live worker: every later next_result()/call() raises queue.Empty although the results are delivered', where=loc(nr, stray[0]) if stray else loc(nr, nr.node))
        gn = ctx.an.cfg(nr, PW)
        dom = gn.dominators(edge_ok=is_flow)
        good = {e.dst.id for n in gn.nodes if n.kind == 'test' for e in n.succ if e.kind in ('true', 'false') and (f'self.{latch}', False) in edge_facts(e)}
        reads = [n for n in gn.nodes if n.stmt is not None and n.part == 'eval' and any(last_attr(c) in ('get', 'get_nowait', 'recv') for c in n.calls())]
        okl = bool(reads) and all(dom.get(n.id, set()) & good for n in reads)
        ctx.check(rule, f'next_result: every read of the result pipe is dominated by `not self.{latch}`', okl, 'PersistentWorker.next_result', 'read-after-end-of-stream',
                  f'a read of the result pipe in next_result() is not guarded by the end-of-stream flag self.{latch}', where=loc(nr, nr.node))
        inits = [f for f in P.funcs.values() if f.name == '__init__' and f.cls is not None and any(
            isinstance(x, ast.Assign) and any(is_self_attr(t, latch) for t in x.targets) and isinstance(x.value, ast.Constant) and x.value.value is False for x in walk_local(f.node))]
        ctx.check(rule, f'the end-of-stream flag self.{latch} starts False in the constructor (and so after every restart)', bool(inits), 'PersistentWorker.__init__', 'latch-not-initialised',
                  f'self.{latch} is not initialised to False by a constructor: next_result() raises AttributeError, or a restarted worker starts with an ended stream', where=loc(nr, nr.node))
        writers = [(f, x) for f in P.funcs.values() for x in walk_local(f.node) if isinstance(x, (ast.Assign, ast.AugAssign)) and any(
            is_self_attr(t, latch) for t in (x.targets if isinstance(x, ast.Assign) else [x.target]))]
        foreign = [(f, x) for f, x in writers if f not in inits and f is not nr]
        ctx.check(rule, f'self.{latch} is written only by the constructor and by next_result', not foreign, foreign[0][0].short if foreign else 'PersistentWorker.next_result',
                  'latch-written-elsewhere', f'self.{latch} is also written by {foreign[0][0].short if foreign else ""}: the stream can be declared ended (results lost) or re-opened (a read that never returns)',
                  where=loc(foreign[0][0], foreign[0][1]) if foreign else loc(nr, nr.node))
    # PipeEndpoint.get(block=False): poll before recv, all transport failures -> queue.Empty
    PE = P.cls('PipeEndpoint')
    get = PE.methods.get('get')
    ctx.require(get is not None, 'PipeEndpoint.get not found')
    ctx.used(get)
    summ = ctx.an.summary(get, PE)
    lat = ctx.an.lattice
    esc = sorted({x for x, cause in summ if any(lat.is_sub(x, b) for b in ('OSError', 'EOFError'))})
    ctx.check(rule, 'PipeEndpoint.get: every transport failure is mapped to queue.Empty', not esc, 'PipeEndpoint.get', 'escape:' + ','.join(esc),
              f'{esc} raised by Connection.recv()/poll() on a dead or killed peer escapes PipeEndpoint.get instead of being reported as queue.Empty: '
              'next_result() / has_error raise on a dead worker', where=loc(get, get.node))
    g = ctx.an.cfg(get, PE)
    # non-blocking branch: a poll() test dominates the recv on paths where block is false
    polls = [n for n in g.nodes if n.kind == 'test' and any(last_attr(c) == 'poll' for c in calls_in(n.stmt.test))] if True else []
    block_tests = [n for n in g.nodes if n.kind == 'test' and isinstance(n.stmt, ast.If) and 'block' in norm(n.stmt.test)]
    ok = bool(polls) and bool(block_tests)
    if ok:
        recv_nodes = [n for n in g.nodes if n.stmt is not None and n.part == 'eval' and any(last_attr(c) == 'recv' for c in n.calls())]
        poll_ids = {n.id for n in polls}
        # from the non-blocking branch, every flow path to recv passes the poll test
        bt = [n for n in block_tests if n.part in (None, 'post')] or block_tests
        neg = norm(bt[0].stmt.test).startswith('not ')
        starts = [e.dst for n in bt for e in n.succ if e.kind == ('true' if neg else 'false')]
        p = g.find_path(starts, lambda n: n in recv_nodes, edge_ok=is_flow, node_ok=lambda n: n.id not in poll_ids)
        ok = p is None
    ctx.check(rule, 'PipeEndpoint.get(block=False): a successful poll() precedes the receive', ok, 'PipeEndpoint.get', 'nonblocking-read-without-poll',
              'the non-blocking read receives without polling first: it can block on an empty pipe', where=loc(get, get.node))
    gn = PE.methods.get('get_nowait')
    ok = gn is not None and any(last_attr(c) == 'get' and any(k.arg == 'block' and isinstance(k.value, ast.Constant) and k.value.value is False for k in c.keywords)
                                for c in calls_in(gn.node))
    ctx.check(rule, 'PipeEndpoint.get_nowait is get(block=False)', ok, 'PipeEndpoint.get_nowait', 'get_nowait-blocks',
              'get_nowait() does not request a non-blocking read', where=loc(gn, gn.node) if gn else None)
    # results_iter stops on queue.Empty
    ri = PW.methods.get('results_iter')
    ok = ri is not None and any(isinstance(st, ast.Try) and any('Empty' in ' '.join(ctx.an.handler_types(h, ri)) and any(isinstance(x, (ast.Break, ast.Return)) for x in h.body)
                                                                for h in st.handlers) for st in walk_local(ri.node))
    ctx.check(rule, 'results_iter stops when next_result raises queue.Empty', ok, 'PersistentWorker.results_iter', 'iter-does-not-stop',
              'results_iter() does not stop on queue.Empty', where=loc(ri, ri.node) if ri else None)


def run_thorough(ctx):
    """bytecode tier (DESIGN E4): the AST-level CFG's landing statements and handler routing agree with CPython's exception tables"""
    from ..bytecode import cross_check_all
    st = cross_check_all(ctx)
    ctx.stats['bytecode_tier'] = st
    ctx.ob('E4', f"bytecode tier: {st['landing_instructions']} CALL-type landing instructions of {st['functions_cross_checked']} functions "
                 f"({st['instructions']} instructions) are routed to the same handler as the async edges of the AST tier", True)
