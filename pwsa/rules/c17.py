"""C17 - restart() always yields a fresh, equivalent, live worker."""
import ast

from ..astutil import (AnalysisError, dotted, calls_in, last_attr, receiver, norm, is_name, walk_local, is_self_attr,
                       loc, short, parent_map, names_in)
from ..cfg import is_flow, path_str

EXPLANATION = (
    'Static decision of PersistentWorker.restart and what it relies on. R1: __dict__.clear() is dominated by evidence that '
    'the old incarnation is dead - wait() returned true, or terminate() was followed by a not-alive check that raises '
    'otherwise. R2 constructor-argument completeness: for each public persistent class, every named constructor parameter '
    'along the resolved __init__ chain that the constructors use appears among the keys returned by the resolved '
    '_get_restart_args() (or is supplied by restart itself), and each key carries the attribute that stores that parameter. '
    'R3: the re-initialisation goes through type(self).__init__(self, *args, results_pipe=..., **kwargs, _is_restart=True); '
    'each persistent constructor creates a fresh input channel; _init_child resets the counter (C05.R3). R4: '
    'Pool.restart_workers supplies a fresh results pipe and re-keys both tables (C09.R2).'
    " R3 also: the dead flag raised by the base constructor is lowered only behind the start of the child (dominance; shared with C04.R3), so a restart() that fails while starting leaves a worker that can be restarted again. R1 also: restart() hands its caller's own *args/**kwargs to terminate() untouched.")
TECHNIQUE = 'dominance on the CFG of restart + set comparison over the resolved __init__ chains'

PERSISTENT = ['PersistentThreadWorker', 'PersistentProcessWorker', 'PersistentRemoteWorker']
SUPPLIED_BY_RESTART = {'results_pipe', '_results_pipe', '_is_restart'}


def run(ctx):
    P = ctx.prog
    PW = P.cls('PersistentWorker')
    rs = PW.methods.get('restart')
    ctx.require(rs is not None, 'PersistentWorker.restart not found')
    ctx.used(rs)
    g = ctx.an.cfg(rs, PW)
    # ---------------------------------------------------------------- R1 death evidence before clear
    clears = [n for n in g.nodes if n.stmt is not None and n.part == 'eval' and any(last_attr(c) == 'clear' and '__dict__' in (receiver(c) or '') for c in n.calls())]
    ctx.check('R1', 'restart() clears the instance dictionary', len(clears) >= 1, 'PersistentWorker.restart', 'no-dict-clear', 'restart() does not reset the instance', where=loc(rs, rs.node))
    # evidence A: false edge of `not self.wait(...)` ; evidence B: false edge of `self.is_alive()` test whose true side raises, after terminate
    ev = set()       # evidence *edges* (the two sides re-join before the clear, so nodes would not do)
    for n in g.nodes:
        if n.kind == 'test' and isinstance(n.stmt, ast.If) and n.part in (None, 'post'):
            t = n.stmt.test
            if isinstance(t, ast.UnaryOp) and isinstance(t.op, ast.Not) and isinstance(t.operand, ast.Call) and last_attr(t.operand) == 'wait' and receiver(t.operand) == 'self':
                ev |= {id(e) for e in n.succ if e.kind == 'false'}
            if isinstance(t, ast.Call) and last_attr(t) == 'wait' and receiver(t) == 'self':
                ev |= {id(e) for e in n.succ if e.kind == 'true'}
            if isinstance(t, ast.Call) and last_attr(t) == 'is_alive' and receiver(t) == 'self' and any(isinstance(x, ast.Raise) for x in n.stmt.body):
                ev |= {id(e) for e in n.succ if e.kind == 'false'}
    # path query: entry -> clear without traversing any evidence edge
    p = g.find_path([g.entry], lambda n: n in clears, edge_ok=lambda e: is_flow(e) and id(e) not in ev)
    ctx.check('R1', '__dict__.clear() is only reached with evidence that the old incarnation is dead', p is None and bool(ev), 'PersistentWorker.restart', 'clear-without-death-evidence',
              'restart() can throw the old incarnation\'s state away (and start a new child) while the old child may still be running: a running child is abandoned',
              where=loc(rs, rs.node), path=path_str(p or []))
    term = [c for c in calls_in(rs.node) if last_attr(c) == 'terminate' and receiver(c) == 'self']
    ctx.check('R1', 'restart() terminates an incarnation that did not finish in time', len(term) == 1, 'PersistentWorker.restart', 'restart-without-terminate',
              'restart() does not try to terminate a worker that is still running', where=loc(rs, rs.node))
    if len(term) == 1:
        # what stops a worker that did not end by itself is the caller's own terminate(*args, **kwargs): restart's `timeout` is the time to wait for the natural
        # end and says nothing about the grace period of the terminate request (terminate(timeout=0) gives the child no time to react at all)
        t = term[0]
        va = rs.node.args.vararg.arg if rs.node.args.vararg else None
        kw = rs.node.args.kwarg.arg if rs.node.args.kwarg else None
        fw = va is not None and kw is not None and len(t.args) == 1 and isinstance(t.args[0], ast.Starred) and is_name(t.args[0].value, va) \
            and len(t.keywords) == 1 and t.keywords[0].arg is None and is_name(t.keywords[0].value, kw)
        touched = []
        for n in walk_local(rs.node):
            if isinstance(n, ast.Call) and isinstance(n.func, ast.Attribute) and is_name(n.func.value, kw) and n.func.attr in ('setdefault', 'update', 'pop', 'popitem', 'clear', '__setitem__'):
                touched.append(n)
            if isinstance(n, (ast.Assign, ast.AugAssign, ast.Delete)):
                for tg in (n.targets if not isinstance(n, ast.AugAssign) else [n.target]):
                    base = tg.value if isinstance(tg, ast.Subscript) else tg
                    if is_name(base, kw) or is_name(base, va):
                        touched.append(n)
        ctx.check('R1', 'restart() hands the caller\'s own *args/**kwargs to terminate(), untouched', fw and not touched, 'PersistentWorker.restart',
                  'terminate-arguments-altered' + (':' + norm(touched[0])[:50] if touched else ''),
                  'restart() changes what it passes to terminate() (e.g. it forwards its own `timeout`, the time to wait for the natural end, as the grace period of the terminate request): '
                  'with restart(timeout=0) the old incarnation gets no time to react, is found alive and restart() raises "Could not stop a worker!" for a worker that stops a moment later',
                  where=loc(rs, touched[0]) if touched else loc(rs, t))
    rz = [st for st in walk_local(rs.node) if isinstance(st, ast.If) and norm(st.test) == 'self.is_alive()' and any(isinstance(x, ast.Raise) for x in st.body)]
    ctx.check('R1', 'restart() raises if the old incarnation cannot be stopped', bool(rz), 'PersistentWorker.restart', 'restart-does-not-raise',
              'restart() does not raise when the old incarnation survives terminate()', where=loc(rs, rs.node))

    # ---------------------------------------------------------------- R3 re-initialisation call
    reinit = [c for c in calls_in(rs.node) if last_attr(c) == '__init__' and norm(c.func.value) == 'type(self)']
    ok = len(reinit) == 1
    ctx.check('R3', 'restart() re-runs type(self).__init__', ok, 'PersistentWorker.restart', 'no-reinit', 'restart() does not re-run the constructor of the worker\'s own class', where=loc(rs, rs.node))
    if ok:
        c = reinit[0]
        kws = {k.arg: k.value for k in c.keywords if k.arg}
        ok1 = c.args and is_name(c.args[0], 'self') and any(isinstance(a, ast.Starred) for a in c.args[1:]) and any(k.arg is None for k in c.keywords)
        ctx.check('R3', 'the constructor is re-run on self with the collected *args/**kwargs', bool(ok1), 'PersistentWorker.restart', 'reinit-args', 'the collected constructor arguments are not passed on', where=loc(rs, c))
        ok2 = isinstance(kws.get('_is_restart'), ast.Constant) and kws['_is_restart'].value is True
        ctx.check('R3', 'the constructor is told that this is a restart', ok2, 'PersistentWorker.restart', 'reinit-not-marked-restart', '_is_restart=True is not passed', where=loc(rs, c))
        ok3 = 'results_pipe' in kws and is_name(kws['results_pipe'], 'results_pipe')
        ctx.check('R3', 'the caller-supplied results pipe is passed on', ok3, 'PersistentWorker.restart', 'reinit-results-pipe', 'the results pipe supplied by the caller (e.g. the Pool) is dropped', where=loc(rs, c))
        # order: args collected before clear, clear before reinit
        ga = [x for x in calls_in(rs.node) if last_attr(x) == '_get_restart_args']
        clr = [x for x in calls_in(rs.node) if last_attr(x) == 'clear']
        ok4 = bool(ga) and bool(clr) and ga[0].lineno < clr[0].lineno < c.lineno
        if ok4:
            # must-pass-through on the CFG, not only lexical order
            def post(calls):
                return {n.id for n in g.nodes if n.stmt is not None and n.part == 'post' and any(x in calls for x in n.calls())}

            def evals(calls):
                return [n for n in g.nodes if n.stmt is not None and n.part == 'eval' and any(x in calls for x in n.calls())]
            p1 = g.find_path([g.entry], lambda n: n in evals(clr), edge_ok=is_flow, node_ok=lambda n: n.id not in post(ga))
            p2 = g.find_path([g.entry], lambda n: n in evals([c]), edge_ok=is_flow, node_ok=lambda n: n.id not in post(clr))
            ok4 = p1 is None and p2 is None
        ctx.check('R3', 'arguments are collected before the clear, the clear precedes the re-initialisation', ok4, 'PersistentWorker.restart', 'restart-order',
                  'restart() collects its arguments after clearing the instance (or re-initialises before clearing)', where=loc(rs, rs.node))

    # ---------------------------------------------------------------- R2 constructor-argument completeness
    for name in PERSISTENT:
        cls = P.cls(name)
        _, ga = cls.resolve('_get_restart_args')
        keys, positional = restart_keys(ctx, cls, ga)
        chain = [c for c in cls.mro() if not isinstance(c, str) and '__init__' in c.methods]
        ctx.used(ga, *[c.methods['__init__'] for c in chain])
        params = {}
        for c in chain:
            f = c.methods['__init__']
            for p_ in f.params[1:] + f.kwonly:
                if p_ in SUPPLIED_BY_RESTART:
                    continue
                # is the parameter used at all (stored / passed on / tested)?
                used = any(isinstance(n, ast.Name) and n.id == p_ and isinstance(n.ctx, ast.Load) for n in ast.walk(f.node))
                if used:
                    params.setdefault(p_, f)
        n_par = 0
        for p_, f in sorted(params.items()):
            n_par += 1
            ok = p_ in keys or p_ in positional
            ctx.check('R2', f'{name}: constructor parameter `{p_}` ({f.short}) is carried over by restart()', ok, ga.short, f'restart-arg-missing:{p_}',
                      f'restart() of a {name} does not pass `{p_}` to the new incarnation: the restarted worker is not equivalent to the old one (it silently falls back to the default)',
                      where=loc(ga, ga.node))
            # value: the attribute storing it
            if p_ in keys:
                v = keys[p_]
                stored = storing_attr(f, p_)
                ok2 = stored is None or (is_self_attr(v) and v.attr == stored)
                ctx.check('R2', f'{name}: restart argument `{p_}` carries self.{stored}', ok2, ga.short, f'restart-arg-value:{p_}={norm(v)}',
                          f'restart() passes `{norm(v)}` as `{p_}`, but the constructor stores that parameter in self.{stored}', where=loc(ga, ga.node))
        ctx.floor(f'{name}: constructor parameters in use', n_par, 8)
        # fresh input channel per construction
        own = cls.methods['__init__']
        if name != 'PersistentRemoteWorker':
            fresh = any(isinstance(st, ast.Assign) and any(is_self_attr(t, '_args_pipe') for t in st.targets) and isinstance(st.value, ast.Call) and last_attr(st.value) in ('Pipe', 'LocalPipe')
                        for st in walk_local(own.node))
            ctx.check('R3', f'{name}.__init__ creates a fresh input channel', fresh, own.short, 'input-channel-reused', 'a restarted worker keeps the (closed) input channel of the old incarnation', where=loc(own, own.node))
        fresh_r = any(isinstance(st, ast.Assign) and is_name(st.targets[0], 'results_pipe') and isinstance(st.value, ast.BoolOp) and isinstance(st.value.op, ast.Or)
                      and isinstance(st.value.values[-1], ast.Call) for st in walk_local(own.node))
        ctx.check('R3', f'{name}.__init__ creates a fresh results channel unless one is supplied', fresh_r, own.short, 'results-channel-reused',
                  'a restarted worker reuses the result stream of the old incarnation: it can yield results of the previous incarnation', where=loc(own, own.node))

    # a restart that fails while starting the new child leaves a worker that can be restarted again: the dead flag raised by the base
    # constructor is lowered only behind the start of the child (shared with C04.R3)
    from ..frame import check_dead_flag_lowering
    check_dead_flag_lowering(ctx, 'R3')

    # ---------------------------------------------------------------- R4 Pool.restart_workers
    pool = P.cls('Pool')
    rw = pool.methods['restart_workers']
    ctx.used(rw)
    rc = [c for c in calls_in(rw.node) if last_attr(c) == 'restart']
    QV = next((st.targets[0].id for st in walk_local(rw.node) if isinstance(st, ast.Assign) and isinstance(st.targets[0], ast.Name) and isinstance(st.value, ast.Call) and last_attr(st.value) == 'Pipe'), None)
    WV = receiver(rc[0]) if rc else None
    ok = len(rc) == 1 and QV is not None and any(k.arg == 'results_pipe' and is_name(k.value, QV) for k in rc[0].keywords)
    ctx.check('R4', 'Pool.restart_workers supplies a fresh results pipe to restart()', ok, 'Pool.restart_workers', 'pool-restart-pipe', 'the Pool restarts a worker without a fresh results pipe', where=loc(rw, rw.node))
    keys_new = [st for st in walk_local(rw.node) if isinstance(st, ast.Assign) and isinstance(st.targets[0], ast.Subscript) and norm(st.targets[0].slice) == f'{WV}.id']
    tabs = {st.targets[0].value.attr for st in keys_new if is_self_attr(st.targets[0].value)}
    ctx.check('R4', 'Pool.restart_workers registers the worker under its new id in both tables', tabs == {'_workers', '_queues'}, 'Pool.restart_workers', 'pool-restart-rekey:' + ','.join(sorted(tabs)),
              'after a restart the Pool does not know the worker under its new id', where=loc(rw, rw.node))
    q = [st for st in keys_new if is_self_attr(st.targets[0].value, '_queues')]
    ok = bool(q) and norm(q[0].value) == f'{QV}.parent_end'
    ctx.check('R4', 'the Pool reads the parent end of the fresh pipe', ok, 'Pool.restart_workers', 'pool-restart-queue-end', 'the Pool polls the wrong end / the old pipe after a restart', where=loc(rw, rw.node))


def restart_keys(ctx, cls, ga, depth=0):
    """keys of the kwargs dict and number of positional args returned by the resolved _get_restart_args (following super())"""
    keys = {}
    positional = set()
    for st in walk_local(ga.node):
        if isinstance(st, ast.Return) and isinstance(st.value, ast.Tuple) and len(st.value.elts) == 2:
            a, k = st.value.elts
            if isinstance(a, ast.List):
                for e in a.elts:
                    if is_self_attr(e):
                        positional.add(e.attr.lstrip('_'))
            if isinstance(k, ast.Dict):
                for kk, vv in zip(k.keys, k.values):
                    if isinstance(kk, ast.Constant):
                        keys[kk.value] = vv
        if isinstance(st, ast.Expr) and isinstance(st.value, ast.Call) and last_attr(st.value) == 'update' and st.value.args and isinstance(st.value.args[0], ast.Dict):
            for kk, vv in zip(st.value.args[0].keys, st.value.args[0].values):
                if isinstance(kk, ast.Constant):
                    keys[kk.value] = vv
        # kwargs['key'] = value
        if isinstance(st, ast.Assign) and len(st.targets) == 1 and isinstance(st.targets[0], ast.Subscript) and isinstance(st.targets[0].value, ast.Name) \
                and isinstance(st.targets[0].slice, ast.Constant) and isinstance(st.targets[0].slice.value, str):
            keys[st.targets[0].slice.value] = st.value
    for c in calls_in(ga.node):
        r = ctx.prog.resolve_call(c, ga, cls)
        if r and r[0] == 'func' and r[1].name == '_get_restart_args' and r[1] is not ga and depth < 3:
            k2, p2 = restart_keys(ctx, cls, r[1], depth + 1)
            for k, v in k2.items():
                keys.setdefault(k, v)
            positional |= p2
    return keys, positional


def storing_attr(func, param):
    """self.<attr> = <param> | <param> or default | f(param) in the constructor that declares the parameter"""
    for st in walk_local(func.node):
        if isinstance(st, ast.Assign) and len(st.targets) == 1 and is_self_attr(st.targets[0]):
            v = st.value
            if is_name(v, param) or (isinstance(v, ast.BoolOp) and is_name(v.values[0], param)) or \
                    (isinstance(v, ast.Call) and v.args and is_name(v.args[0], param) and len(v.args) == 1):
                return st.targets[0].attr
    return None
