"""C19 - active_children() tracks exactly the live workers."""
import ast

from ..astutil import is_self_attr, dotted, calls_in, last_attr, receiver, norm, is_name, walk_local, loc, parent_map, short
from ..cfg import is_flow

EXPLANATION = (
    'Static decision of the worker registry in worker.py: R1 the list pruned by is_alive() under the lock is written back to '
    'the very class attribute that register_child appends to and that the yielded snapshot is copied from (def-use on class '
    'attributes: a store to an attribute nobody reads is the finding); R2 every access to the registry is lexically inside '
    '`with <registry lock>` and no yield happens while the lock is held; R3 registration is dominated by the successful '
    '_start() and a not-dead guard, register_child is idempotent and restarted workers are not excluded (pruning drops dead '
    'workers, so a restarted one must be able to come back); R4 autoclose_active_children runs close -> wait -> terminate for '
    'every yielded child inside a finally block.'
    ' R3 also: the flags every is_alive() reads first (_started, _dead) are assigned on every path of Worker.__init__ to _start(): restart() re-initialises an object that is still registered, and a failed _start() must leave a worker the pruning sees as dead, not one whose is_alive() raises; no method constructs a second instance of its own class; the registry attribute is rebound only on the defining class.')
TECHNIQUE = 'def-use on class attributes, lock-scope check, CFG dominance'


def _registry_accesses(func, owner_names, attr):
    out = []
    for n in walk_local(func.node):
        if isinstance(n, ast.Attribute) and n.attr == attr and isinstance(n.value, ast.Name) and n.value.id in owner_names:
            out.append(n)
    return out


def _inside_with_lock(pm, node, lock_attr):
    cur = node
    while cur in pm:
        cur = pm[cur]
        if isinstance(cur, ast.With):
            for it in cur.items:
                d = dotted(it.context_expr)
                if d and d.split('.')[-1] == lock_attr:
                    return cur
    return None


def _filters_alive(expr):
    """comprehension / filter() whose condition calls is_alive()"""
    for n in ast.walk(expr):
        if isinstance(n, (ast.ListComp, ast.GeneratorExp, ast.SetComp)):
            for gen in n.generators:
                for cond in gen.ifs:
                    if any(last_attr(c) == 'is_alive' for c in calls_in(cond)):
                        return n
        if isinstance(n, ast.Call) and is_name(n.func, 'filter') and n.args and any(
                last_attr(c) == 'is_alive' for c in calls_in(n.args[0])):
            return n
    return None


def reg_stores(func, REG):
    """assignments of the function whose target is the registry attribute (or a slice of it)"""
    out = []
    for st in walk_local(func.node):
        if isinstance(st, ast.Assign):
            for t in st.targets:
                base = t.value if isinstance(t, ast.Subscript) else t
                d = dotted(base) or ''
                if '.' in d and d.split('.')[-1] == REG:
                    out.append(st)
    return out


def provenance(func, expr, depth=0, seen=None):
    """(definitions, attribute reads) the value of `expr` is computed from: every assignment to every local it mentions
    (transitively; comprehension variables excluded) and every attribute it loads"""
    seen = seen if seen is not None else set()
    bound = {n.id for c in ast.walk(expr) if isinstance(c, ast.comprehension) for n in ast.walk(c.target) if isinstance(n, ast.Name)}
    defs, reads = [], [a for a in ast.walk(expr) if isinstance(a, ast.Attribute) and isinstance(a.ctx, ast.Load)]
    for n in ast.walk(expr):
        if isinstance(n, ast.Name) and isinstance(n.ctx, ast.Load) and n.id not in bound and n.id not in seen:
            ds = [x for x in walk_local(func.node) if isinstance(x, (ast.Assign, ast.AugAssign)) and any(
                is_name(tt, n.id) for tt in (x.targets if isinstance(x, ast.Assign) else [x.target]))]
            if not ds:
                continue
            seen.add(n.id)
            for x in ds:
                defs.append(x)
                if depth < 6:
                    d2, r2 = provenance(func, x.value, depth + 1, seen)
                    defs += d2
                    reads += r2
    return defs, reads


def run(ctx):
    P = ctx.prog
    W = P.cls('Worker')
    ctx.require('register_child' in W.methods and 'active_children' in W.methods, 'Worker.register_child / active_children not found')
    reg_f, act_f, init_f = W.methods['register_child'], W.methods['active_children'], W.methods['__init__']
    ctx.used(reg_f, act_f, init_f)
    owners = {'Worker', 'cls'}

    # the registry = class attribute that register_child appends to
    appends = [c for c in calls_in(reg_f.node) if last_attr(c) in ('append', 'add') and receiver(c) and receiver(c).split('.')[0] in owners]
    ctx.require(len(appends) >= 1, 'register_child: no append to a class-level registry found')
    REG = receiver(appends[0]).split('.')[-1]
    ctx.require(REG in W.class_attrs, f'registry attribute {REG} is not a class attribute of Worker')
    locks = [k for k, v in W.class_attrs.items() if isinstance(v, ast.Call) and (dotted(v.func) or '').endswith('Lock')]
    ctx.require(locks, 'Worker has no class-level lock')
    LOCK = locks[0]

    # ---------------------------------------------------------------- R1 write-back
    pm = parent_map(act_f.node)
    pruned_stores = []
    for n in walk_local(act_f.node):
        if isinstance(n, (ast.Assign, ast.AugAssign)):
            val = n.value
            flt = _filters_alive(val)
            if flt is None:
                continue
            # the filter must range over the registry
            over_reg = any(isinstance(a, ast.Attribute) and a.attr == REG for a in ast.walk(flt))
            targets = n.targets if isinstance(n, ast.Assign) else [n.target]
            for t in targets:
                base = t.value if isinstance(t, ast.Subscript) else t
                pruned_stores.append((n, t, dotted(base), over_reg))
    in_place = [c for c in calls_in(act_f.node) if last_attr(c) == 'remove' and receiver(c) and receiver(c).split('.')[-1] == REG]
    has_prune = bool(pruned_stores) or bool(in_place)
    ctx.check('R1', 'active_children prunes the registry by is_alive()', has_prune, 'Worker.active_children', 'no-pruning',
              'dead workers are never dropped from the registry: they and their results are retained and yielded forever',
              where=loc(act_f, act_f.node))
    effective_prune = bool(in_place)
    excluded_on_restart = False
    for st, t, d, over_reg in pruned_stores:
        ok = d is not None and d.split('.')[-1] == REG and d.split('.')[0] in owners and over_reg
        effective_prune = effective_prune or ok
        readers = 0
        if d and not ok:
            attr = d.split('.')[-1]
            readers = sum(1 for f in P.funcs.values() for a in ast.walk(f.node)
                          if isinstance(a, ast.Attribute) and a.attr == attr and isinstance(a.ctx, ast.Load))
        # a local variable is fine if it is what gets written back or yielded later; only attribute targets are judged here
        if d is not None and '.' not in d:
            # local: must flow into a store to REG
            flows = any(st in provenance(act_f, s.value)[0] for s in reg_stores(act_f, REG))
            ctx.check('R1', f'pruned list `{d}` is written back to the registry', flows, 'Worker.active_children',
                      f'pruned-list-not-written-back:{d}', f'the pruned list is kept in local `{d}` and never stored to {REG}', where=loc(act_f, st))
            continue
        ctx.check('R1', f'pruned list is stored to the registry attribute {REG}', ok, 'Worker.active_children',
                  f'pruned-list-stored-to:{d.split(".")[-1] if d else norm(t)}',
                  f'the list pruned by is_alive() is stored to `{d or norm(t)}` ({readers} readers) instead of the registry `{REG}` '
                  'that register_child appends to and that is yielded: dead workers are never dropped',
                  where=loc(act_f, st))
    # the registry is ONE list, an attribute of the class that defines it: a store through `cls` / `self` / `type(self)` creates a second, private
    # attribute on whatever subclass (or instance) the method was reached through, which shadows the real registry from then on
    for f in (act_f, reg_f):
        for st in walk_local(f.node):
            if isinstance(st, (ast.Assign, ast.AugAssign)):
                for tg in (st.targets if isinstance(st, ast.Assign) else [st.target]):
                    base = tg.value if isinstance(tg, ast.Subscript) else tg
                    d = dotted(base) or ''
                    if d.split('.')[-1] in (REG, LOCK) and '.' in d and not isinstance(tg, ast.Subscript):
                        ctx.check('R1', f'{f.short}: the registry attribute is rebound only on the defining class', d.split('.')[0] == W.name, f.short, f'registry-rebound-through:{d.split(".")[0]}',
                                  f'`{norm(st)[:70]}` rebinds the registry through `{d.split(".")[0]}`: called through a subclass or an instance it creates a private list there which '
                                  'shadows the list of Worker - that class never sees workers registered afterwards and keeps the ones it listed (and their results) for ever',
                                  where=loc(f, st))
    # read-modify-write atomicity: everything the written-back value is computed from (the read of the registry, every
    # definition of every local on the way - copies, filters, slices) lies in the critical section that stores it
    for st in reg_stores(act_f, REG):
        w = _inside_with_lock(pm, st, LOCK)
        chain, reads = provenance(act_f, st.value)
        inside = set(id(y) for y in ast.walk(w)) if w is not None else set()
        atomic = w is not None and all(id(x) in inside for x in chain) and all(id(r) in inside for r in reads if r.attr == REG)
        ctx.check('R2', 'the registry is read, pruned and written back within one critical section', atomic, 'Worker.active_children', 'prune-not-atomic',
                  'active_children() computes the list it writes back from a snapshot taken in an earlier critical section (or outside any): a worker registered by another '
                  'thread in between is overwritten by the stale list and is never listed (nor auto-closed) again', where=loc(act_f, st))
    # what is yielded must derive from the registry *after* pruning, inside the lock
    yields = [n for n in walk_local(act_f.node) if isinstance(n, (ast.Yield, ast.YieldFrom))]
    ctx.check('R1', 'active_children yields', bool(yields), 'Worker.active_children', 'no-yield', 'active_children yields nothing', where=loc(act_f, act_f.node))

    # ---------------------------------------------------------------- R2 lock discipline
    n_acc = 0
    for f in P.funcs.values():
        acc = _registry_accesses(f, owners if f.cls is W else {'Worker'}, REG)
        if not acc:
            continue
        fpm = parent_map(f.node)
        for a in acc:
            n_acc += 1
            w = _inside_with_lock(fpm, a, LOCK)
            ctx.check('R2', f'{f.short}: access to {REG} at line {a.lineno} is under {LOCK}', w is not None, f.short,
                      f'unlocked-access:{REG}', f'the registry {REG} is accessed without holding {LOCK}', where=loc(f, a))
    ctx.floor('registry accesses', n_acc, 3)
    for f in (act_f, reg_f):
        for w in [n for n in walk_local(f.node) if isinstance(n, ast.With)]:
            if any((dotted(it.context_expr) or '').split('.')[-1] == LOCK for it in w.items):
                ys = [n for st in w.body for n in walk_local(st) if isinstance(n, (ast.Yield, ast.YieldFrom))]
                ctx.check('R2', f'{f.short}: no yield while {LOCK} is held', not ys, f.short, 'yield-under-lock',
                          'a generator yields while holding the registry lock: the consumer can deadlock every other worker creation',
                          where=loc(f, w))

    # ---------------------------------------------------------------- R3 registration
    # one object per worker: the constructor registers the object being constructed, so no method of a worker class may construct another instance of
    # its own class (type(self)(...), self.__class__(...)) - the twin would be listed next to (or instead of) the worker the user holds
    n_cls = 0
    for c in P.classes.values():
        names = [x.name for x in c.mro() if not isinstance(x, str)]
        if 'Worker' not in names:
            continue
        n_cls += 1
        for f in c.methods.values():
            if f.is_classmethod if hasattr(f, 'is_classmethod') else False:
                continue
            for call in calls_in(f.node):
                fn = call.func
                twin = (isinstance(fn, ast.Call) and is_name(fn.func, 'type') and fn.args and is_name(fn.args[0], 'self')) or \
                       (isinstance(fn, ast.Attribute) and fn.attr == '__class__' and is_name(fn.value, 'self'))
                if twin:
                    ctx.check('R3', f'{f.short}: no second instance of the worker\'s own class is constructed', False, f.short, 'twin-constructed',
                              f'`{short(call, 60)}` in {f.short} constructs a second worker object: its constructor registers *it* as an active child, so active_children() yields the '
                              'twin next to - or, once the dead incarnation has been pruned, instead of - the worker the user holds', where=loc(f, call))
    ctx.ob('R3', f'no method of the {n_cls} worker classes constructs a second instance of its own class', True)
    # 'the workers created by this process': the registry is per process only because every child process starts from a fresh interpreter
    from ..frame import check_spawn_context
    check_spawn_context(ctx, 'R3')
    g = ctx.an.cfg(init_f, W)
    reg_calls = [c for c in calls_in(init_f.node) if last_attr(c) == 'register_child']
    ctx.check('R3', 'Worker.__init__ registers the child', len(reg_calls) == 1, 'Worker.__init__', f'register-calls:{len(reg_calls)}',
              f'{len(reg_calls)} registration calls in the constructor (expected exactly one)', where=loc(init_f, init_f.node))
    start_nodes = [n for n in g.nodes if n.stmt is not None and n.part in ('post',) and any(last_attr(c) == '_start' for c in n.calls()) and n.kind == 'stmt']
    if reg_calls and start_nodes:
        rc = reg_calls[0]
        rnodes = [n for n in g.nodes if n.stmt is not None and n.kind == 'stmt' and any(c is rc for c in n.calls())]
        dom = g.dominators(edge_ok=is_flow)
        sid = {n.id for n in start_nodes}
        ok = all(dom.get(n.id, set()) & sid for n in rnodes) and bool(rnodes)
        ctx.check('R3', 'registration is dominated by the completed _start()', ok, 'Worker.__init__', 'register-before-start',
                  'the worker is registered before (or without) a successful _start(): a failed construction leaves a phantom entry',
                  where=loc(init_f, rc))
        # restart() re-initialises a worker that is usually still in the registry, and _start() can fail (a refused connection, a thread or process that
        # cannot be created): the flags every is_alive() reads first - is_alive() is what the pruning calls on every registered worker - are assigned on
        # every path to _start(), so that a failed start leaves a worker the pruning sees as dead instead of one whose is_alive() raises for ever
        start_eval = [n for n in g.nodes if n.stmt is not None and n.part == 'eval' and any(last_attr(c) == '_start' for c in n.calls())] or start_nodes
        dom_all = g.dominators()
        for flag in ('_started', '_dead'):
            st_ids = {n.id for n in g.nodes if n.stmt is not None and n.part in (None, 'store') and isinstance(n.stmt, ast.Assign) and any(is_self_attr(t, flag) for t in n.stmt.targets)}
            ok = all(dom_all.get(n.id, set()) & st_ids for n in start_eval)
            ctx.check('R3', f'Worker.__init__: self.{flag} is assigned on every path to _start()', ok, 'Worker.__init__', f'liveness-flag-unset-at-start:{flag}',
                      f'self.{flag} is not assigned before _start() runs: when _start() fails inside restart() - the object stays in the registry - is_alive() raises AttributeError, '
                      'so every later active_children() / autoclose_active_children() raises and nothing is pruned or closed any more', where=loc(init_f, start_eval[0].stmt))
        # guard: not self._dead
        ipm = parent_map(init_f.node)
        cur = rc
        guards = []
        while cur in ipm:
            cur = ipm[cur]
            if isinstance(cur, ast.If):
                guards.append(cur.test)
        gtxt = ' and '.join(norm(t) for t in guards)
        ctx.check('R3', 'registration is guarded by not self._dead', any('not self._dead' in norm(t) for t in guards), 'Worker.__init__',
                  'register-unguarded', 'a worker that is already dead after _start() is registered', where=loc(init_f, rc))
        excluded_on_restart = any('_is_restart' in norm(t) for t in guards)
        ctx.check('R3', 'restarted workers are registered again (pruning may have dropped them)', not (excluded_on_restart and effective_prune),
                  'Worker.__init__', 'restart-excluded-from-registration',
                  'registration is skipped on restart although dead workers are pruned: a worker restarted after having been pruned is never listed again',
                  where=loc(init_f, rc))
        ctx.sample({'registration_guard': gtxt})
    # idempotent registration: the append is dominated by a membership test over the registry
    rpm = parent_map(reg_f.node)
    cur = appends[0]
    idem = False
    while cur in rpm:
        cur = rpm[cur]
        if isinstance(cur, ast.If) and any(isinstance(a, ast.Attribute) and a.attr == REG for a in ast.walk(cur.test)):
            idem = True
    ctx.check('R3', 'register_child is idempotent (or restarts are excluded from registration)', idem or excluded_on_restart, 'Worker.register_child', 'non-idempotent-registration',
              'register_child appends unconditionally: a restarted worker that is still listed is yielded twice', where=loc(reg_f, appends[0]))

    # ---------------------------------------------------------------- R4 autoclose chain
    mod = P.module('worker')
    ctx.require('autoclose_active_children' in mod.functions, 'autoclose_active_children not found')
    af = mod.functions['autoclose_active_children']
    ctx.used(af)
    tries = [n for n in walk_local(af.node) if isinstance(n, ast.Try) and n.finalbody]
    ok_fin = False
    detail = 'no try/finally around the yield'
    for t in tries:
        if not any(isinstance(n, ast.Yield) for st in t.body for n in walk_local(st)):
            continue
        loops = [n for st in t.finalbody for n in walk_local(st) if isinstance(n, ast.For) and any(last_attr(c) == 'active_children' for c in calls_in(n.iter))]
        if not loops:
            detail = 'the finally block does not iterate over active_children()'
            continue
        lp = loops[0]
        var = lp.target.id if isinstance(lp.target, ast.Name) else None
        names = [last_attr(c) for st in lp.body for c in calls_in(st) if receiver(c) == var]
        need = ['close', 'wait', 'terminate']
        idx = [names.index(x) if x in names else -1 for x in need]
        if -1 in idx:
            detail = f'missing {need[idx.index(-1)]}() in the clean-up of each child'
            ctx.check('R4', f'autoclose: {need[idx.index(-1)]}() is called for every child', False, 'worker.autoclose_active_children',
                      f'missing-{need[idx.index(-1)]}', 'leaving an autoclose_active_children() block can leave a live worker behind: ' + detail, where=loc(af, lp))
            ok_fin = None
            break
        if idx != sorted(idx):
            detail = 'close/wait/terminate are not called in this order'
            continue
        # terminate must not be skipped when the child is still alive: unconditional, or under `not wait(...)`
        tcall = [c for st in lp.body for c in calls_in(st) if receiver(c) == var and last_attr(c) == 'terminate'][0]
        lpm = parent_map(lp)
        cur = tcall
        conds = []
        while cur in lpm and cur is not lp:
            prev = cur
            cur = lpm[cur]
            if isinstance(cur, ast.If):
                conds.append((cur, prev in cur.body or any(prev is x for b in cur.body for x in ast.walk(b))))
        ok_cond = True
        for c, in_body in conds:
            txt = norm(c.test)
            if in_body and not (txt.startswith('not ') and ('.wait(' in txt or 'dead' in txt or 'done' in txt) or 'is_alive()' in txt or 'alive' in txt):
                ok_cond = False
        if not ok_cond:
            detail = 'terminate() is conditional on something other than the child still being alive'
            continue
        ok_fin = True
    if ok_fin is not None:
        ctx.check('R4', 'autoclose_active_children: close -> wait -> terminate for every child in a finally block', bool(ok_fin),
                  'worker.autoclose_active_children', 'autoclose-chain', 'leaving an autoclose_active_children() block can leave a live worker behind: ' + detail,
                  where=loc(af, af.node))
    ctx.stats.update({'registry': REG, 'lock': LOCK, 'registry_accesses': n_acc})
