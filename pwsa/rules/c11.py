"""C11 - the remote server survives every client failure."""
import ast

from ..astutil import (AnalysisError, dotted, calls_in, last_attr, receiver, norm, is_name, walk_local, is_self_attr,
                       loc, short, parent_map, names_in)
from .c12 import sigterm_handler
from ..cfg import is_flow, path_str
from .c20 import guarded_by_wait

EXPLANATION = (
    'Static decision of the accept loop of RemoteServer.run and of the server-side RemoteWorker.__setstate__ it triggers. '
    'R1 containment: every call inside the loop that operates on the accepted client socket and can raise '
    'ConnectionClosedError (derived from the may-raise summaries of recv_msg/send_msg) has its exception edge caught by a '
    'handler inside the loop body from which every path returns to the loop head - it can reach neither the loop-exiting '
    'handlers nor the function exit. R2 liveness: the blocking waits the accept thread performs on behalf of one client '
    '(accept() of the control connection, the first message of the spawned backend) are multiplexed with an object that '
    'becomes ready when the client / the child goes away. R3: every path that abandons a client (continue) closes its '
    'socket, except the explicit no-request (None header) branch. R4: the children/contexts registries are mutated only in '
    'run (after a successful creation, or on delete) and by the constructor / signal clean-up. R5: every `mp.connection.wait` has a reason why multiprocessing.connection is imported at that point (explicit import, a Pipe end or the child\'s sentinel among the waited objects, or the work loop of a spawned child) - the accept thread of a stand-alone server waits on sockets before any Pipe or Process exists. R6: every call on the client\'s data socket in the server-side __setstate__ that can fail on a reset connection (getpeername, getsockname, ...) is made under a handler inside __setstate__ - the accept loop contains ConnectionClosedError only. R7: the per-thread restore state that carries the load-time patches (the client socket) is unconditionally re-initialised when a load begins (shared with C15.R1): an aborted request cannot leak the dead client\'s socket into the next client\'s worker.')
TECHNIQUE = 'tainted exception edges vs handler position on the CFG, multiplexed-wait recogniser, must-pass-through, who-may-write'


def run(ctx):
    from ..submodule import check_submodule_use
    check_submodule_use(ctx, 'R5')
    P = ctx.prog
    RS = P.cls('RemoteServer')
    f = RS.methods.get('run')
    ctx.require(f is not None, 'RemoteServer.run not found')
    ctx.used(f)
    g = ctx.an.cfg(f, RS)
    # the accept loop
    loops = [n for n in walk_local(f.node) if isinstance(n, ast.While) and any(last_attr(c) == 'accept' for st in n.body for c in calls_in(st))]
    ctx.require(loops, 'RemoteServer.run: accept loop not found')
    loop = loops[0]
    head = [n for n in g.nodes if n.kind == 'join' and n.stmt is loop]
    ctx.require(head, 'accept loop head not in CFG')
    head = head[0]
    in_loop = set()
    for st in loop.body:
        for n in ast.walk(st):
            in_loop.add(id(n))
    accept_stmt = next(st for st in loop.body if any(last_attr(c) == 'accept' for c in calls_in(st)))
    # client variable(s): targets of the accept assignment
    cli_vars = set()
    if isinstance(accept_stmt, ast.Assign):
        t = accept_stmt.targets[0]
        for e in (t.elts if isinstance(t, ast.Tuple) else [t]):
            if isinstance(e, ast.Name):
                cli_vars.add(e.id)
    cli = sorted(cli_vars)[0] if cli_vars else 'cli'
    sock_var = [v for v in cli_vars if 'addr' not in v]
    ctx.require(sock_var, 'client socket variable not found')
    cli = sock_var[0]

    # the header variable: bound to the first message read from the client
    hdr = None
    for st in loop.body:
        for n in walk_local(st):
            if hdr is None and isinstance(n, ast.Assign) and isinstance(n.targets[0], ast.Name) and isinstance(n.value, ast.Call) and last_attr(n.value) == 'recv_msg':
                hdr = n.targets[0].id
    ctx.require(hdr is not None, 'RemoteServer.run: header read not found')

    # ---------------------------------------------------------------- R1 containment
    exits = {n.id for n in g.exits()}
    n_sites = 0
    for n in g.nodes:
        if n.stmt is None or n.part != 'eval' or id(n.stmt) not in in_loop:
            continue
        for e in n.succ:
            if e.kind != 'exc' or e.exc not in ('ConnectionClosedError', 'OSError') or e.call is None:
                continue
            if cli not in names_in(e.call):
                continue
            # a plain OSError: only the socket calls whose failure depends on what the peer did (a reset connection makes shutdown() and getpeername()
            # fail with ENOTCONN, the data calls with EPIPE / ECONNRESET); setting socket options on an accepted socket does not fail because of the peer
            if e.exc == 'OSError' and not (receiver(e.call) == cli and last_attr(e.call) in ('shutdown', 'getpeername', 'send', 'sendall', 'sendmsg', 'sendfile', 'recv', 'recv_into')):
                continue
            n_sites += 1
            inst = f'RemoteServer.run: {e.exc} of `{short(e.call, 60)}` is contained in the loop'
            dst = e.dst
            contained = dst.kind == 'handler' and id(dst.stmt) in in_loop
            p = None
            if contained:
                # from the handler every flow path must come back to the loop head before any exit
                p = g.find_path([dst], lambda x: x.id in exits, edge_ok=lambda x: is_flow(x) or x.kind == 'reraise', node_ok=lambda x: x is not head)
                contained = p is None
            what = last_attr(e.call)
            role = role_of_call(e.call)
            ctx.check('R1', inst, contained, 'RemoteServer.run', f'uncontained:{role}' + ('' if e.exc == 'ConnectionClosedError' else ':' + e.exc),
                      f'a client that disconnects (or resets the connection) while the server executes `{short(e.call, 70)}` raises {e.exc} out of the accept loop: '
                      'the server stops and takes the workers of every other client with it', where=loc(f, e.call),
                      path=[f'{n.describe()}', f'--exc:{e.exc}--> {dst.describe()}'] + path_str(p or []))
    ctx.floor('client-tainted raise sites in the accept loop', n_sites, 4)

    # ---------------------------------------------------------------- R3 abandon paths close the client
    acc_post = [n for n in g.nodes if n.stmt is accept_stmt and n.part in ('store', 'post')]
    close_ids = {n.id for n in g.nodes if n.stmt is not None and n.part == 'post' and any(
        last_attr(c) == 'close' and receiver(c) == cli for c in n.calls())}
    pm = parent_map(f.node)
    n_cont = 0
    for n in g.nodes:
        if n.kind == 'stmt' and isinstance(n.stmt, ast.Continue) and id(n.stmt) in in_loop:
            # the explicit "no request" branch: `if header is None`
            cur, exempt = n.stmt, False
            while cur in pm:
                cur = pm[cur]
                if isinstance(cur, ast.If) and norm(cur.test) == f'{hdr} is None':
                    exempt = True
            if exempt:
                ctx.ob('R3', 'continue of the no-request (None header) branch: nothing is awaited by that client', True)
                continue
            n_cont += 1
            p = g.find_path(acc_post, lambda x: x is n, edge_ok=lambda e: e.kind != 'async', node_ok=lambda x: x.id not in close_ids and x is not head)
            ctx.check('R3', f'RemoteServer.run: the abandon path ending at line {n.line} closes the client socket', p is None, 'RemoteServer.run',
                      'abandon-without-close:' + abandon_role(n.stmt, pm),
                      'the server gives up on a client (continue) without closing its socket: the socket stays open while the server waits in accept(), '
                      'so a client waiting for an answer (e.g. one that named an unknown context) hangs in its constructor', where=loc(f, n.stmt), path=path_str(p or []))
    ctx.floor('abandon (continue) paths', n_cont, 3)

    # ---------------------------------------------------------------- R2 liveness of the accept thread (server-side __setstate__)
    RW = P.cls('RemoteWorker')
    ss = RW.methods['__setstate__']
    ctx.used(ss)
    gs = ctx.an.cfg(ss, RW)
    dom = gs.dominators(edge_ok=lambda e: e.kind != 'async')
    n_block = 0
    for c in calls_in(ss.node):
        r = receiver(c) or ''
        if last_attr(c) == 'accept':
            n_block += 1
            rn = [n for n in gs.nodes if n.stmt is not None and n.part == 'eval' and any(x is c for x in n.calls())]
            ok, why = guarded_by_wait(gs, dom, ss, rn, r, '_socket')
            ctx.check('R2', 'server-side __setstate__: accept() on the control listener is multiplexed with the client data socket', ok, ss.short,
                      'bare-accept', f'the accept thread blocks in accept() on the control listener ({why}): a client that dies before connecting blocks the server for good',
                      where=loc(ss, c))
        if last_attr(c) in ('recv', 'get') and r.endswith('.parent_end') and not c.args:
            n_block += 1
            rn = [n for n in gs.nodes if n.stmt is not None and n.part == 'eval' and any(x is c for x in n.calls())]
            ok, why = guarded_by_wait(gs, dom, ss, rn, r, '.sentinel')
            ctx.check('R2', 'server-side __setstate__: the runtime-info receive is multiplexed with the backend\'s sentinel', ok, ss.short,
                      'bare-startup-recv', f'the accept thread does a bare recv() of the backend\'s runtime info ({why}): a backend that dies while starting blocks the server for good',
                      where=loc(ss, c))
    ctx.floor('blocking waits of the accept thread in __setstate__', n_block, 2)
    # R6: every call on the client's data socket that can fail because the client has gone (OSError on a reset connection: getpeername,
    # getsockname, setsockopt, shutdown ...) is made under a handler inside __setstate__ - the accept loop contains ConnectionClosedError only.
    # send_msg / recv_msg map their transport errors themselves (C10.R3).
    n_cli = 0
    for n in gs.nodes:
        if n.stmt is None or n.part != 'eval':
            continue
        for e in n.succ:
            if e.kind != 'exc' or e.cause != 'e3' or e.call is None or e.exc == 'ConnectionClosedError':
                continue
            if receiver(e.call) != 'self._socket':
                continue
            n_cli += 1
            contained = e.dst.kind == 'handler'      # what the handler may raise in turn is judged by R2 (`setstate-raises`)
            ctx.check('R6', f'server-side __setstate__: a failure of `{short(e.call, 50)}` on the client\'s data socket is handled inside __setstate__', contained, ss.short,
                      f'client-socket-error-escapes:{last_attr(e.call)}',
                      f'`{short(e.call, 60)}` raises {e.exc} when the client has already reset the connection (e.g. it died right after sending its worker); nothing in __setstate__ catches it '
                      'and it is not a ConnectionClosedError, so it leaves the accept loop: the server stops and takes the workers of every other client with it', where=loc(ss, e.call))
    ctx.floor('fallible calls on the client data socket in __setstate__', n_cli, 2)
    # R7: the accept thread unpickles every request with load-time patches (the client socket): a request whose load was aborted - the client died inside
    # the control handshake - must leave nothing in the per-thread restore state, or the next client's worker is wired to the dead client's socket
    from .c15 import check_residue
    check_residue(ctx, 'R7')
    # the failures raised by these guards must be the class the server contains
    raised = {ctx.an.raised_class(n.exc, ss) for n in walk_local(ss.node) if isinstance(n, ast.Raise) and n.exc is not None}
    ctx.check('R2', 'server-side __setstate__ reports an abandoned start-up as ConnectionClosedError (the class the accept loop contains)',
              raised <= {'ConnectionClosedError'}, ss.short, 'setstate-raises:' + ','.join(sorted(raised)),
              f'__setstate__ raises {sorted(raised)}, which the accept loop does not contain', where=loc(ss, ss.node))

    # ---------------------------------------------------------------- R4 registries
    regs = ('children', 'contexts')
    MUT = ('append', 'pop', 'clear', 'remove', 'extend', 'update', 'setdefault', 'insert', '__setitem__', '__delitem__')
    n_mut = 0
    for fn in P.funcs.values():
        owner = fn.cls
        p = fn.parent
        while owner is None and p is not None:
            owner = p.cls
            p = p.parent
        if owner is not RS:
            continue
        for node in walk_local(fn.node):
            hit = None
            if isinstance(node, ast.Call) and last_attr(node) in MUT and (receiver(node) or '') in tuple(f'self.{r}' for r in regs):
                hit = (node, last_attr(node), receiver(node).split('.')[1])
            if isinstance(node, (ast.Assign, ast.Delete)):
                targets = node.targets
                for t in targets:
                    base = t.value if isinstance(t, ast.Subscript) else t
                    if is_self_attr(base) and base.attr in regs:
                        hit = (node, 'assign' if isinstance(node, ast.Assign) else 'del', base.attr)
            if hit:
                n_mut += 1
                ok = fn.name in ('run', '__init__') or (fn.parent is not None and fn.parent.name == 'install_handlers' and sigterm_handler(fn.parent) is fn)
                ctx.check('R4', f'{fn.short}: mutation `{hit[1]}` of {hit[2]} is made by run / the constructor / the signal clean-up', ok, fn.short if fn.parent is None else f'{fn.parent.short}.<closure>',
                          f'foreign-registry-mutation:{hit[2]}.{hit[1]}', f'{fn.short} mutates the server registry `{hit[2]}`', where=loc(fn, hit[0]))
    ctx.floor('registry mutation sites', n_mut, 6)
    # the child is registered only if its creation succeeded
    appends = [c for c in calls_in(loop) if last_attr(c) == 'append' and receiver(c) == 'self.children']
    for c in appends:
        an = [n for n in g.nodes if n.stmt is not None and n.part == 'eval' and any(x is c for x in n.calls())]
        creators = {n.id for n in g.nodes if n.stmt is not None and n.part in ('store', 'post') and isinstance(n.stmt, ast.Assign)
                    and c.args and is_name(n.stmt.targets[0], c.args[0].id if isinstance(c.args[0], ast.Name) else '') and any(last_attr(x) == 'recv_msg' for x in n.calls())}
        domg = g.dominators(edge_ok=lambda e: e.kind != 'async')
        ok = bool(an) and all(domg.get(a.id, set()) & creators for a in an)
        ctx.check('R4', 'RemoteServer.run: a child is registered only after it was created successfully', ok, 'RemoteServer.run', 'register-without-creation',
                  'children.append() is reachable without a successfully received worker', where=loc(f, c))
    # the sockets of a remote worker are bound by the start-up functions only: a control/helper thread that rebinds them (e.g. to None after closing)
    # turns the ConnectionClosedError the accept loop contains into an AttributeError/TypeError it does not
    n_bind = 0
    for c in [RW] + P.subclasses(RW):
        for fn in c.methods.values():
            for st in walk_local(fn.node):
                if isinstance(st, ast.Assign):
                    for t in st.targets:
                        for el in (t.elts if isinstance(t, ast.Tuple) else [t]):
                            if is_self_attr(el) and el.attr in ('_socket', '_ctrl_sock'):
                                n_bind += 1
                                ok = fn.name in ('__init__', '_start', '__setstate__', '_run_frontend')
                                ctx.check('R4', f'{fn.short}: `self.{el.attr}` is bound by a start-up function', ok, fn.short, f'socket-rebound:{el.attr}@{fn.name}',
                                          f'{fn.short} rebinds self.{el.attr} (`{norm(st)}`) while other threads of the server still use it: a client that disconnects at the wrong moment '
                                          'makes the accept thread fail with AttributeError/TypeError instead of the ConnectionClosedError the accept loop contains - the server stops',
                                          where=loc(fn, st))
    ctx.floor('bindings of the worker sockets', n_bind, 3)
    ctx.stats.update({'tainted_sites': n_sites, 'abandon_paths': n_cont, 'registry_mutations': n_mut, 'socket_bindings': n_bind})


def role_of_call(call):
    name = last_attr(call)
    comment = ''
    for k in call.keywords:
        if k.arg == 'comment':
            if isinstance(k.value, ast.Constant):
                comment = str(k.value.value)
            elif isinstance(k.value, ast.JoinedStr):
                comment = ''.join(v.value for v in k.value.values if isinstance(v, ast.Constant))
    comment = comment.replace('server:', '').strip().split(' - ')[0].strip().replace(' ', '-')
    return f'{name}[{comment}]' if comment else name


def abandon_role(cont, pm):
    """what the abandon path is about: the nearest enclosing handler / test"""
    cur = cont
    while cur in pm:
        cur = pm[cur]
        if isinstance(cur, ast.ExceptHandler):
            # which call is protected by the try?
            t = pm.get(cur)
            calls = [role_of_call(c) for st in getattr(t, 'body', []) for c in calls_in(st) if last_attr(c) in ('recv_msg', 'send_msg')]
            return 'handler:' + ','.join(calls)
        if isinstance(cur, ast.If):
            return 'if:' + norm(cur.test)
    return 'loop'
