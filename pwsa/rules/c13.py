"""C13 - remote_pickle is invisible to code that does not opt in."""
import ast

from ..astutil import (AnalysisError, dotted, calls_in, last_attr, receiver, norm, is_name, walk_local, is_self_attr,
                       loc, short, parent_map, names_in)
from ..cfg import is_flow, path_str

EXPLANATION = (
    'Static decision of how RemotePickler builds its dispatch table. R1: CPython *replaces* copyreg.dispatch_table by '
    'Pickler.dispatch_table when the attribute exists, so every private table the pickler installs must be derived from '
    'copyreg.dispatch_table (dataflow from that name into the assigned expression, through the table class\'s constructor into '
    'dict.__init__). R2: when the remote flag is false nothing routes to the remote reducer - every store of remote_reduce '
    'into the table, and the installation of the dynamic table itself, is dominated by the true side of the flag; otherwise '
    'the bytes are not a standard pickle. R3: every in-repo __getstate__ with a `remote` parameter defaults it to False; the '
    'reducer passes the pickler\'s flag by keyword; dumps/dump default remote to True and forward it. R4: the dynamic table '
    'routes a missing key to the remote reducer only for types for which issubclass(key, SupportRemoteGetState) holds; the '
    'metaclass registers a class only when its MRO has a remote-aware __getstate__ and raises Warning on an inconsistent '
    'chain.'
    ' R4 also: the loop body that classifies one base by the signature of its __getstate__ is evaluated over the four combinations (has a `remote` parameter) x (has **kwargs) against its specification: remote -> remote-aware whatever else it accepts, no remote and **kwargs -> pass-through, neither -> blocks the chain; the verdict cache is keyed by the class object and written only with the final verdict, never on the rejecting path.')
TECHNIQUE = 'dataflow into dispatch_table, dominance by the remote flag, signature checks'


def check_cache_key(ctx, cf, rule):
    """the verdict cache is keyed by the class object itself: a key derived from it (id(t) - recycled once the class has been collected -, a name - two
    classes may share it) answers a later, different class with the verdict of an earlier one"""
    tparam = cf.params[1] if len(cf.params) > 1 else None
    keys = []
    for n in walk_local(cf.node):
        if isinstance(n, ast.Subscript) and 'cache' in norm(n.value):
            keys.append(n.slice)
        if isinstance(n, ast.Compare) and len(n.ops) == 1 and isinstance(n.ops[0], (ast.In, ast.NotIn)) and 'cache' in norm(n.comparators[0]):
            keys.append(n.left)
        if isinstance(n, ast.Call) and last_attr(n) in ('get', 'pop', 'setdefault') and 'cache' in (receiver(n) or '') and n.args:
            keys.append(n.args[0])
    ctx.floor('uses of the verdict cache key', len(keys), 3)
    def resolved(e, depth=0):
        if isinstance(e, ast.Name) and e.id != tparam and depth < 3:
            ds = [st.value for st in walk_local(cf.node) if isinstance(st, ast.Assign) and len(st.targets) == 1 and is_name(st.targets[0], e.id)]
            if len(ds) == 1:
                return resolved(ds[0], depth + 1)
        return e
    for k in keys:
        k = resolved(k)
        ctx.check(rule, 'the verdict cache is keyed by the class object itself', tparam is not None and is_name(k, tparam), cf.short, f'cache-key:{norm(k)}',
                  f'the verdict cache is keyed by `{norm(k)}` instead of the class: once a class that was checked has been garbage-collected, a new class can be given the same key '
                  '(the same address) and is answered with the stale verdict - an opt-in class is then silently serialised without the remote flag', where=loc(cf, k))


def pickler_construction(ctx, f, depth=0, env=None):
    """{'file': expr, 'protocol': expr, 'remote': expr} of the RemotePickler(...) call made by f, directly or through module-level helper functions
    (arguments are substituted through the helpers' parameters, so the expressions are in terms of f's own parameters); None if there is none"""
    env = env or {}

    def subst(e):
        return env.get(e.id, e) if isinstance(e, ast.Name) else e
    for c in calls_in(f.node):
        if last_attr(c) == 'RemotePickler':
            out = {}
            names = ['file', 'protocol']
            for i, a in enumerate(c.args[:2]):
                out[names[i]] = subst(a)
            for k in c.keywords:
                if k.arg in ('file', 'protocol', 'remote'):
                    out[k.arg] = subst(k.value)
            # an expression over a parameter is not the parameter: keep it, with the parameter names substituted, for the report
            for key, e in list(out.items()):
                if not isinstance(e, ast.Name) and isinstance(e, ast.AST):
                    import copy
                    e2 = copy.deepcopy(e)
                    for n in ast.walk(e2):
                        if isinstance(n, ast.Name) and n.id in env and isinstance(env[n.id], ast.Name):
                            n.id = env[n.id].id
                    out[key] = e2
            return out
    if depth >= 2:
        return None
    for c in calls_in(f.node):
        r = ctx.prog.resolve_call(c, f, None)
        if r and r[0] == 'func' and r[1].cls is None and r[1] is not f:
            g = r[1]
            ctx.used(g)
            env2 = {}
            for p, a in zip(g.params, c.args):
                env2[p] = subst(a)
            for k in c.keywords:
                if k.arg:
                    env2[k.arg] = subst(k.value)
            res = pickler_construction(ctx, g, depth + 1, env2)
            if res is not None:
                return res
    return None


def run(ctx):
    P = ctx.prog
    RP = P.cls('RemotePickler36')
    init = RP.methods['__init__']
    DT = None
    for st in walk_local(init.node):
        if isinstance(st, ast.Assign) and any(is_self_attr(t, 'dispatch_table') for t in st.targets):
            for c in calls_in(st.value):
                r = P.resolve_dotted(init.module, dotted(c.func)) if dotted(c.func) else None
                if r and r[0] == 'class':
                    DT = r[1]
    if DT is None:
        cands = [c for c in init.module.classes.values() if 'dict' in [b if isinstance(b, str) else b.name for b in c.mro()] and '__getitem__' in c.methods]
        ctx.require(len(cands) == 1, 'the dynamic dispatch table class was not found')
        DT = cands[0]
    ctx.used(init, DT.methods['__init__'], DT.methods['__getitem__'], RP.methods['remote_reduce'])
    g = ctx.an.cfg(init, RP)
    flag_attr = None
    for st in walk_local(init.node):
        if isinstance(st, ast.Assign) and is_self_attr(st.targets[0]) and is_name(st.value, 'remote'):
            flag_attr = st.targets[0].attr
    ctx.require(flag_attr is not None, 'RemotePickler.__init__: the remote flag is not stored')
    d = init.param_default('remote')
    ctx.check('R3', 'RemotePickler(remote=...) defaults to True', isinstance(d, ast.Constant) and d.value is True, 'RemotePickler36.__init__', f'pickler-default:{norm(d)}',
              'the pickler does not default to remote=True', where=loc(init, init.node))
    # ---------------------------------------------------------------- R1 / R2 stores to self.dispatch_table
    stores = [n for n in g.nodes if n.stmt is not None and n.part in (None, 'store') and isinstance(n.stmt, ast.Assign) and any(is_self_attr(t, 'dispatch_table') for t in n.stmt.targets)]
    items = [n for n in g.nodes if n.stmt is not None and n.part in (None, 'store', 'eval') and isinstance(n.stmt, ast.Assign) and any(
        isinstance(t, ast.Subscript) and is_self_attr(t.value, 'dispatch_table') for t in n.stmt.targets)]
    flag_true = set()
    for n in g.nodes:
        if n.kind == 'test' and isinstance(n.stmt, ast.If) and n.part in (None, 'post'):
            t = norm(n.stmt.test)
            if t in (f'self.{flag_attr}', 'remote'):
                flag_true |= {e.dst.id for e in n.succ if e.kind == 'true'}
            if t in (f'not self.{flag_attr}', 'not remote'):
                flag_true |= {e.dst.id for e in n.succ if e.kind == 'false'}
    dom = g.dominators(edge_ok=is_flow)
    n_tab = 0
    for n in stores:
        n_tab += 1
        v = n.stmt.value
        # value shapes: Ctor(...) | {} | IfExp(Ctor if flag else {})
        alts = [(v, None)]
        if isinstance(v, ast.IfExp):
            tt = norm(v.test)
            alts = [(v.body, tt in (f'self.{flag_attr}', 'remote')), (v.orelse, tt in (f'not self.{flag_attr}', 'not remote'))]
        for val, under_flag in alts:
            derived = any(isinstance(a, ast.Attribute) and norm(a) == 'copyreg.dispatch_table' for a in ast.walk(val))
            routes_remote = any(isinstance(a, ast.Attribute) and a.attr == 'remote_reduce' for a in ast.walk(val))
            guarded = bool(dom.get(n.id, set()) & flag_true) or bool(under_flag)
            ctx.check('R1', f'private dispatch table `{short(val, 50)}` is derived from copyreg.dispatch_table', derived, 'RemotePickler36.__init__',
                      f'table-not-from-copyreg:{norm(val)[:60]}',
                      f'the pickler installs `{norm(val)}` as its dispatch_table; a private table replaces copyreg.dispatch_table, so every type pickled through copyreg '
                      '(compiled regular expressions, ...) can no longer be dumped with remote_pickle', where=loc(init, n.stmt))
            if routes_remote:
                ctx.check('R2', 'the dynamic (remote-routing) table is installed only when remote is true', guarded, 'RemotePickler36.__init__', 'remote-table-unconditional',
                          'the table that routes opt-in classes to remote_reduce is installed regardless of the remote flag: dumps(obj, remote=False) is not a standard pickle',
                          where=loc(init, n.stmt))
    for n in items:
        if 'remote_reduce' in norm(n.stmt.value):
            guarded = bool(dom.get(n.id, set()) & flag_true)
            ctx.check('R2', f'registration `{short(n.stmt, 60)}` happens only when remote is true', guarded, 'RemotePickler36.__init__', 'remote-registration-unconditional',
                      'opt-in classes are routed to remote_reduce even with remote=False: pickle.loads(remote_pickle.dumps(x, remote=False)) fails for such classes', where=loc(init, n.stmt))
    ctx.floor('dispatch-table stores', n_tab + len(items), 2)
    # table class forwards initial content to dict
    di = DT.methods['__init__']
    sup = [c for c in calls_in(di.node) if last_attr(c) == '__init__' and isinstance(c.func.value, ast.Call) and is_name(c.func.value.func, 'super')]
    ok = bool(sup) and any(isinstance(a, ast.Starred) and is_name(a.value, di.vararg) for a in sup[0].args)
    ctx.check('R1', 'dyn_dispatch_table passes its initial content to dict.__init__', ok, f'{DT.name}.__init__', 'table-ctor-drops-content',
              'the dynamic table ignores the initial mapping it is given (the copyreg reducers)', where=loc(di, di.node))
    ctx.check('R1', 'the dynamic table is a dict', 'dict' in [b if isinstance(b, str) else b.name for b in DT.mro()], DT.name, 'table-not-dict', 'the dynamic table is not a dict', where=loc(di, di.node))

    # ---------------------------------------------------------------- R4 dynamic routing
    gi = DT.methods['__getitem__']
    gg = ctx.an.cfg(gi, DT)
    rets = [n for n in gg.nodes if n.kind == 'return' and n.part in (None, 'eval') and n.stmt.value is not None and norm(n.stmt.value) == 'self.method']
    tests = set()
    for n in gg.nodes:
        if n.kind == 'test' and n.part in (None, 'post') and isinstance(n.stmt, ast.If):
            t = n.stmt.test
            if isinstance(t, ast.Call) and is_name(t.func, 'issubclass') and len(t.args) == 2 and norm(t.args[1]).endswith('SupportRemoteGetState') and is_name(t.args[0], gi.params[1]):
                tests |= {e.dst.id for e in n.succ if e.kind == 'true'}
    domg = gg.dominators(edge_ok=is_flow)
    ok = bool(rets) and all(domg.get(n.id, set()) & tests for n in rets)
    ctx.check('R4', 'dyn_dispatch_table routes to the remote reducer only under issubclass(key, SupportRemoteGetState)', ok, f'{DT.name}.__getitem__', 'routing-unconditional',
              'the dynamic table hands the remote reducer to classes that did not opt in: they are serialised through remote_reduce (which calls __getstate__(remote=...))',
              where=loc(gi, gi.node))
    fall = [c for c in calls_in(gi.node) if last_attr(c) == '__getitem__' and isinstance(c.func.value, ast.Call) and is_name(c.func.value.func, 'super')]
    ctx.check('R4', 'other keys fall through to dict lookup (KeyError = not in the table)', bool(fall), f'{DT.name}.__getitem__', 'no-fallthrough',
              'the dynamic table does not fall back to the plain lookup', where=loc(gi, gi.node))
    sub = RP.methods.get('subject_to_custom_reduce')
    ok = sub is not None and any(is_name(c.func, 'issubclass') and norm(c.args[0]) == 'type(obj)' and norm(c.args[1]).endswith('SupportRemoteGetState') for c in calls_in(sub.node))
    ctx.check('R4', 'subject_to_custom_reduce is issubclass(type(obj), SupportRemoteGetState)', ok, 'RemotePickler36.subject_to_custom_reduce', 'custom-reduce-predicate',
              'the child-detection predicate is not the opt-in test', where=loc(sub, sub.node) if sub else None)

    # ---------------------------------------------------------------- R3 flags
    n_gs = 0
    for f in P.funcs.values():
        if f.name == '__getstate__' and 'remote' in f.all_params():
            n_gs += 1
            ctx.used(f)
            d = f.param_default('remote')
            ctx.check('R3', f'{f.short}: `remote` defaults to False', isinstance(d, ast.Constant) and d.value is False, f.short, f'getstate-default:{norm(d)}',
                      f'{f.short} treats a plain __getstate__() - what pickle, copy and multiprocessing call - as a remote transfer', where=loc(f, f.node))
    ctx.floor('__getstate__ implementations with a remote parameter', n_gs, 4)
    rr = RP.methods['remote_reduce']
    gsc = [c for c in calls_in(rr.node) if last_attr(c) == '__getstate__']
    ok = len(gsc) == 1 and not gsc[0].args and len(gsc[0].keywords) == 1 and gsc[0].keywords[0].arg == 'remote' and is_self_attr(gsc[0].keywords[0].value, flag_attr)
    ctx.check('R3', 'remote_reduce calls obj.__getstate__(remote=<pickler flag>)', ok, 'RemotePickler36.remote_reduce', 'reducer-flag:' + (norm(gsc[0]) if gsc else 'none'),
              'the reducer does not pass the pickler\'s remote flag (by keyword) to __getstate__', where=loc(rr, rr.node))
    rpm = P.module('remote_pickle')
    for fn in ('remote_dump', 'remote_dumps'):
        f = rpm.functions[fn]
        ctx.used(f)
        d = f.param_default('remote')
        pc = pickler_construction(ctx, f)
        fw = pc is not None and is_name(pc.get('remote'), 'remote')
        ctx.check('R3', f'{fn}: remote defaults to True and is forwarded to the pickler', isinstance(d, ast.Constant) and d.value is True and fw, f'remote_pickle.{fn}', f'{fn}-flag',
                  f'{fn} does not forward its remote flag to the pickler', where=loc(f, f.node))
        # the protocol the caller asked for reaches the pickler unchanged (None included: the pickler's own default is pickle's default)
        pr = pc.get('protocol') if pc else None
        ctx.check('R3', f'{fn}: the protocol argument is handed to the pickler unchanged', is_name(pr, 'protocol'), f'remote_pickle.{fn}', f'{fn}-protocol:{norm(pr)}',
                  f'{fn} constructs the pickler with protocol `{norm(pr)}` instead of the protocol it was given: for some legal value (0 is falsy) code that does not opt in gets a '
                  'different pickle than from the standard pickler - other bytes, other reduce path (__new__ called on load), other errors', where=loc(f, f.node))
    for alias, target in (('dumps', 'remote_dumps'), ('dump', 'remote_dump'), ('loads', 'remote_loads'), ('load', 'remote_load')):
        ctx.check('R3', f'remote_pickle.{alias} is {target}', rpm.aliases.get(alias) == target, 'remote_pickle', f'alias:{alias}', f'remote_pickle.{alias} is not {target}', where=rpm.relpath)
    # metaclass: registration and Warning
    M = P.cls('SupportRemoteGetStateMeta')
    chk = [f for n, f in M.methods.items() if 'check_type' in n]
    ctx.require(chk, 'SupportRemoteGetStateMeta: type check function not found')
    cf = chk[0]
    ctx.used(cf)
    warn = [st for st in walk_local(cf.node) if isinstance(st, ast.Raise) and 'Warning' in norm(st.exc)]
    pm = parent_map(cf.node)
    ok = False
    for w in warn:
        conds = [norm(x.test) for x in _anc(pm, w) if isinstance(x, ast.If)]
        # the guard flag: a local that starts True and is lowered (= False) when a __getstate__ without `remote` is met
        flags = {st.targets[0].id for st in walk_local(cf.node) if isinstance(st, ast.Assign) and isinstance(st.targets[0], ast.Name) and isinstance(st.value, ast.Constant) and st.value.value is True} & \
                {st.targets[0].id for st in walk_local(cf.node) if isinstance(st, ast.Assign) and isinstance(st.targets[0], ast.Name) and isinstance(st.value, ast.Constant) and st.value.value is False}
        ok = ok or (any(c == f'not {fl}' for c in conds for fl in flags) and any("'remote' in" in c for c in conds))
    ctx.check('R4', 'the metaclass raises Warning when a remote-aware __getstate__ sits below one that is not', ok, cf.short, 'inconsistent-chain-accepted',
              'a class whose opt-in is inconsistent along its inheritance chain is silently accepted', where=loc(cf, cf.node))
    # the per-base classification, evaluated: a __getstate__ that names `remote` makes its class remote-aware whatever else it accepts; one without
    # `remote` is a pass-through if it takes **kwargs and blocks the chain otherwise
    check_base_classification(ctx, cf, 'R4')
    # the verdict cache: written only with the final verdict, and never on the path that rejects the class
    gcf = ctx.an.cfg(cf, M)
    cache_stores = [n for n in gcf.nodes if n.stmt is not None and n.part in (None, 'store') and isinstance(n.stmt, ast.Assign)
                    and any(isinstance(t, ast.Subscript) and 'cache' in norm(t.value) for t in n.stmt.targets)]
    final_ret = [st.value.id for st in cf.node.body if isinstance(st, ast.Return) and isinstance(st.value, ast.Name)]
    for n in cache_stores:
        v = n.stmt.value
        ctx.check('R4', f'the verdict cache is written with the computed verdict (`{norm(n.stmt)}`)', bool(final_ret) and is_name(v, final_ret[-1]), cf.short,
                  f'cache-store-value:{norm(v)}', f'`{norm(n.stmt)}` caches a value that is not the verdict the function returns: later checks of the same class answer from a wrong cache entry',
                  where=loc(cf, n.stmt))
    warn_nodes = [n for n in gcf.nodes if n.kind == 'stmt' and isinstance(n.stmt, ast.Raise) and n.stmt in warn]
    cs_ids = {n.id for n in cache_stores}
    pth = gcf.find_path([n for n in cache_stores], lambda n: n in warn_nodes, edge_ok=is_flow) if cache_stores and warn_nodes else None
    ctx.check('R4', 'a class that is rejected with a Warning is not cached as decided', pth is None, cf.short, 'rejected-class-cached',
              'the verdict cache is written before the inconsistency Warning can be raised: the first dump of an inconsistent class raises, every later one finds the cached entry '
              'and silently serialises the class without the remote flag', where=loc(cf, cf.node), path=path_str(pth or []))
    ctx.floor('verdict cache stores', len(cache_stores), 1)
    check_cache_key(ctx, cf, 'R4')
    reg = [c for c in calls_in(cf.node) if last_attr(c) == 'append' and 'supported_classes' in (receiver(c) or '')]
    HR = final_ret[-1] if final_ret else 'has_remote'
    ok = bool(reg) and any(isinstance(x, ast.If) and norm(x.test) == HR for x in _anc(pm, reg[0]))
    ctx.check('R4', 'a class is registered as supported only if its MRO has a remote-aware __getstate__', ok, cf.short, 'registration-unconditional',
              'classes without a remote-aware __getstate__ are registered for remote reduction', where=loc(cf, cf.node))
    stop = [st for st in walk_local(cf.node) if isinstance(st, ast.If) and '__reduce_ex__' in norm(st.test) and '__reduce__' in norm(st.test)]
    ok = bool(stop) and any(isinstance(x, ast.Assign) and is_name(x.targets[0], HR) and norm(x.value) == 'False' for x in stop[0].body) and any(isinstance(x, ast.Break) for x in stop[0].body)
    ctx.check('R4', 'a class with its own __reduce__/__reduce_ex__ is left to standard pickling', ok, cf.short, 'custom-reduce-overridden',
              'classes defining their own __reduce__ are routed to the remote reducer', where=loc(cf, cf.node))


def check_base_classification(ctx, cf, rule):
    """Small abstract evaluation of the loop body that classifies one base class of the MRO by the signature of its __getstate__.  The two facts a
    signature contributes - R: it has a parameter named `remote`; K: it has a **kwargs parameter - are given all four truth assignments; tests that
    mention neither are explored both ways.  Specification: R -> remote-aware (the verdict flag is raised, or the inconsistency Warning); not R and K
    -> the base is skipped (pass-through); not R and not K -> the chain is blocked (the allow flag is lowered)."""
    loops = [n for n in walk_local(cf.node) if isinstance(n, ast.For) and '__mro__' in norm(n.iter)]
    def has_remote_test(st):
        return any(isinstance(t, ast.Compare) and len(t.ops) == 1 and isinstance(t.ops[0], (ast.In, ast.NotIn)) and isinstance(t.left, ast.Constant) and t.left.value == 'remote'
                   for t in ast.walk(st))
    # the statement of the loop body that inspects the __getstate__ of one base: the outermost if of the loop body that contains the `remote` test
    gs = [st for lp in loops for st in lp.body if isinstance(st, ast.If) and has_remote_test(st)]
    if not ctx.check(rule, 'the metaclass inspects the __getstate__ of every base of the MRO', bool(gs), cf.short, 'no-signature-inspection',
                     'the type check does not look at the __getstate__ of the bases', where=loc(cf, cf.node)):
        return
    body = gs[0].body
    true_names = {st.targets[0].id for st in walk_local(cf.node) if isinstance(st, ast.Assign) and isinstance(st.targets[0], ast.Name) and isinstance(st.value, ast.Constant) and st.value.value is True}
    false_names = {st.targets[0].id for st in walk_local(cf.node) if isinstance(st, ast.Assign) and isinstance(st.targets[0], ast.Name) and isinstance(st.value, ast.Constant) and st.value.value is False}
    rets = [st.value.id for st in cf.node.body if isinstance(st, ast.Return) and isinstance(st.value, ast.Name)]
    verdict = rets[-1] if rets else None
    allow = (true_names & false_names) - {verdict}

    def ev(t, env):
        if isinstance(t, ast.UnaryOp) and isinstance(t.op, ast.Not):
            v = ev(t.operand, env)
            return None if v is None else not v
        if isinstance(t, ast.BoolOp):
            vs = [ev(v, env) for v in t.values]
            if isinstance(t.op, ast.And):
                return False if any(v is False for v in vs) else (True if all(v is True for v in vs) else None)
            return True if any(v is True for v in vs) else (False if all(v is False for v in vs) else None)
        if isinstance(t, ast.Compare) and len(t.ops) == 1 and isinstance(t.ops[0], (ast.In, ast.NotIn)) and isinstance(t.left, ast.Constant) and t.left.value == 'remote':
            return env['R'] if isinstance(t.ops[0], ast.In) else not env['R']
        if isinstance(t, ast.Name) and t.id in env.get('locals', {}):
            return env['locals'][t.id]
        mentions_k = any((isinstance(x, ast.Attribute) and x.attr == 'VAR_KEYWORD') or (isinstance(x, ast.Name) and x.id == 'VAR_KEYWORD') for x in ast.walk(t))
        if mentions_k:
            neg = any(isinstance(x, (ast.IsNot, ast.NotEq, ast.NotIn)) for x in ast.walk(t))
            if isinstance(t, ast.Call) and isinstance(t.func, ast.Name) and t.func.id == 'all':
                return None
            return (not env['K']) if neg else env['K']
        return None

    def run_block(stmts, env, marks):
        """set of outcomes; 'fall' when the block ends normally (carrying its marks through the env)"""
        outs = set()
        states = [frozenset(marks)]
        for st in stmts:
            nxt = []
            for m in states:
                if isinstance(st, ast.If):
                    v = ev(st.test, env)
                    for truth, blk in ((True, st.body), (False, st.orelse)):
                        if v is None or v is truth:
                            o, falls = run_block(blk, env, m)
                            outs |= o
                            nxt += falls
                elif isinstance(st, (ast.Continue, ast.Break)):
                    outs.add('aware' if 'aware' in m else 'block' if 'block' in m else 'skip')
                elif isinstance(st, ast.Raise):
                    outs.add('warn')
                elif isinstance(st, ast.Assign) and len(st.targets) == 1 and isinstance(st.targets[0], ast.Name) and isinstance(st.value, ast.Constant):
                    name, val = st.targets[0].id, st.value.value
                    m2 = set(m)
                    if name == verdict and val is True:
                        m2.add('aware')
                    if name in allow and val is False:
                        m2.add('block')
                    nxt.append(frozenset(m2))
                else:
                    nxt.append(m)
            states = list(dict.fromkeys(nxt))
            if not states:
                break
        return outs, states
    # what the `remote` test looks into is the complete parameter list of the __getstate__: keyword-only parameters included (the pickler passes
    # remote= by keyword, so `def __getstate__(self, *, remote=False)` opts in like any other spelling)
    n_tests = 0
    for t in walk_local(gs[0]):
        if isinstance(t, ast.Compare) and len(t.ops) == 1 and isinstance(t.ops[0], (ast.In, ast.NotIn)) and isinstance(t.left, ast.Constant) and t.left.value == 'remote':
            n_tests += 1
            coll = t.comparators[0]
            srcs = [coll]
            if isinstance(coll, ast.Name):
                srcs = [st.value for st in walk_local(cf.node) if isinstance(st, ast.Assign) and any(is_name(tg, coll.id) for tg in st.targets)]
            seen_names = set()
            work = list(srcs)
            texts = []
            while work:
                e = work.pop()
                texts.append(norm(e))
                for x in ast.walk(e):
                    if isinstance(x, ast.Name) and x.id not in seen_names:
                        seen_names.add(x.id)
                        work += [st.value for st in walk_local(cf.node) if isinstance(st, ast.Assign) and any(is_name(tg, x.id) for tg in st.targets)]
            def complete(txt_all, own):
                if '.parameters' in own and 'signature' in txt_all:
                    return True
                return 'co_varnames' in own and 'co_kwonlyargcount' in own
            bad = [norm(e) for e in srcs if not complete(' '.join(texts), ' '.join(norm(y) for y in [e] + [st.value for x in ast.walk(e) if isinstance(x, ast.Name)
                                                                                                           for st in walk_local(cf.node) if isinstance(st, ast.Assign) and any(is_name(tg, x.id) for tg in st.targets)]))]
            ctx.check(rule, 'the `remote` test looks into the complete parameter list of the __getstate__ (inspect.signature(...).parameters)', bool(srcs) and not bad, cf.short,
                      'parameter-names-incomplete:' + (bad[0][:60] if bad else 'none'),
                      f'the names the `remote` test looks into come from `{bad[0] if bad else "?"}`, which is not exactly the parameter list of the signature (a slice of co_varnames misses keyword-only parameters - `def __getstate__(self, *, remote=False)` '
                      'silently drops out of the opt-in set - and the whole of co_varnames includes local variables - a plain __getstate__ with a local called remote is routed to the '
                      'remote reducer and fails)',
                      where=loc(cf, t))
    ctx.floor('tests for a parameter named remote', n_tests, 1)
    spec = {(True, True): {'aware', 'warn'}, (True, False): {'aware', 'warn'}, (False, True): {'skip'}, (False, False): {'block'}}
    for (r, k), allowed in spec.items():
        outs, falls = run_block(body, {'R': r, 'K': k}, frozenset())
        for m in falls:
            outs.add('aware' if 'aware' in m else 'block' if 'block' in m else 'skip')
        label = ('remote' if r else 'no-remote') + ('+kwargs' if k else '')
        ctx.check(rule, f'a base whose __getstate__ has {"a" if r else "no"} `remote` parameter and {"a" if k else "no"} **kwargs is classified {sorted(allowed)}', bool(outs) and outs <= allowed,
                  cf.short, f'base-classification:{label}->{",".join(sorted(outs - allowed)) or "nothing"}',
                  f'a __getstate__({"remote=..., " if r else ""}{"**kwargs" if k else ""}) is classified {sorted(outs)} instead of {sorted(allowed)}: '
                  + ('a remote-aware base is taken for a pass-through, so a class below it that drops `remote` is no longer rejected with a Warning (and a consistent class written '
                     'this way is not recognised as opting in)' if r else 'the inconsistency check of the inheritance chain takes the wrong turn for this signature'),
                  where=loc(cf, gs[0]))


def _anc(pm, node):
    cur = node
    while cur in pm:
        cur = pm[cur]
        yield cur
