"""C03 - graceful terminate interrupts the target wherever it is and is reported as such."""
import ast

from ..astutil import (canon, canon_ast, branch_where, edge_fact, edge_facts, conjuncts, guards_of, facts_at, AnalysisError, dotted, calls_in, last_attr, receiver, norm, is_name, walk_local, is_self_attr,
                       loc, short, parent_map)
from ..cfg import is_flow, path_str
from ..lifecycle import lifecycle, worker_classes, landing_label, handler_context, kind_of, is_persistent

EXPLANATION = (
    'Static decision of the graceful-termination machinery. R1 delivery chain: for every kind the request travels '
    'parent.terminate -> (control pipe / control socket -> server control thread -> control pipe) -> foreign_raise(<ident '
    'assigned from threading.get_ident() in the child-main>, WorkerTerminatedError); every command string sent on the control '
    'socket has a dispatch branch calling the method of that name with arguments that bind to its signature; the child control '
    'thread exists before the parent is released. R2 release: _release_child / _release_self are called after the injection '
    'and each persistent input loop treats the token written by its own _release_child as "stop". R3: for every statement of '
    'the child-main (and, through the call statement, of everything it calls) at which the asynchronous exception can land '
    'while the injector may still be alive, every continuation reaches the function exit with an outcome recorded that is the '
    'WorkerTerminatedError or an outcome recorded earlier - never nothing and never a bare fallback; no library frame between '
    'the child-main and the target swallows the exception. Prefixes in which the target raised a non-Exception BaseException '
    'are outside the premise. Landing set = AST tier of DESIGN E4 (statements executing a call, a Python-level descriptor or '
    'an iteration step; pre- and post-effect).')
TECHNIQUE = 'message-flow reachability over send/receive sites + per-landing-point CFG path analysis over async edges'


def flow_no_baseonly(e):
    return is_flow(e) and e.exc != 'UserBaseOnly'


def after_fault(e):
    """edges a path may take once its single fault has happened: fault-free flow plus the propagation of that fault"""
    return e.kind == 'reraise' or flow_no_baseonly(e)


def always_leaves(stmts):
    """every way through the statement list ends in return / raise (syntactic, conservative)"""
    if not stmts:
        return False
    last = stmts[-1]
    if isinstance(last, (ast.Return, ast.Raise)):
        return True
    if isinstance(last, ast.If):
        return always_leaves(last.body) and always_leaves(last.orelse)
    if isinstance(last, ast.Try) and not last.finalbody:
        return (always_leaves(last.orelse) if last.orelse else always_leaves(last.body)) and all(always_leaves(h.body) for h in last.handlers)
    if isinstance(last, ast.With):
        return always_leaves(last.body)
    return False


def split_regions(func):
    """{'server': stmts, 'parent': stmts} of a RemoteWorker method that branches on is_remote_side - written with an else, or as a guard clause
    whose branch always leaves the function (the rest of the body is then the other side)."""
    body = func.node.body
    for i, st in enumerate(body):
        if not isinstance(st, ast.If):
            continue
        text, truth = canon(st.test)
        if text not in ('self.is_remote_side', 'self._remote_side'):
            continue
        other = st.orelse
        if not other and always_leaves(st.body):
            other = body[i + 1:]
        return {'server': st.body, 'parent': other} if truth else {'server': other, 'parent': st.body}
    return None


def calls_in_stmts(stmts):
    return [c for st in stmts for c in calls_in(st)]


def _wte_ok(prog, func, expr):
    d = dotted(expr)
    r = prog.resolve_dotted(func.module, d) if d else None
    return bool(r and r[0] == 'class' and r[1].name == 'WorkerTerminatedError' and r[1].module.name.endswith('.worker'))


def check_injection(ctx, func, cls, calls, lc, rule='R1'):
    """the foreign_raise call among `calls` targets the child's interpreter thread with WorkerTerminatedError"""
    inj = [c for c in calls if last_attr(c) == 'foreign_raise']
    ok = ctx.check(rule, f'{cls.name}: {func.short} injects with foreign_raise', len(inj) >= 1, func.short, 'no-injection',
                   f'{func.short} never calls foreign_raise: a terminate request is not delivered to the target thread', where=loc(func, func.node))
    if not ok:
        return None
    c = inj[0]
    a0 = c.args[0] if c.args else None
    ident_ok = is_self_attr(a0)
    ident_attr = a0.attr if ident_ok else None
    # the attribute must be assigned from threading.get_ident() in the child-main (the function that calls do_work)
    src_ok = False
    if ident_ok:
        for st in walk_local(lc.main.node):
            if isinstance(st, ast.Assign) and any(is_self_attr(t, ident_attr) for t in st.targets) and isinstance(st.value, ast.Call) \
                    and (dotted(st.value.func) or '').endswith('get_ident'):
                src_ok = True
    ctx.check(rule, f'{cls.name}: injection targets the ident recorded by the child-main via threading.get_ident()', ident_ok and src_ok,
              func.short, f'injection-target:{norm(a0)}',
              f'foreign_raise is given `{norm(a0)}`, which is not the interpreter thread ident recorded by {lc.main.short} '
              '(PyThreadState_SetAsyncExc needs threading.get_ident() of the thread running the target)', where=loc(func, c))
    a1 = c.args[1] if len(c.args) > 1 else None
    ctx.check(rule, f'{cls.name}: the injected exception is WorkerTerminatedError', a1 is not None and _wte_ok(ctx.prog, func, a1),
              func.short, f'injection-exception:{norm(a1)}', f'the injected exception is `{norm(a1)}`, not the exported WorkerTerminatedError',
              where=loc(func, c))
    return c


def terminate_waits_for_ack(ctx, cls, chan):
    """the resolved terminate() polls / reads the parent end of the control pipe before it releases the child"""
    _, term = cls.resolve('terminate')
    if term is None:
        return False
    return any(last_attr(c) in ('poll', 'get', 'recv') and (receiver(c) or '') == f'self.{chan}.parent_end' for c in calls_in(term.node))


def check_grace_period(ctx):
    """R2: on the server side of the remote terminate the graceful window is the time the caller granted (`timeout`, which is how the control thread
    passes it on) - never `remote_timeout`, which still has its default there"""
    RW = ctx.prog.cls('RemoteWorker')
    term = RW.methods['terminate']
    reg = split_regions(term)
    if not reg or 'remote_timeout' not in term.all_params():
        return
    uses = [x for st in reg['server'] for x in ast.walk(st) if isinstance(x, ast.Name) and x.id == 'remote_timeout' and isinstance(x.ctx, ast.Load)]
    ctx.check('R2', 'RemoteWorker.terminate[server]: the target is given the time the caller granted to unwind (`timeout`), not the request budget', not uses, 'RemoteWorker.terminate',
              'grace-period-from-remote-timeout', 'the server side of terminate() waits for `remote_timeout` (default 1 s there) instead of the granted `timeout`: a target whose unwinding takes '
              'longer is force-killed in the middle of its finally/with blocks and the parent sees error None instead of WorkerTerminatedError', where=loc(term, uses[0]) if uses else loc(term, term.node))


def check_single_delivery(ctx):
    """One terminate() delivers the exception once.  While the first WorkerTerminatedError unwinds the target the thread is still alive - it is running the
    target's finally blocks and __exit__ methods - so an injection repeated "until the thread is gone" lands inside that clean-up and aborts it: the property
    promises that the clean-up runs.  Rule: in every function of the worker hierarchy, a call of foreign_raise, and in every terminate(), the statement that
    sends the terminate command to the child's control thread, does not lie on a cycle of the control-flow graph."""
    P = ctx.prog
    W = P.cls('Worker')
    n = 0
    for f in P.funcs.values():
        c = f.cls
        if c is None or W not in c.mro() or f.parent is not None:
            continue
        sites = []
        for call in calls_in(f.node):
            if last_attr(call) == 'foreign_raise':
                sites.append((call, 'foreign_raise'))
            elif f.name == 'terminate' and last_attr(call) in ('put', 'send', 'send_msg'):
                args = list(call.args)
                if any((isinstance(a, ast.Constant) and a.value == 'terminate') or
                       (isinstance(a, ast.Tuple) and a.elts and isinstance(a.elts[0], ast.Constant) and a.elts[0].value == 'terminate') for a in args):
                    sites.append((call, 'terminate command'))
        if not sites:
            continue
        ctx.used(f)
        g = ctx.an.cfg(f, c)
        for call, what in sites:
            n += 1
            ev = [x for x in g.nodes if x.stmt is not None and x.part != 'post' and any(y is call for y in x.calls())]
            post = [x for x in g.nodes if x.stmt is not None and x.part == 'post' and any(y is call for y in x.calls())]
            p = g.find_path(post, lambda x: x in ev, edge_ok=is_flow) if ev and post else None
            ctx.check('R1', f'{f.short}: the {what} is issued once per call (not inside a loop)', p is None, f.short, f'delivery-repeated:{what.split()[0]}',
                      f'{f.short} can issue `{short(call)}` again after it has issued it: the second WorkerTerminatedError lands while the first one is unwinding the target - '
                      'inside its finally / __exit__ - and aborts the clean-up the property promises', where=loc(f, call), path=path_str(p or []))
    ctx.floor('injection / terminate-command sites', n, 5)


def run(ctx):
    from ..frame import check_frame_attrs
    check_frame_attrs(ctx, 'C03', 'R1')
    check_grace_period(ctx)
    check_single_delivery(ctx)
    P = ctx.prog
    classes = worker_classes(P, internal=False)
    utils = P.module('utils')
    ctx.require('foreign_raise' in utils.functions, 'utils.foreign_raise not found')
    fr = utils.functions['foreign_raise']
    ctx.used(fr)

    # ---------------------------------------------------------------- R1: foreign_raise itself
    api = [c for c in calls_in(fr.node) if (dotted(c.func) or '').endswith('PyThreadState_SetAsyncExc')]
    ctx.check('R1', 'foreign_raise calls PyThreadState_SetAsyncExc', bool(api), 'utils.foreign_raise', 'no-SetAsyncExc',
              'foreign_raise does not call PyThreadState_SetAsyncExc', where=loc(fr, fr.node))
    if api:
        tid_p, exc_p = fr.params[0], fr.params[1]
        # the raising call: its 2nd argument depends on the exception parameter, its 1st on the tid parameter
        def depends(expr, param, depth=0):
            if expr is None or depth > 4:
                return False
            for n in ast.walk(expr):
                if is_name(n, param):
                    return True
                if isinstance(n, ast.Name):
                    for st in walk_local(fr.node):
                        if isinstance(st, ast.Assign) and any(is_name(t, n.id) for t in st.targets) and depends(st.value, param, depth + 1):
                            return True
            return False
        raising = [c for c in api if len(c.args) == 2 and depends(c.args[1], exc_p)]
        ok = bool(raising) and all(depends(c.args[0], tid_p) for c in api)
        ctx.check('R1', 'foreign_raise hands its tid and exception parameters to SetAsyncExc', ok, 'utils.foreign_raise', 'params-not-forwarded',
                  'the thread id / exception given to PyThreadState_SetAsyncExc are not data-dependent on the parameters of foreign_raise',
                  where=loc(fr, api[0]))
        # the last SetAsyncExc on the success path must be the raising one (a trailing reset would cancel the request)
        g = ctx.an.cfg(fr)
        if raising:
            rn = [n for n in g.nodes if n.stmt is not None and n.part == 'post' and any(c is raising[-1] for c in n.calls())]
            resets = [n for n in g.nodes if n.stmt is not None and n.part == 'post' and any(
                c in api and c not in raising for c in n.calls())]
            after = g.reachable(rn, edge_ok=is_flow)
            cancel = [n for n in resets if n.id in after and g.find_path([n], lambda x: x is g.exit, edge_ok=is_flow)]
            ctx.check('R1', 'no reset of the async exception follows the request on the success path', not cancel, 'utils.foreign_raise',
                      'request-cancelled', 'foreign_raise clears the pending asynchronous exception after setting it', where=loc(fr, fr.node))

    check_poll(ctx)
    n_hops = 0
    for cls in classes:
        lc = lifecycle(ctx, cls)
        kind = lc.kind
        ctx.used(lc.main)
        _, term = cls.resolve('terminate')
        ctx.require(term is not None, f'{cls.name}.terminate not found')
        ctx.used(term)
        # ------------------------------------------------------------ R1 per kind
        if kind == 'thread':
            inj = check_injection(ctx, term, cls, calls_in(term.node), lc)
            n_hops += 1
            if inj is not None:
                g = ctx.an.cfg(term, cls)
                inj_nodes = {n.id for n in g.nodes if n.stmt is not None and n.part == 'eval' and any(c is inj for c in n.calls())}
                joins = [n for n in g.nodes if n.stmt is not None and n.part == 'eval' and any(last_attr(c) == 'join' for c in n.calls())]
                dom = g.dominators(edge_ok=is_flow)
                ok = bool(joins) and all(dom.get(j.id, set()) & inj_nodes for j in joins)
                ctx.check('R1', f'{cls.name}.terminate: the injection precedes every join', ok, term.short, 'join-without-injection',
                          'a path of terminate() joins the child without having injected WorkerTerminatedError', where=loc(term, inj))
        elif kind == 'process':
            n_hops += check_pipe_chain(ctx, cls, lc, term, calls_in(term.node), term.node.body)
        else:
            n_hops += check_remote_chain(ctx, cls, lc, term)
        # the injector thread must exist before the parent is released
        if kind in ('process', 'remote'):
            g = lc.g
            starts = [n for n in g.nodes if n.stmt is not None and n.part == 'post' and any(
                last_attr(c) == 'start' and receiver(c) == f'self.{lc.ctrl_attr}' for c in n.calls())]
            dom = g.dominators()
            sid = {n.id for n in starts}
            ok = bool(starts) and bool(lc.primary_sync) and all(dom.get(s.id, set()) & sid for s in lc.primary_sync)
            ctx.check('R1', f'{cls.name}: control thread started before the parent is released', ok, lc.main.short, 'ctrl-thread-after-sync',
                      'the child releases its parent before its control thread exists: a terminate() issued right after construction is never delivered',
                      where=loc(lc.main, lc.main.node))

        # ------------------------------------------------------------ R2 release after injection
        check_release(ctx, cls, lc, term)

        # ------------------------------------------------------------ R3 landing analysis
        check_landings(ctx, cls, lc)

    ctx.stats['delivery_hops_checked'] = n_hops
    ctx.floor('worker classes analysed', len(classes), 6)


# ------------------------------------------------------------------------------------------------ chains
def check_pipe_chain(ctx, cls, lc, func, calls, stmts, region='parent'):
    """parent/server side: put('<token>') on the control pipe; child side: ctrl fn receives and injects."""
    hops = 0
    sends = [c for c in calls if last_attr(c) in ('put', 'send') and (receiver(c) or '').startswith('self.') and
             (receiver(c) or '').endswith('.parent_end') and c.args and isinstance(c.args[0], ast.Constant) and isinstance(c.args[0].value, str)]
    ok = ctx.check('R1', f'{cls.name}: {func.short}[{region}] writes a terminate token on the control pipe', bool(sends), func.short,
                   f'no-terminate-token[{region}]', f'{func.short} ({region} side) never writes the terminate request to the control pipe',
                   where=loc(func, func.node))
    if not ok:
        return hops
    hops += 1
    s = sends[0]
    chan = receiver(s).split('.')[1]
    token = s.args[0].value
    cf = lc.ctrl_fn
    ctx.used(cf)
    g = ctx.an.cfg(cf, cls)
    recvs = [c for c in calls_in(cf.node) if last_attr(c) in ('recv', 'get') and (receiver(c) or '') == f'self.{chan}.child_end']
    ok = ctx.check('R1', f'{cls.name}: control thread {cf.short} reads the control pipe {chan}', bool(recvs), cf.short, f'ctrl-reads-other-channel:{chan}',
                   f'{cf.short} does not read self.{chan}.child_end, the end opposite to where terminate() writes', where=loc(cf, cf.node))
    if not ok:
        return hops
    hops += 1
    inj = check_injection(ctx, cf, cls, calls_in(cf.node), lc)
    if inj is None:
        return hops
    hops += 1
    # from the receive, with the value being the token (not None), the injection must be reached on every flow path
    sigvar = None
    for st in walk_local(cf.node):
        if isinstance(st, ast.Assign) and st.value is recvs[0] and isinstance(st.targets[0], ast.Name):
            sigvar = st.targets[0].id
    inj_ids = {n.id for n in g.nodes if n.stmt is not None and n.part == 'post' and any(c is inj for c in n.calls())}
    recv_nodes = [n for n in g.nodes if n.stmt is not None and n.part == 'post' and any(c is recvs[0] for c in n.calls())]

    def edge_ok(e):
        if not is_flow(e):
            return False
        if sigvar and e.src.kind == 'test' and isinstance(e.src.stmt, ast.If) and e.kind in ('true', 'false'):
            # the value is the token (a non-empty string): edges that establish `sig is None` / `not sig` are not taken (polarity-free)
            if edge_fact(e) in ((f'{sigvar} is None', True), (sigvar, False)):
                return False
            # a comparison against a *different* constant sends the token the wrong way
            st, pos = canon_ast(e.src.stmt.test)
            if isinstance(st, ast.Compare) and is_name(st.left, sigvar) and isinstance(st.ops[0], ast.Eq) and \
                    isinstance(st.comparators[0], ast.Constant) and isinstance(st.comparators[0].value, str):
                same = (st.comparators[0].value == token) == pos
                if (e.kind == 'true') != same:
                    return False
        return True
    p = g.find_path(recv_nodes, lambda n: n is g.exit, edge_ok=edge_ok, node_ok=lambda n: n.id not in inj_ids)
    ctx.check('R1', f'{cls.name}: a received {token!r} always reaches the injection in {cf.short}', p is None and bool(recv_nodes), cf.short,
              'token-not-injected', f'{cf.short} can finish after receiving {token!r} without raising in the target thread',
              where=loc(cf, recvs[0]), path=path_str(p or []))
    # the acknowledgement follows the injection: the parent waits (poll) for the control thread to close its end of the control pipe before it releases
    # the child's work loop; an end closed before the exception is pending lets the release token overtake it - an idle persistent worker then leaves its
    # loop gracefully and reports success for a terminate that was answered True
    closers = [n for n in g.nodes if n.stmt is not None and n.part == 'eval' and any(last_attr(c) == 'close' and (receiver(c) or '') == f'self.{chan}.child_end' for c in n.calls())]
    if closers and terminate_waits_for_ack(ctx, cls, chan):
        # an injection call that itself raises found no thread to interrupt (the target has gone): closing on that exit acknowledges nothing wrongly
        inj_eval = {n.id for n in g.nodes if n.stmt is not None and n.part != 'post' and any(c is inj for c in n.calls())}
        p2 = g.find_path(recv_nodes, lambda n: n in closers, edge_ok=lambda e: edge_ok(e) and not (e.src.id in inj_eval and e.kind not in ('norm', 'true', 'false')),
                         node_ok=lambda n: n.id not in inj_ids)
        ctx.check('R1', f'{cls.name}: the control thread closes its end of the control pipe (the acknowledgement terminate() waits for) only after the injection', p2 is None, cf.short,
                  'acknowledged-before-injection', f'{cf.short} can close self.{chan}.child_end - which terminate() takes as the acknowledgement before it releases the work loop - before '
                  'foreign_raise has made the exception pending: the release token can reach an idle persistent worker first, it ends gracefully and reports has_error False',
                  where=loc(cf, closers[0].stmt), path=path_str(p2 or []))
    # the receive must not be in a loop (the injector handles exactly one message - the landing-region bound relies on it)
    in_loop = any(isinstance(l, (ast.While, ast.For)) and any(x is recvs[0] for x in ast.walk(l)) for l in walk_local(cf.node))
    ctx.ob('R1', f'{cls.name}: control thread handles exactly one message', not in_loop)
    if in_loop:
        raise AnalysisError(f'{cf.short}: the control thread now loops over requests - the landing-region bound of DESIGN E4 does not hold any more')
    return hops


def check_remote_chain(ctx, cls, lc, term):
    hops = 0
    reg = split_regions(term)
    ctx.require(reg is not None, f'{term.short}: server/parent regions not recognised')
    pcalls = calls_in_stmts(reg['parent'])
    # parent -> server: send_msg(self._ctrl_sock, ('terminate', (rt, force)))
    cmds = []
    for c in pcalls:
        if last_attr(c) == 'send_msg' and len(c.args) >= 2 and isinstance(c.args[1], ast.Tuple) and c.args[1].elts and \
                isinstance(c.args[1].elts[0], ast.Constant) and isinstance(c.args[1].elts[0].value, str):
            cmds.append(c)
    ok = ctx.check('R1', f'{cls.name}.terminate[parent] sends a command on the control socket', bool(cmds), term.short, 'no-remote-command',
                   'the parent side of terminate() sends no command to the server', where=loc(term, term.node))
    if not ok:
        return hops
    hops += 1
    c0 = cmds[0]
    sock = norm(c0.args[0])
    cmd = c0.args[1].elts[0].value
    argt = c0.args[1].elts[1] if len(c0.args[1].elts) > 1 else None
    # server control thread
    ctrl_rem = None
    for c in calls_in(lc.setstate.node):
        if last_attr(c) == 'Thread':
            for k in c.keywords:
                if k.arg == 'target' and is_self_attr(k.value):
                    ctrl_rem = cls.resolve(k.value.attr)[1]
    ctx.require(ctrl_rem is not None, f'{cls.name}: server-side control thread not found')
    ctx.used(ctrl_rem)
    hops += check_dispatch(ctx, cls, ctrl_rem, sock)
    # binding of the terminate arguments
    branch = find_branch(ctrl_rem, cmd)
    ok = ctx.check('R1', f'{cls.name}: server dispatches {cmd!r}', branch is not None, ctrl_rem.short, f'no-branch:{cmd}',
                   f'the command {cmd!r} sent by terminate() has no branch in {ctrl_rem.short}', where=loc(ctrl_rem, ctrl_rem.node))
    if ok:
        callee_calls = [c for st in branch for c in calls_in(st) if receiver(c) == 'self']
        ok2 = ctx.check('R1', f'{cls.name}: the {cmd!r} branch calls self.terminate(*args)', any(last_attr(c) == 'terminate' and any(isinstance(a, ast.Starred) for a in c.args) for c in callee_calls),
                        ctrl_rem.short, f'branch-calls:{cmd}->' + ','.join(last_attr(c) for c in callee_calls),
                        f'the {cmd!r} branch of {ctrl_rem.short} does not call self.terminate(*args)', where=loc(ctrl_rem, branch[0]))
        if ok2 and isinstance(argt, ast.Tuple):
            params = [p for p in term.params if p != 'self']
            for i, el in enumerate(argt.elts):
                pname = params[i] if i < len(params) else None
                role_ok = pname is not None and isinstance(el, ast.Name) and (pname in el.id or el.id in pname)
                ctx.check('R1', f'{cls.name}: terminate argument {i} `{norm(el)}` binds to parameter `{pname}`', role_ok, term.short,
                          f'arg-binding:{i}:{norm(el)}->{pname}',
                          f'the {i}-th argument sent with the terminate command (`{norm(el)}`) binds to parameter `{pname}` of the server-side terminate',
                          where=loc(term, c0))
            hops += 1
    # server side -> control pipe -> local control thread
    hops += check_pipe_chain(ctx, cls, lc, term, calls_in_stmts(reg['server']), reg['server'], region='server')
    return hops


def find_branch(func, cmd):
    """statements executed when the received command equals `cmd` (polarity-free)"""
    for n in walk_local(func.node):
        if isinstance(n, ast.If):
            b = branch_where(n, lambda t: isinstance(t, ast.Compare) and len(t.ops) == 1 and isinstance(t.ops[0], ast.Eq) and
                             isinstance(t.comparators[0], ast.Constant) and t.comparators[0].value == cmd)
            if b:
                return b
    return None


def check_dispatch(ctx, cls, ctrl_rem, sock):
    """opcode exhaustiveness: every command sent on the control socket by the parent API has a branch with the same-named call"""
    hops = 0
    sent = {}
    for mname in ('terminate', 'wait', 'is_alive'):
        _, f = cls.resolve(mname)
        if f is None:
            continue
        # follow super() delegation for persistent wait
        funcs = [f]
        for c in calls_in(f.node):
            r = ctx.prog.resolve_call(c, f, cls)
            if r and r[0] == 'func' and r[1].name == mname and r[1] is not f:
                funcs.append(r[1])
        for ff in funcs:
            for c in calls_in(ff.node):
                if last_attr(c) == 'send_msg' and len(c.args) >= 2 and isinstance(c.args[1], ast.Tuple) and c.args[1].elts and \
                        isinstance(c.args[1].elts[0], ast.Constant) and isinstance(c.args[1].elts[0].value, str) and norm(c.args[0]) == sock:
                    sent[c.args[1].elts[0].value] = (ff, c, mname)
    want = {'terminate': 'terminate', 'wait': 'wait', 'alive': 'is_alive'}
    for cmd, (ff, c, mname) in sorted(sent.items()):
        br = find_branch(ctrl_rem, cmd)
        ok = ctx.check('R1', f'{cls.name}: command {cmd!r} (sent by {ff.short}) has a dispatch branch', br is not None, ctrl_rem.short, f'no-branch:{cmd}',
                       f'command {cmd!r} sent by {ff.short} is answered with "unknown command"', where=loc(ctrl_rem, ctrl_rem.node))
        if ok:
            names = [last_attr(x) for st in br for x in calls_in(st) if receiver(x) == 'self']
            ctx.check('R1', f'{cls.name}: branch {cmd!r} calls self.{mname}', mname in names, ctrl_rem.short, f'branch-calls:{cmd}->' + ','.join(names),
                      f'the {cmd!r} branch calls {names} instead of self.{mname}', where=loc(ctrl_rem, br[0]))
            hops += 1
        # request/reply pairing on the parent side: a recv_msg on the same socket follows
        reply = [x for x in calls_in(ff.node) if last_attr(x) == 'recv_msg' and x.args and norm(x.args[0]) == sock and x.lineno >= c.lineno]
        ctx.check('R1', f'{ff.short}: the {cmd!r} request is followed by a reply read', bool(reply), ff.short, f'no-reply-read:{cmd}',
                  f'{ff.short} sends {cmd!r} but never reads the reply: the next request would read a stale answer', where=loc(ff, c))
    # the reply is sent after the dispatch
    replies = [c for c in calls_in(ctrl_rem.node) if last_attr(c) == 'send_msg' and norm(c.args[0]) == sock]
    ctx.check('R1', f'{cls.name}: the server control thread answers every request', bool(replies), ctrl_rem.short, 'no-reply',
              f'{ctrl_rem.short} never sends the result of a request back', where=loc(ctrl_rem, ctrl_rem.node))
    ctx.floor(f'{cls.name}: control commands', len(sent), 3)
    return hops


# ------------------------------------------------------------------------------------------------ release
def _has_effect(func):
    if func is None:
        return False
    body = [st for st in func.node.body if not (isinstance(st, ast.Expr) and isinstance(st.value, ast.Constant))]
    # prune windows-only bodies
    def effective(stmts):
        for st in stmts:
            if isinstance(st, ast.Pass):
                continue
            if isinstance(st, ast.If):
                from ..cfg import _const_truth
                tv = _const_truth(st.test)
                if tv is False:
                    if effective(st.orelse):
                        return True
                    continue
                if tv is True:
                    if effective(st.body):
                        return True
                    continue
            return True
        return False
    return effective(body)


def check_release(ctx, cls, lc, term):
    P = ctx.prog
    kind = lc.kind
    # parent/server side: _release_child after the injection / token
    if kind == 'remote':
        reg = split_regions(term)
        stmts = reg['server'] if reg else term.node.body
    else:
        stmts = term.node.body
    calls = calls_in_stmts(stmts)
    trig = [c for c in calls if last_attr(c) == 'foreign_raise' or (last_attr(c) in ('put', 'send') and c.args and isinstance(c.args[0], ast.Constant) and isinstance(c.args[0].value, str))]
    rel = [c for c in calls if last_attr(c) == '_release_child' and receiver(c) == 'self']
    _, rc = cls.resolve('_release_child')
    needed = _has_effect(rc)
    if needed:
        ok = bool(rel) and bool(trig) and rel[0].lineno > trig[0].lineno
        ctx.check('R2', f'{cls.name}: terminate calls _release_child() after requesting termination', ok, term.short, 'no-release-child',
                  f'{term.short} does not release the child after the request: a persistent child blocked waiting for input never sees the exception',
                  where=loc(term, term.node))
        if ok:
            # must be reached on every path from the trigger to the join
            g = ctx.an.cfg(term, cls)
            rid = {n.id for n in g.nodes if n.stmt is not None and n.part == 'eval' and any(c is rel[0] for c in n.calls())}
            tn = [n for n in g.nodes if n.stmt is not None and n.part == 'post' and any(c is trig[0] for c in n.calls())]
            jn = [n for n in g.nodes if n.stmt is not None and n.part == 'eval' and any(last_attr(c) == 'join' for c in n.calls())
                  and any(n.stmt is x or any(n.stmt is y for y in ast.walk(x)) for x in stmts)]
            jids = {n.id for n in jn}
            p = g.find_path(tn, lambda n: n.id in jids, edge_ok=is_flow, node_ok=lambda n: n.id not in rid)
            ctx.check('R2', f'{cls.name}: every path from the request to the join releases the child', p is None, term.short, 'release-skipped',
                      'a path of terminate() reaches the join without _release_child()', where=loc(term, rel[0]), path=path_str(p or []))
    else:
        ctx.ob('R2', f'{cls.name}: resolved _release_child has no effect - call not required', True)
    # child side: _release_self after foreign_raise in the control function, if some class served by it has an effective override
    if kind in ('process', 'remote'):
        cf = lc.ctrl_fn
        served = [c for c in P.classes.values() if not isinstance(c, str) and cf.cls in c.mro()]
        eff = [c for c in served if _has_effect(c.resolve('_release_self')[1])]
        key = ('release_self', cf.qualname)
        if key not in ctx.stats:
            ctx.stats[key] = True
            calls = calls_in(cf.node)
            inj = [c for c in calls if last_attr(c) == 'foreign_raise']
            rs = [c for c in calls if last_attr(c) == '_release_self']
            if eff:
                ok = bool(rs) and bool(inj) and rs[0].lineno > inj[0].lineno
                ctx.check('R2', f'{cf.short}: _release_self() follows the injection (effective for {[c.name for c in eff]})', ok, cf.short,
                          'no-release-self', f'{cf.short} does not call _release_self() after raising: {eff[0].name} stays blocked '
                          '(e.g. the server process in accept()) and never notices the exception', where=loc(cf, cf.node))
            else:
                ctx.ob('R2', f'{cf.short}: every resolved _release_self is a no-op on this platform - call not required', True)
            del ctx.stats[key]
            ctx.stats.setdefault('release_self_checked', []).append(cf.short)
    # stop-token agreement for persistent classes
    if lc.persistent:
        check_stop_token(ctx, cls, lc, rc)


def check_stop_token(ctx, cls, lc, rc):
    """the token written by _release_child is treated as stop by the class's own input loop"""
    _, dw = cls.resolve('do_work')
    ctx.used(rc, dw)
    kind = lc.kind
    # tokens written by _release_child (per region for remote)
    if kind == 'remote':
        regions = {}
        for st in rc.node.body:
            if isinstance(st, ast.If):
                # if self.is_child: ... elif self.is_remote_side: ... else: ...
                todo = [st]
                while todo:
                    cur = todo.pop()
                    t, pos = canon_ast(cur.test)
                    if 'is_remote_side' in norm(t) or '_remote_side' in norm(t):
                        regions['server'], regions['parent'] = (cur.body, cur.orelse) if pos else (cur.orelse, cur.body)
                    # the chain continues in whichever branch is a lone `if` (elif, or the body of an inverted test)
                    for br in (cur.orelse, cur.body):
                        br = [x for x in br if not isinstance(x, ast.Pass)]
                        if len(br) == 1 and isinstance(br[0], ast.If):
                            todo.append(br[0])
        ctx.require('server' in regions, f'{rc.short}: server/parent regions not recognised')
    else:
        regions = {'parent': rc.node.body}
    loop = [n for n in walk_local(dw.node) if isinstance(n, ast.While)]
    ctx.require(loop, f'{dw.short}: input loop not found')
    lp = loop[0]
    # what stops the loop
    stops = set()
    recv_chan = None
    for n in walk_local(lp):
        if isinstance(n, ast.If) and any(isinstance(x, ast.Break) for x in n.body):
            t = norm(n.test)
            if t.endswith('is None'):
                stops.add('None')
        if isinstance(n, ast.Try):
            for h in n.handlers:
                if any(isinstance(x, ast.Break) for x in h.body):
                    for ht in ctx.an.handler_types(h, dw):
                        stops.add(ht)
        if isinstance(n, ast.Call) and last_attr(n) in ('get', 'recv', 'recv_msg'):
            recv_chan = norm(n.args[0]) if last_attr(n) == 'recv_msg' and n.args else receiver(n)
    for region, stmts in regions.items():
        calls = calls_in_stmts(stmts)
        writes = []
        for c in calls:
            if last_attr(c) in ('put', 'send') and c.args and isinstance(c.args[0], ast.Constant) and c.args[0].value is None:
                writes.append(('None', receiver(c)))
            if last_attr(c) == 'send_msg' and len(c.args) >= 2 and isinstance(c.args[1], ast.Constant) and c.args[1].value is None:
                writes.append(('None', norm(c.args[0])))
            if last_attr(c) == 'shutdown' and c.args and 'SHUT_RD' in norm(c.args[0]):
                writes.append(('ConnectionClosedError', receiver(c)))
            if last_attr(c) == 'close' and (receiver(c) or '').endswith('parent_end'):
                writes.append(('queue.Empty', receiver(c)))
        ok = any(tok in stops for tok, ch in writes)
        # channel agreement: writer and reader name the same pipe/socket attribute
        same_chan = any((ch or '').split('.')[1:2] == (recv_chan or '').split('.')[1:2] for tok, ch in writes if tok in stops)
        ctx.check('R2', f'{cls.name}: _release_child[{region}] writes a token that stops {dw.short}', ok and same_chan, rc.short,
                  f'stop-token-mismatch[{region}]:writes=' + ','.join(sorted({t for t, _ in writes})) + ';loop-stops-on=' + ','.join(sorted(stops)),
                  f'_release_child ({region} side) writes {sorted(set(writes))} but the input loop of {dw.short} stops on {sorted(stops)} read from {recv_chan}: '
                  'a blocked child is not released', where=loc(rc, rc.node))


# ------------------------------------------------------------------------------------------------ landings
def strong(lc):
    """recorders that carry a real outcome (not the bare fallback)"""
    out = set()
    for r in lc.recorders:
        if r.how == 'varstore':
            if r.flag is None:
                continue
            if r.flag is False and isinstance(r.payload, ast.Constant) and r.payload.value is None:
                continue
            out.add(r.node.id)
        elif r.how in ('store', 'send') and lc.kind != 'remote':
            if r.flag is False and isinstance(r.payload, ast.Constant) and r.payload.value is None:
                continue
            out.add(r.node.id)
    return out


def check_landings(ctx, cls, lc):
    g = lc.g
    rec = strong(lc)
    ctx.require(rec, f'{cls.name}: no outcome recorder found in {lc.main.short}')
    send_ids = {r.node.id for r in lc.recorders if r.how == 'send'} if lc.kind == 'remote' else set()
    nr = g.reachable([g.entry], edge_ok=flow_no_baseonly, node_ok=lambda n: n.id not in rec)
    edges = lc.landing_edges()
    exits = set(n.id for n in g.exits())
    n_land = 0
    bad = {}
    for e in edges:
        if e.src.id not in nr:
            # an outcome has already been recorded on every fault-free path to this statement
            ctx.ob('R3', f'{cls.name}: landing at {e.src.describe()} [{e.phase}]: outcome already recorded', True)
            n_land += 1
            continue
        n_land += 1
        p = g.find_path([e.dst], lambda n: n.id in exits, edge_ok=after_fault, node_ok=lambda n: n.id not in rec)
        ok = p is None
        if ok and send_ids:
            p2 = g.find_path([e.dst], lambda n: n.id in exits, edge_ok=after_fault, node_ok=lambda n: n.id not in send_ids)
            ok = p2 is None
            p = p2
        inst = f'{cls.name}: landing at {e.src.describe()} [{e.phase}] is reported'
        ctx.ob('R3', inst, ok)
        if not ok:
            label = landing_label(e.src)
            hc = handler_context(e.src)
            key = f'{hc}|land@{label}'
            bad.setdefault(key, []).append((e, p))
    for key, items in bad.items():
        e, p = items[0]
        ctx.finding('R3', lc.main.short, key,
                    f'{cls.name}: a terminate() landing at `{short(e.src.stmt)}` ({e.phase}-effect, {handler_context(e.src)}) ends the child without '
                    'recording the WorkerTerminatedError (nor any earlier outcome): the parent sees no outcome or only the bare (False, None) fallback',
                    where=f'{lc.main.module.relpath}:{e.src.line}', path=[f'async landing [{e.phase}] at {e.src.describe()}'] + path_str(p or []))
        ctx.sample({'rule': 'C03.R3', 'class': cls.name, 'landing': e.src.describe(), 'phase': e.phase, 'outcome_recorded': False})
    ctx.stats.setdefault('landing_edges', {})[cls.name] = n_land
    ctx.stats.setdefault('capable_nodes', {})[cls.name] = len(lc.capable & lc.region)
    ctx.floor(f'{cls.name}: landing edges in the child-main', n_land, 8)

    # nothing in the call closure of the guarded body swallows (or translates) the asynchronous exception
    check_closure_propagates(ctx, cls, lc)
    # no library frame between the child-main and the target swallows the exception
    chain = []
    _, dw = cls.resolve('do_work')
    _, run = cls.resolve('run')
    for f, callee in ((dw, 'run'), (run, '_target')):
        if f is None:
            continue
        gg = ctx.an.cfg(f, cls)
        ctx.used(f)
        call_nodes = [n for n in gg.nodes if n.stmt is not None and n.part in ('eval', 'post') and any(
            last_attr(c) == callee and receiver(c) in ('self', 'super()') for c in n.calls())]
        for n in call_nodes:
            for e in n.succ:
                if e.kind != 'async':
                    continue
                reach = gg.reachable([e.dst], edge_ok=lambda x: x.kind == 'reraise' or is_flow(x))
                swallowed = gg.exit.id in reach
                ctx.check('R3', f'{cls.name}: {f.short} lets an exception landing in {callee}() propagate [{e.phase}]', not swallowed, f.short,
                          f'swallows-async@{callee}', f'{f.short} catches the WorkerTerminatedError raised inside {callee}() and carries on: '
                          'the target is interrupted but the worker neither stops nor reports it', where=loc(f, n.stmt))


def run_thorough(ctx):
    """bytecode tier (DESIGN E4): the AST-level CFG's landing statements and handler routing agree with CPython's exception tables"""
    from ..bytecode import cross_check_all
    st = cross_check_all(ctx)
    ctx.stats['bytecode_tier'] = st
    ctx.ob('E4', f"bytecode tier: {st['landing_instructions']} CALL-type landing instructions of {st['functions_cross_checked']} functions "
                 f"({st['instructions']} instructions) are routed to the same handler as the async edges of the AST tier", True)




def call_closure(ctx, cls, roots, depth=4):
    """in-repo functions reachable from `roots` through resolved calls (self./super()/module functions)"""
    out = []
    seen = set()
    stack = [(f, c, 0) for f, c in roots]
    while stack:
        f, c, d = stack.pop()
        key = (f.qualname, c.qualname if c else None)
        if key in seen:
            continue
        seen.add(key)
        out.append((f, c))
        if d >= depth:
            continue
        for call in calls_in(f.node):
            r = ctx.prog.resolve_call(call, f, c)
            if r and r[0] == 'func' and not r[1].is_property:
                tgt = r[1]
                bound = r[2] if (r[2] is not None and (tgt.cls is None or tgt.cls in r[2].mro())) else tgt.cls
                if tgt.module.name.endswith(('.utils',)) and tgt.name in ('get_logger',):
                    continue
                stack.append((tgt, bound, d + 1))
    return out


def check_closure_propagates(ctx, cls, lc):
    roots = []
    for name in ('_init_child', 'do_work', '_send_result'):
        _, f = cls.resolve(name)
        if f is not None:
            roots.append((f, cls))
    lat = ctx.an.lattice
    n = 0
    for f, c in call_closure(ctx, cls, roots):
        key = (f.qualname, c.qualname if c else None)
        seen = ctx.__dict__.setdefault('_closure_seen', set())
        if key in seen:
            continue
        seen.add(key)
        handlers = [h for t in walk_local(f.node) if isinstance(t, ast.Try) for h in t.handlers]
        if not handlers:
            continue
        g = ctx.an.cfg(f, c)
        for node in g.nodes:
            for e in node.succ:
                if e.kind != 'async' or e.dst.kind != 'handler':
                    continue
                n += 1
                # the handler catches WorkerTerminatedError: it must re-raise it (bare raise) on every path
                h = e.dst
                leaves = g.find_path([h], lambda x: x.kind in ('exit',) or (x.kind == 'raise' and x.label != 'WorkerTerminatedError') or
                                     (x.kind == 'join' and isinstance(x.stmt, (ast.While, ast.For))),
                                     edge_ok=lambda x: x.kind != 'async', node_ok=lambda x: True)
                ok = leaves is None
                ctx.check('R3', f'{f.short}: the handler at line {h.line} does not swallow or translate an asynchronous WorkerTerminatedError landing at line {node.line}', ok,
                          f.short, f'closure-swallows-async:{",".join(h.handler_types or [])}',
                          f'{f.short} runs in the child between start-up and the report of the outcome; its `except {",".join(h.handler_types or [])}` catches a WorkerTerminatedError landing at '
                          f'`{short(node.stmt)}` and does not re-raise it: the request to terminate is swallowed (or turned into another error) inside the library',
                          where=loc(f, h.stmt), path=path_str(leaves or []))
    ctx.stats.setdefault('closure_handler_landings', 0)
    ctx.stats['closure_handler_landings'] += n


def check_poll(ctx):
    """PipeEndpoint.poll(timeout): the timeout is handed to Connection.poll unchanged - in particular None (wait for ever) is not turned into a
    non-blocking poll.  ProcessWorker.terminate waits with it for the child's acknowledgement before it releases the child."""
    PE = ctx.prog.cls('PipeEndpoint')
    f = PE.methods.get('poll')
    ctx.require(f is not None, 'PipeEndpoint.poll not found')
    ctx.used(f)
    g = ctx.an.cfg(f, PE)
    par = f.params[1] if len(f.params) > 1 else None
    bare = [n for n in g.nodes if n.stmt is not None and n.part in ('eval',) and any(last_attr(c) == 'poll' and receiver(c) == 'self._pipe' and not c.args and not c.keywords for c in n.calls())]
    passing = [n for n in g.nodes if n.stmt is not None and n.part in ('eval',) and any(last_attr(c) == 'poll' and receiver(c) == 'self._pipe' and c.args and is_name(c.args[0], par) for c in n.calls())]
    ctx.check('R1', 'PipeEndpoint.poll hands its timeout to Connection.poll', bool(passing), 'PipeEndpoint.poll', 'poll-ignores-timeout', 'PipeEndpoint.poll never passes its timeout on',
              where=loc(f, f.node))
    # the non-blocking form is only reachable when the timeout is the number zero (a test that can never be true counts as unreachable)
    def edge_ok(e):
        if e.kind == 'async':
            return False
        if e.src.kind == 'test' and isinstance(e.src.stmt, ast.If) and e.kind in ('true', 'false'):
            t, pos = canon_ast(e.src.stmt.test)
            holds = (e.kind == 'true') == pos        # on this edge the negation-free comparison `t` is true
            if isinstance(t, ast.Compare) and len(t.ops) == 1 and isinstance(t.ops[0], ast.Eq) and isinstance(t.left, ast.Name):
                r = ctx.prog.resolve_dotted(f.module, t.left.id)
                if r and r[0] in ('ext', 'module') and holds:
                    return False          # a module object never equals a number
                if t.left.id == par and isinstance(t.comparators[0], ast.Constant) and t.comparators[0].value == 0 and holds:
                    return False          # timeout == 0: non-blocking is what was asked for
        return True
    p = g.find_path([g.entry], lambda n: n in bare, edge_ok=edge_ok)
    ctx.check('R1', 'PipeEndpoint.poll polls without a timeout only for timeout == 0', p is None, 'PipeEndpoint.poll', 'poll-drops-infinite-timeout',
              'PipeEndpoint.poll turns a timeout of None (wait for ever) into a non-blocking poll: ProcessWorker.terminate(timeout=None) no longer waits for the child to acknowledge the '
              'request before it releases it, so a persistent child can read the release token first and finish "normally" - terminate() returns True with has_error False',
              where=loc(f, f.node), path=path_str(p or []))
