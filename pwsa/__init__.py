"""pwsa - pyworkers static analysis.

Pure standard library.  Everything here works on the *source text* of the
repository under analysis (parsed with ``ast``); nothing is imported from it
and nothing of it is executed.
"""
