"""Frame conditions: who may write the protocol state of the worker classes.

The table was derived from the tree (every assignment to `self.<attr>` in the Worker hierarchy) and confirmed by reading:
each attribute below is part of the protocol that makes one of the properties hold, and is written only by the listed
functions.  A new writer is reported under the property that owns the attribute (most seeded property-breaking changes
*add* code rather than delete a guard).  Attributes that are plain data (names, ids of the parent, options) are not listed.
"""
import ast

from .astutil import walk_local, is_self_attr, norm, loc

FRAME = {
    # attr: (owning property, allowed writer function names, what goes wrong)
    '_ident': ('C03', {'__init__', '_start', '_run', '_run_frontend', '__setstate__', '_run_backend'}, 'the interpreter thread id the terminate request is injected into'),
    '_terminate_req': ('C03', {'_run', '_ctrl_fn'}, 'whether the control thread has been asked to terminate (decides if the child joins it)'),
    '_ctrl_thread': ('C03', {'_run'}, 'the injector thread of a process child'),
    '_ctrl_thread_loc': ('C03', {'_run_backend'}, 'the injector thread of a remote backend'),
    '_ctrl_thread_rem': ('C03', {'__setstate__'}, 'the server-side control thread of a remote worker'),
    '_ctrl_comms': ('C03', {'__init__', '__setstate__'}, 'the control pipe the terminate request travels on'),
    '_child': ('C04', {'_start', '_run', '__setstate__'}, 'the thread / process object whose liveness wait/terminate/is_alive report'),
    '_remote_dead': ('C04', {'__init__', 'is_alive', 'wait', 'terminate'}, 'the cache "the remote side is gone" that guards every use of the control socket'),
    '_started': ('C04', {'__init__'}, 'whether a child was ever created'),
    '_comms': ('C01', {'__init__', '__setstate__'}, 'the pipe the outcome travels on'),
    '_is_child': ('C01', {'__init__', '_run'}, 'which side of the pipe this object is on'),
    '_is_backend': ('C01', {'__init__', '__setstate__', '_run_backend'}, 'which side of the connection this object is on'),
    '_remote_side': ('C01', {'__init__', '__setstate__'}, 'which side of the connection this object is on'),
    '_args_pipe': ('C05', {'__init__'}, 'the input channel of a persistent worker'),
    '_results_pipe': ('C06', {'__init__'}, 'the result stream of a persistent worker'),
    '_cleaned_up': ('C06', {'__init__', '_cleanup'}, 'the exactly-once guard of the end-of-stream marker'),
    '_startup_sync': ('C20', {'__init__', '__setstate__'}, 'the event the constructor waits on'),
    '_startup_error': ('C20', {'__init__', '_run_frontend'}, 'the failure the constructor re-raises'),
    '_tid': ('C20', {'__init__', '_start', '_run', '_run_frontend', '__setstate__', '_run_backend'}, 'the id of the child that was really started'),
    '_pid': ('C20', {'__init__', '_start', '_run', '_run_frontend', '__setstate__', '_run_backend'}, 'the id of the child that was really started'),
}


def check_frame_attrs(ctx, prop, rule):
    """report writers of the protocol attributes owned by `prop` that are not in the table"""
    P = ctx.prog
    W = P.cls('Worker')
    mine = {a: v for a, v in FRAME.items() if v[0] == prop}
    n = 0
    for f in P.funcs.values():
        c = f.cls
        if c is None or W not in c.mro():
            continue
        for st in walk_local(f.node):
            targets = []
            if isinstance(st, ast.Assign):
                for t in st.targets:
                    targets += t.elts if isinstance(t, ast.Tuple) else [t]
            elif isinstance(st, (ast.AugAssign, ast.AnnAssign)):
                targets = [st.target]
            elif isinstance(st, ast.Delete):
                targets = list(st.targets)
            for t in targets:
                if is_self_attr(t) and t.attr in mine:
                    n += 1
                    _, allowed, what = mine[t.attr]
                    ok = f.name in allowed
                    ctx.check(rule, f'{f.short}: write of self.{t.attr} is made by one of {sorted(allowed)}', ok, f.short, f'unexpected-writer:{t.attr}@{f.name}',
                              f'{f.short} writes self.{t.attr} (`{norm(st)[:80]}`) - {what}; only {sorted(allowed)} may write it', where=loc(f, st))
    ctx.floor(f'writes of the protocol attributes of {prop}', n, len(mine))
    return n


def check_dead_flag_lowering(ctx, rule):
    """The base constructor raises the dead flag and says who lowers it: "set to False by the derived class, after a child is actually created".
    Every store `self._dead = False` of the hierarchy is therefore dominated, on the control-flow graph of its function, by the call that starts
    the child held in self._child.  A flag lowered earlier survives a start-up step that raises (a refused connection, a failing spawn): the
    object - which restart() re-initialises in place and therefore outlives the failure - claims to be alive without having a child, and every
    later is_alive() / wait() / terminate() / restart() on it fails with AttributeError instead of seeing a dead worker."""
    P = ctx.prog
    W = P.cls('Worker')
    n_sites = 0
    for f in P.funcs.values():
        c = f.cls
        if c is None or W not in c.mro():
            continue
        stores = [st for st in walk_local(f.node) if isinstance(st, ast.Assign) and any(is_self_attr(t, '_dead') for t in st.targets)
                  and isinstance(st.value, ast.Constant) and st.value.value is False]
        if not stores:
            continue
        ctx.used(f)
        g = ctx.an.cfg(f, c)
        dom = g.dominators()
        started = {n.id for n in g.nodes if n.stmt is not None and not isinstance(n.stmt, (ast.FunctionDef, ast.ClassDef))
                   if any(isinstance(x, ast.Call) and isinstance(x.func, ast.Attribute) and x.func.attr == 'start' and is_self_attr(x.func.value, '_child') for x in n.calls())}
        for st in stores:
            n_sites += 1
            nodes = [n for n in g.nodes if n.stmt is st and n.part in (None, 'store')] or [n for n in g.nodes if n.stmt is st]
            ok = bool(nodes) and all(dom.get(n.id, set()) & started for n in nodes)
            ctx.check(rule, f'{f.short}: the dead flag is lowered only after the child has been started', ok, f.short, f'dead-flag-lowered-before-the-child-exists:{f.name}',
                      f'{f.short} sets self._dead = False at a point that is not behind self._child.start(): if a step in between raises, the object claims to be alive '
                      'without having a child - after a failed restart() every later is_alive / wait / terminate / restart raises AttributeError', where=loc(f, st))
    ctx.floor('stores that lower the dead flag', n_sites, 4)
    return n_sites


def check_child_thread_not_daemon(ctx, rule):
    """The thread that does the work of a thread worker (and the forwarding thread of a remote worker) is held in self._child and is not a daemon:
    the interpreter joins non-daemon threads when the main thread ends, which is what lets a program that enqueued work and closed the worker - but
    did not wait - still have every accepted input carried out.  A daemon child is abandoned at exit and its queued inputs are dropped silently.
    Rule: where self._child is bound to threading.Thread(...), a `daemon` argument is absent, False / None, or a value into which no True constant
    flows inside the package - no `daemon=True`, `setdefault('daemon', True)`, `kwargs['daemon'] = True` in the worker hierarchy - and nothing sets
    `self._child.daemon` / calls setDaemon on it."""
    P = ctx.prog
    W = P.cls('Worker')
    sites = 0
    forwarded = False
    for f in P.funcs.values():
        c = f.cls
        if c is None or W not in c.mro():
            continue
        for st in walk_local(f.node):
            if isinstance(st, ast.Assign) and any(is_self_attr(t, '_child') for t in st.targets) and isinstance(st.value, ast.Call) and norm(st.value.func).endswith('Thread'):
                sites += 1
                ctx.used(f)
                kw = next((k.value for k in st.value.keywords if k.arg == 'daemon'), None)
                if kw is None or (isinstance(kw, ast.Constant) and kw.value in (False, None)):
                    ctx.ob(rule, f'{f.short}: the child thread is created non-daemon', True)
                elif isinstance(kw, ast.Constant):
                    ctx.check(rule, f'{f.short}: the child thread is created non-daemon', False, f.short, 'child-thread-daemon:literal',
                              f'`{norm(st)[:90]}` makes the worker\'s thread a daemon: a program that ends without wait() loses the inputs it enqueued', where=loc(f, st))
                else:
                    forwarded = True
                    ctx.ob(rule, f'{f.short}: the daemon flag of the child thread is a forwarded option ({norm(kw)})', True)
            if isinstance(st, ast.Assign) and any(isinstance(t, ast.Attribute) and t.attr == 'daemon' and is_self_attr(t.value, '_child') for t in st.targets) \
                    and not (isinstance(st.value, ast.Constant) and st.value.value in (False, None)):
                ctx.check(rule, f'{f.short}: the child thread stays non-daemon', False, f.short, 'child-thread-daemon:attribute',
                          f'`{norm(st)[:90]}` makes the worker\'s thread a daemon', where=loc(f, st))
    if forwarded:
        # the option may be forwarded; no constant True may flow into it from inside the hierarchy
        for f in P.funcs.values():
            c = f.cls
            if c is None or W not in c.mro():
                continue
            for n in walk_local(f.node):
                bad = None
                if isinstance(n, ast.Call):
                    if last_attr_(n) == 'setdefault' and len(n.args) == 2 and isinstance(n.args[0], ast.Constant) and n.args[0].value == 'daemon' \
                            and isinstance(n.args[1], ast.Constant) and n.args[1].value is True:
                        bad = n
                    if any(k.arg == 'daemon' and isinstance(k.value, ast.Constant) and k.value.value is True for k in n.keywords) and not norm(n.func).endswith('Thread'):
                        bad = n
                    if last_attr_(n) == 'update' and n.args and isinstance(n.args[0], ast.Dict) and any(
                            isinstance(k, ast.Constant) and k.value == 'daemon' and isinstance(v, ast.Constant) and v.value is True for k, v in zip(n.args[0].keys, n.args[0].values)):
                        bad = n
                if isinstance(n, ast.Assign) and any(isinstance(t, ast.Subscript) and isinstance(t.slice, ast.Constant) and t.slice.value == 'daemon' for t in n.targets) \
                        and isinstance(n.value, ast.Constant) and n.value.value is True:
                    bad = n
                if isinstance(n, ast.arguments):
                    for a, d in list(zip(reversed(n.args), reversed(n.defaults))) + [(a, d) for a, d in zip(n.kwonlyargs, n.kw_defaults) if d is not None]:
                        if a.arg == 'daemon' and isinstance(d, ast.Constant) and d.value is True:
                            bad = d
                if bad is not None:
                    ctx.check(rule, f'{f.short}: no True default flows into the daemon option of the child thread', False, f.short, 'child-thread-daemon:default',
                              f'`{norm(bad)[:90]}` in {f.short} makes the worker\'s thread a daemon by default: the interpreter no longer waits for it at exit, so a program '
                              'that enqueues work, closes the worker and ends without wait() silently loses the inputs still queued', where=loc(f, bad))
    ctx.floor('creation sites of the child thread', sites, 2)


def last_attr_(call):
    return call.func.attr if isinstance(call.func, ast.Attribute) else (call.func.id if isinstance(call.func, ast.Name) else None)


def check_spawn_context(ctx, rule):
    """Every child process of the worker hierarchy is created through multiprocessing.get_context('spawn') - the literal.  A forked child inherits a
    copy of everything the library keeps per process: the registry of active children (workers it does not own, whose is_alive() asserts in a foreign
    process), the registry lock in whatever state another thread left it at the moment of the fork (a nested worker then blocks for ever in
    register_child), open pipe ends and sockets.  The process kinds are written for a fresh interpreter."""
    P = ctx.prog
    W = P.cls('Worker')
    n = 0
    for f in P.funcs.values():
        c = f.cls
        if c is None or W not in c.mro():
            continue
        for call in [x for x in ast.walk(f.node) if isinstance(x, ast.Call)]:
            fn = call.func
            if not (isinstance(fn, ast.Attribute) and fn.attr == 'Process'):
                continue
            n += 1
            ctx.used(f)
            src = fn.value
            ok = isinstance(src, ast.Call) and isinstance(src.func, ast.Attribute) and src.func.attr == 'get_context' and len(src.args) == 1 \
                and isinstance(src.args[0], ast.Constant) and src.args[0].value == 'spawn'
            ctx.check(rule, f'{f.short}: the child process is created with the spawn start method', ok, f.short, f'start-method-not-spawn:{norm(src)[:50]}',
                      f'`{norm(call.func)}` in {f.short} does not use get_context(\'spawn\'): with another start method (fork is the default on Linux) the child inherits the '
                      'parent\'s registry of active children - active_children() in the child then reports and polls workers it did not create - and the registry lock in the '
                      'state it had at the fork, so a nested worker can block for ever in register_child', where=loc(f, call))
    ctx.floor('child process creation sites', n, 2)
