"""E5/E6 (small) - value-shape dataflow on a CFG.

Shapes of the values that can be stored in the outcome slot:
    none   the initial None
    pair   (bool, x)
    msg    ((bool, x), state)    - a message of the process result pipe (main phase)
    wire   a message read from the data socket (its shape is decided on the sender side)
    other  anything else
"""
import ast

from .astutil import dotted, calls_in, last_attr, receiver, norm, is_name, is_self_attr, walk_local

NONE, PAIR, MSG, WIRE, OTHER = 'none', 'pair', 'msg', 'wire', 'other'
SENT = 'sentinel'      # a module-level `X = object()` marker: never stored in an outcome slot once a test has excluded it


def key_of(expr):
    if isinstance(expr, ast.Name):
        return expr.id
    if is_self_attr(expr):
        return 'self.' + expr.attr
    return None


class ShapeFlow:
    def __init__(self, ctx, g, cls, kind, outcome_channel=None, init=None):
        self.ctx = ctx
        self.g = g
        self.cls = cls
        self.kind = kind
        self.chan = outcome_channel
        self.init = init or {}
        self.state = {}

    # ---------------------------------------------------------------- expression shapes
    def shape(self, expr, env, depth=0):
        if expr is None:
            return {NONE}
        if isinstance(expr, ast.Constant):
            return {NONE} if expr.value is None else {OTHER}
        if isinstance(expr, ast.Tuple):
            if len(expr.elts) == 2 and isinstance(expr.elts[0], ast.Constant) and isinstance(expr.elts[0].value, bool):
                return {PAIR}
            if len(expr.elts) == 2 and isinstance(expr.elts[0], ast.Tuple) and self.shape(expr.elts[0], env) == {PAIR}:
                return {MSG}
            if len(expr.elts) == 2:
                inner = self.shape(expr.elts[0], env)
                if inner == {PAIR}:
                    return {MSG}
            return {OTHER}
        k = key_of(expr)
        if k is not None:
            if k in env:
                return set(env[k])
            if isinstance(expr, ast.Name) and expr.id in self._sentinels():
                return {SENT}
            if k.startswith('self.') and depth < 2:
                return self.attr_shapes(k[5:], depth)
            return {OTHER}
        if isinstance(expr, ast.Call):
            name = last_attr(expr)
            recv = receiver(expr) or ''
            if name in ('get', 'recv', 'get_nowait') and self.chan and recv.startswith(f'self.{self.chan}.'):
                return {MSG}
            if name == 'recv_msg':
                return {WIRE}
            r = self.ctx.prog.resolve_call(expr, self.g.func, self.cls)
            if r and r[0] == 'func' and depth < 3:
                out = set()
                for n in walk_local(r[1].node):
                    if isinstance(n, ast.Return):
                        out |= self.shape(n.value, {}, depth + 1)
                return out or {NONE}
            return {OTHER}
        if isinstance(expr, ast.Subscript) and isinstance(expr.slice, ast.Constant) and expr.slice.value == 0:
            base = self.shape(expr.value, env)
            if base == {MSG}:
                return {PAIR}
        return {OTHER}

    def _sentinels(self):
        cache = self.__dict__.get('_sent_cache')
        if cache is None:
            cache = set()
            mod = getattr(self.g.func, 'module', None)
            tree = getattr(mod, 'tree', None)
            for st in (tree.body if tree is not None else []):
                if isinstance(st, ast.Assign) and len(st.targets) == 1 and isinstance(st.targets[0], ast.Name) and isinstance(st.value, ast.Call) \
                        and isinstance(st.value.func, ast.Name) and st.value.func.id == 'object' and not st.value.args:
                    cache.add(st.targets[0].id)
            self.__dict__['_sent_cache'] = cache
        return cache

    def attr_shapes(self, attr, depth=0):
        """shapes of every value assigned to self.<attr> anywhere in the class hierarchy (flow-insensitive)"""
        cache = self.__dict__.setdefault('_attr_shapes', {})
        if attr in cache:
            return set(cache[attr])
        cache[attr] = {OTHER}
        out = set()
        found = False
        for c in (self.cls.mro() if self.cls is not None else []):
            if isinstance(c, str):
                continue
            for f in c.methods.values():
                for st in walk_local(f.node):
                    if isinstance(st, ast.Assign) and len(st.targets) == 1 and is_self_attr(st.targets[0], attr):
                        found = True
                        v = st.value
                        if isinstance(v, ast.Name):
                            # a local (e.g. the result variable of an inlined helper): the shapes of everything assigned to it in that function
                            def local_shapes(name, seen):
                                res = set()
                                ds = [x.value for x in walk_local(f.node) if isinstance(x, ast.Assign) and len(x.targets) == 1 and isinstance(x.targets[0], ast.Name)
                                      and x.targets[0].id == name]
                                if not ds:
                                    return None
                                for d in ds:
                                    if isinstance(d, ast.Name) and d.id not in self._sentinels():
                                        sub = local_shapes(d.id, seen | {name}) if d.id not in seen else None
                                        res |= sub if sub is not None else {OTHER}
                                    else:
                                        res |= self.shape(d, {}, depth + 1)
                                return res
                            shp = local_shapes(v.id, set())
                            if shp is not None:
                                # a store that sits under `if <that local> is not <sentinel>` never stores the sentinel
                                from .astutil import parent_map, guards_of, conjuncts
                                pm = parent_map(f.node)
                                facts = set()
                                for gst, truth in guards_of(pm, st, f.node):
                                    facts |= set(conjuncts(gst.test, truth))
                                if any(txt.startswith(f'{v.id} is ') and txt.split(' is ')[1] in self._sentinels() and truth is False for txt, truth in facts):
                                    shp = shp - {SENT}
                                out |= shp
                                continue
                        out |= self.shape(v, {}, depth + 1)
        res = out if found else {OTHER}
        cache[attr] = res
        return set(res)

    # ---------------------------------------------------------------- transfer
    def transfer(self, node, env):
        st = node.stmt
        if node.kind != 'stmt' or node.part not in (None, 'store') or st is None:
            return env
        if isinstance(st, ast.Assign) and len(st.targets) == 1:
            t = st.targets[0]
            k = key_of(t)
            if k is not None:
                env = dict(env)
                env[k] = frozenset(self.shape(st.value, env))
                return env
            if isinstance(t, ast.Tuple) and len(t.elts) == 2:
                src = self.shape(st.value, env)
                k0, k1 = key_of(t.elts[0]), key_of(t.elts[1])
                env = dict(env)
                if k0 is not None:
                    out = set()
                    for s in src:
                        out.add(PAIR if s == MSG else (WIRE if s == WIRE else OTHER))
                    env[k0] = frozenset(out)
                if k1 is not None:
                    env[k1] = frozenset({OTHER})
                return env
            if isinstance(t, ast.Tuple):
                env = dict(env)
                for e in t.elts:
                    k = key_of(e)
                    if k is not None:
                        env[k] = frozenset({OTHER})
                return env
        return env

    def refine(self, edge, env):
        src = edge.src
        if src.kind != 'test' or edge.kind not in ('true', 'false') or not isinstance(src.stmt, (ast.If, ast.While)):
            return env
        t = src.stmt.test
        neg = False
        if isinstance(t, ast.UnaryOp) and isinstance(t.op, ast.Not):
            t, neg = t.operand, True
        if isinstance(t, ast.Compare) and len(t.ops) == 1 and isinstance(t.comparators[0], ast.Constant) and t.comparators[0].value is None:
            k = key_of(t.left)
            if k is None or k not in env:
                return env
            is_none = isinstance(t.ops[0], ast.Is)
            if not isinstance(t.ops[0], (ast.Is, ast.IsNot)):
                return env
            want_none = (edge.kind == 'true') == (is_none != neg)
            env = dict(env)
            env[k] = frozenset({NONE}) & env[k] if want_none else env[k] - {NONE}
            if not env[k]:
                return None       # infeasible edge
        # `x is <sentinel>` / `x is not <sentinel>`: the same refinement for a module-level marker object
        if isinstance(t, ast.Compare) and len(t.ops) == 1 and isinstance(t.ops[0], (ast.Is, ast.IsNot)) and isinstance(t.comparators[0], ast.Name) \
                and t.comparators[0].id in self._sentinels():
            k = key_of(t.left)
            if k is None or k not in env:
                return env
            want = (edge.kind == 'true') == (isinstance(t.ops[0], ast.Is) != neg)
            env = dict(env)
            env[k] = frozenset({SENT}) & env[k] if want else env[k] - {SENT}
            if not env[k]:
                return None
        return env

    # ---------------------------------------------------------------- solve
    def solve(self, starts, edge_ok=None):
        g = self.g
        work = []
        for s in starts:
            self.state[s.id] = dict(self.init)
            work.append(s)
        while work:
            n = work.pop()
            env = self.transfer(n, self.state[n.id])
            for e in n.succ:
                if edge_ok is not None and not edge_ok(e):
                    continue
                # exceptional edges leave before the statement's stores: use the incoming env
                out = self.state[n.id] if e.kind in ('exc', 'async') else env
                out = self.refine(e, out)
                if out is None:
                    continue
                old = self.state.get(e.dst.id)
                if old is None:
                    self.state[e.dst.id] = dict(out)
                    work.append(e.dst)
                else:
                    changed = False
                    for k, v in out.items():
                        nv = frozenset(old.get(k, frozenset())) | frozenset(v)
                        if nv != old.get(k):
                            old[k] = nv
                            changed = True
                    if changed:
                        work.append(e.dst)
        return self.state

    def at(self, node, key):
        env = self.state.get(node.id)
        if env is None:
            return None
        return set(env.get(key, {OTHER}))
