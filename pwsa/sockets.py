"""Socket rules shared by C01, C02, C06 and C12.

check_blocking_sockets - the data and control sockets of the remote kinds are blocking sockets.  Messages are delimited
  by the peer, not by time: `_recv_exact` maps every OSError of recv() - TimeoutError is an OSError - to
  ConnectionClosedError, which the frontends turn into "the child is gone" ((False, None), end of stream).  A timeout
  installed on one of these sockets (settimeout / setdefaulttimeout / setblocking(False) / create_connection(timeout=))
  therefore makes every silence longer than the timeout - a target that runs longer, an idle persistent worker -
  indistinguishable from the death of the peer: the result is lost although the child delivers it later.

check_child_death_eof - when the server's control thread learns from the child's sentinel that the child is gone it must
  *shut down* the write side of the data socket (helpers followed).  close() alone only sends the FIN when it closes the
  last descriptor of the connection; for a worker created in a context the accept loop still holds its own copy of the
  client socket, so without shutdown(SHUT_WR/SHUT_RDWR) the parent's frontend blocks in recv() for ever: no outcome, no
  end of the result stream.
"""
import ast

from .astutil import calls_in, dotted, last_attr, loc, norm, receiver, walk_local

REMOTE_MODULES = ('remote', 'persistent_remote', 'remote_context', 'remote_server')


def check_blocking_sockets(ctx, rule):
    n_create = 0
    for mod in ctx.prog.modules.values():
        if mod.name.split('.')[-1] not in REMOTE_MODULES:
            continue
        for f in ctx.prog.funcs.values():
            if f.module is not mod:
                continue
            for c in calls_in(f.node):
                if any(any(y is c for y in ast.walk(nf.node)) for nf in f.nested.values()):
                    continue
                d = dotted(c.func) or ''
                m = last_attr(c)
                if d in ('socket.socket',) or m == 'accept':
                    n_create += 1
                bad = None
                if m == 'settimeout' and not (c.args and isinstance(c.args[0], ast.Constant) and c.args[0].value is None):
                    bad = 'settimeout'
                elif m == 'setdefaulttimeout' and not (c.args and isinstance(c.args[0], ast.Constant) and c.args[0].value is None):
                    bad = 'setdefaulttimeout'
                elif m == 'setblocking' and not (c.args and isinstance(c.args[0], ast.Constant) and c.args[0].value is True):
                    bad = 'setblocking'
                elif m == 'create_connection':
                    n_create += 1
                    t = c.args[1] if len(c.args) > 1 else next((k.value for k in c.keywords if k.arg == 'timeout'), None)
                    if t is not None and not (isinstance(t, ast.Constant) and t.value is None):
                        bad = 'create_connection(timeout)'
                if bad == 'settimeout' and f.cls is not None:
                    # a timeout that only bounds one step (a connect) is fine if every way on from it passes `<same socket>.settimeout(None)`; the step
                    # failing under the timeout raises, and the socket is then not used for the protocol at all
                    g = ctx.an.cfg(f, f.cls)
                    recv_txt = receiver(c)
                    start = [n for n in g.nodes if n.stmt is not None and n.part == 'post' and any(x is c for x in n.calls())]
                    reset = {n.id for n in g.nodes if n.stmt is not None and n.part == 'post' and any(
                        last_attr(x) == 'settimeout' and receiver(x) == recv_txt and x.args and isinstance(x.args[0], ast.Constant) and x.args[0].value is None for x in n.calls())}
                    from .cfg import is_flow
                    leak = g.find_path(start, lambda n: n is g.exit or n.kind == 'return', edge_ok=lambda e: is_flow(e) and e.kind not in ('exc', 'reraise'),
                                       node_ok=lambda n: n.id not in reset) if start else True
                    if start and reset and leak is None:
                        bad = None
                if bad:
                    ctx.check(rule, f'{f.short}: no timeout is installed on a worker socket', False, f.short, f'socket-timeout:{bad}',
                              f'`{norm(c)}` in {f.short} leaves a timeout on a socket of the remote protocol: _recv_exact turns the TimeoutError of a quiet connection into '
                              'ConnectionClosedError, so a target that runs (or a persistent worker that idles) longer than the timeout is reported as dead - has_error True, '
                              'result None, stream ended - while the child is still working and delivers later', where=loc(f, c))
    ctx.ob(rule, f'sockets of the remote protocol are blocking: {n_create} creation sites, no timeout installed anywhere in {", ".join(REMOTE_MODULES)}', True)
    ctx.floor('socket creation sites of the remote protocol', n_create, 5)


def _calls_following_helpers(ctx, cls, func, stmts, depth=0):
    out = []
    for st in stmts:
        for c in calls_in(st):
            out.append(c)
            if receiver(c) in ('self', 'super()') and depth < 2:
                r = ctx.prog.resolve_call(c, func, cls)
                if r and r[0] == 'func':
                    out += _calls_following_helpers(ctx, cls, r[1], r[1].node.body, depth + 1)
    return out


def check_child_death_eof(ctx, rule):
    RW = ctx.prog.cls('RemoteWorker')
    cr = RW.methods.get('_ctrl_fn_remote')
    ctx.require(cr is not None, 'RemoteWorker._ctrl_fn_remote not found')
    ctx.used(cr)
    from .astutil import split_if
    branches = []
    for st in walk_local(cr.node):
        if isinstance(st, ast.If):
            sp = split_if(st, lambda t: isinstance(t, ast.Compare) and len(t.ops) == 1 and isinstance(t.ops[0], ast.In) and norm(t.left).endswith('.sentinel'))
            if sp:
                branches.append((st, sp[0]))
    ctx.require(branches, '_ctrl_fn_remote: the branch taken when the child\'s sentinel is ready was not found')
    st, body = branches[0]
    calls = _calls_following_helpers(ctx, RW, cr, body)
    shut = [c for c in calls if last_attr(c) == 'shutdown' and receiver(c) == 'self._socket' and c.args and norm(c.args[0]).endswith(('SHUT_WR', 'SHUT_RDWR'))]
    ctx.check(rule, 'remote control thread: when the child process dies the write side of the data socket is shut down (EOF reaches the parent whoever else holds the socket)',
              bool(shut), 'RemoteWorker._ctrl_fn_remote', 'child-death-without-shutdown',
              'when the backend dies without reporting (SIGKILL, crash) the server only close()s its descriptor of the data socket: for a worker created in a context the accept '
              'loop still holds a copy of the client socket, no FIN is sent, and the parent\'s frontend blocks in recv() for ever - no outcome, the result stream never ends',
              where=loc(cr, st))


def check_forced_kill_eof(ctx, rule):
    """sibling of check_child_death_eof: the other place where the server releases the data connection of a dead child - the
    forced-kill branch of the server-side terminate() - shuts the write side down too, after the fabricated outcome was sent"""
    from .rules.c03 import split_regions
    RW = ctx.prog.cls('RemoteWorker')
    term = RW.methods.get('terminate')
    ctx.require(term is not None, 'RemoteWorker.terminate not found')
    ctx.used(term)
    reg = split_regions(term)
    ctx.require(reg is not None, 'RemoteWorker.terminate: server/parent regions not recognised')
    # the innermost statement list of the server region that contains the kill of the backend process
    blocks = []
    for st in reg['server']:
        for n in ast.walk(st):
            for field in ('body', 'orelse', 'finalbody'):
                lst = getattr(n, field, None)
                if isinstance(lst, list) and any(isinstance(x, ast.Expr) and isinstance(x.value, ast.Call) and last_attr(x.value) in ('terminate', 'kill') and receiver(x.value) == 'self._child' for x in lst):
                    blocks.append(lst)
    ctx.require(blocks, 'RemoteWorker.terminate[server]: the forced kill of the backend was not found')
    calls = _calls_following_helpers(ctx, RW, term, blocks[0])
    idx_send = [i for i, c in enumerate(calls) if last_attr(c) == 'send_msg' and len(c.args) >= 2 and norm(c.args[1]) == '(False, None)']
    idx_shut = [i for i, c in enumerate(calls) if last_attr(c) == 'shutdown' and receiver(c) == 'self._socket' and c.args and norm(c.args[0]).endswith(('SHUT_WR', 'SHUT_RDWR'))]
    ok = bool(idx_shut) and (not idx_send or idx_send[0] < idx_shut[0])
    ctx.check(rule, 'server-side terminate(): after a forced kill the write side of the data socket is shut down (after the fabricated outcome), as in the child-death branch of the control thread',
              ok, 'RemoteWorker.terminate', 'forced-kill-without-shutdown',
              'after force-killing the backend the server only close()s its descriptor of the data socket: for a worker created in a context the accept loop still holds a copy, no EOF '
              'reaches the parent, its frontend thread waits for ever for the rest of the report and the parent\'s terminate(force=True) ends by sending SIGTERM to its own process',
              where=loc(term, blocks[0][0]))

