"""E4 bytecode tier (thorough): cross-check of the AST-level CFG against what CPython's compiler emits.

The function's module is compiled (never executed).  For every instruction at which CPython 3.12 checks
the eval breaker after running foreign code (CALL*, CALL_FUNCTION_EX; plus JUMP_BACKWARD) we look up the
exception-table entry that covers it and resolve the handler it transfers to (skipping the compiler's own
`as e` / POP_EXCEPT clean-up blocks).  The result - "a landing on line L is handled by the construct on
line H, or leaves the function" - must agree with the async edges of the AST tier.  A disagreement means
the checker's CFG is wrong for that function: the run is analysis-broken, not a verdict.
"""
import dis

from .astutil import AnalysisError

LANDING_OPS = {'CALL', 'CALL_FUNCTION_EX', 'CALL_KW'}
CLEANUP_OPS = {'LOAD_CONST', 'STORE_FAST', 'DELETE_FAST', 'COPY', 'POP_EXCEPT', 'RERAISE', 'SWAP', 'POP_TOP', 'NOP', 'STORE_NAME', 'DELETE_NAME', 'STORE_DEREF', 'DELETE_DEREF'}


def find_code(module_code, qualname, firstline):
    stack = [module_code]
    best = None
    while stack:
        co = stack.pop()
        for c in co.co_consts:
            if hasattr(c, 'co_code'):
                if c.co_qualname.replace('.<locals>', '') == qualname or c.co_qualname == qualname:
                    if best is None or abs(c.co_firstlineno - firstline) < abs(best.co_firstlineno - firstline):
                        best = c
                stack.append(c)
    return best


def code_of(func):
    mod = func.module
    _module_code = mod.__dict__.setdefault('_code_cache', {})
    if mod.name not in _module_code:
        _module_code[mod.name] = compile(mod.src, mod.relpath, 'exec', dont_inherit=True)
    # qualname inside the module
    parts = []
    f = func
    while f is not None:
        parts.append(f.name)
        if f.cls is not None:
            c = f.cls
            while c is not None:
                parts.append(c.name)
                c = c.outer
            break
        f = f.parent
    qual = '.'.join(reversed(parts))
    first = min([func.node.lineno] + [d.lineno for d in func.node.decorator_list])
    co = find_code(_module_code[mod.name], qual, first)
    if co is None or abs(co.co_firstlineno - first) > 2:
        return None
    return co


def landing_map(co, lattice, resolve_name, exc='WorkerTerminatedError', skip_lines=frozenset()):
    """{line: set(handler line | 'exit')} for CALL-type landing instructions; plus instruction counts.
    Handler dispatch (LOAD_GLOBAL <class>; CHECK_EXC_MATCH; POP_JUMP_IF_FALSE) is resolved for `exc` with the class lattice."""
    instrs = list(dis.get_instructions(co))
    by_off = {i.offset: k for k, i in enumerate(instrs)}
    table = dis._parse_exception_table(co)

    def covering(off):
        for e in table:
            if e.start <= off < e.end:
                return e
        return None

    def resolve(target, depth=0):
        if depth > 24:
            return 'exit'
        k = by_off[target]
        j = k
        if instrs[j].opname == 'PUSH_EXC_INFO':
            j += 1
        # handler dispatch?
        names = []
        m = j
        while m < len(instrs) and instrs[m].opname in ('LOAD_GLOBAL', 'LOAD_NAME', 'LOAD_ATTR', 'LOAD_DEREF', 'BUILD_TUPLE', 'LOAD_FAST'):
            ins = instrs[m]
            if ins.opname in ('LOAD_GLOBAL', 'LOAD_NAME', 'LOAD_DEREF', 'LOAD_FAST'):
                names.append(ins.argval if isinstance(ins.argval, str) else str(ins.argval))
            elif ins.opname == 'LOAD_ATTR' and names:
                names[-1] += '.' + str(ins.argval)
            m += 1
        if names and m + 1 < len(instrs) and instrs[m].opname == 'CHECK_EXC_MATCH' and instrs[m + 1].opname.startswith('POP_JUMP_IF_FALSE'):
            classes = [resolve_name(n) for n in names]
            if any(lattice.match(exc, c) == 'yes' for c in classes):
                return instrs[j].positions.lineno if instrs[j].positions and instrs[j].positions.lineno else 'exit'
            return resolve(instrs[m + 1].argval, depth + 1)
        # pure clean-up block of the compiler (`as e` clean-up, POP_EXCEPT; RERAISE): follow the re-raise outwards
        block = []
        q = j
        while q < len(instrs):
            block.append(instrs[q])
            if instrs[q].opname == 'RERAISE' or instrs[q].opname not in CLEANUP_OPS:
                break
            q += 1
        if block and block[-1].opname == 'RERAISE' and all(b.opname in CLEANUP_OPS for b in block):
            e = covering(block[-1].offset)
            if e is None:
                return 'exit'
            return resolve(e.target, depth + 1)
        for b in instrs[j:]:
            if b.positions is not None and b.positions.lineno is not None:
                return b.positions.lineno
        return 'exit'
    out = {}
    n_land = 0
    assert_fail = set()
    for k, ins in enumerate(instrs):
        if ins.opname == 'LOAD_ASSERTION_ERROR':
            # the construction of AssertionError(msg) on the failure path of an assert (asserts are beliefs, not raisers)
            m = k + 1
            while m < len(instrs) and instrs[m].opname != 'RAISE_VARARGS':
                assert_fail.add(instrs[m].offset)
                m += 1
    for ins in instrs:
        if ins.opname not in LANDING_OPS or ins.offset in assert_fail:
            continue
        line = ins.positions.lineno if ins.positions else None
        if line is None or line in skip_lines:
            continue
        n_land += 1
        e = covering(ins.offset)
        out.setdefault(line, set()).add(resolve(e.target) if e is not None else 'exit')
    return out, len(instrs), n_land


def pruned_lines(func):
    """lines of branches pruned by the platform assumption (is_windows() is False) or by constant tests"""
    import ast
    from .cfg import _const_truth
    from .astutil import walk_local
    out = set()
    for n in walk_local(func.node):
        if isinstance(n, (ast.If, ast.While)):
            tv = _const_truth(n.test)
            dead = n.body if tv is False else (n.orelse if tv is True else [])
            for st in dead:
                for x in ast.walk(st):
                    if hasattr(x, 'lineno'):
                        out.add(x.lineno)
    return out


def ast_landing_map(g):
    """{line: set(handler line | 'exit')} from the async edges of the AST-tier CFG (nodes that evaluate a call)"""
    out = {}
    for n in g.nodes:
        if n.stmt is None or (not n.calls() and n.kind not in ('with_exit', 'def')):
            continue
        for e in n.succ:
            if e.kind != 'async':
                continue
            d = e.dst
            if d.kind == 'raise':
                tgt = 'exit'
            elif d.kind == 'handler':
                tgt = d.stmt.lineno
            else:
                # finally copy / with-exit: the first real statement of the copy
                cur = d
                seen = set()
                while cur is not None and cur.stmt is None and cur.id not in seen:
                    seen.add(cur.id)
                    nxt = [x.dst for x in cur.succ if x.kind == 'norm']
                    cur = nxt[0] if nxt else None
                tgt = cur.stmt.lineno if cur is not None and cur.stmt is not None else 'exit'
            # the line of the call(s), not of the statement start (multi-line statements)
            for c in n.calls():
                out.setdefault(c.lineno, set()).add(tgt)
                out.setdefault(getattr(c, 'end_lineno', c.lineno), set()).add(tgt)
            out.setdefault(n.stmt.lineno, set()).add(tgt)
    return out


def cross_check(ctx, func, cls=None):
    """returns (instructions, landing instructions, disagreements list)"""
    co = code_of(func)
    if co is None:
        raise AnalysisError(f'bytecode tier: code object of {func.short} not found')
    g = ctx.an.cfg(func, cls)

    def resolve_name(n):
        lat = ctx.an.lattice
        if lat.known(n):
            return n
        r = ctx.prog.resolve_dotted(func.module, n)
        if r and r[0] == 'class':
            return r[1].name
        if r and r[0] == 'ext':
            return r[1]
        return n
    bc, n_ins, n_land = landing_map(co, ctx.an.lattice, resolve_name, skip_lines=pruned_lines(func))
    am = ast_landing_map(g)
    dis_ = []
    for line, targets in sorted(bc.items()):
        a = am.get(line)
        if a is None:
            dis_.append(f'{func.module.relpath}:{line}: bytecode has a CALL landing, the AST tier has no landing statement there')
            continue
        # bytecode targets must be among the AST targets (the AST tier may add copies that the compiler merges)
        extra = {t for t in targets if t not in a}
        if extra:
            dis_.append(f'{func.module.relpath}:{line}: bytecode routes a landing to {sorted(map(str, extra))}, AST tier to {sorted(map(str, a))}')
    return n_ins, n_land, dis_


def cross_check_all(ctx, strict_modules=('thread', 'process', 'remote', 'persistent', 'persistent_thread', 'persistent_process',
                                         'persistent_remote', 'worker', 'utils', 'pool', 'remote_server', 'remote_context')):
    """Cross-check every function of the package; a disagreement in a life-cycle module is an analysis error."""
    tot = land = n_f = 0
    notes = []
    for f in ctx.prog.funcs.values():
        try:
            co = code_of(f)
        except SyntaxError as e:
            raise AnalysisError(f'bytecode tier: {f.module.relpath} does not compile: {e}')
        if co is None:
            continue
        n, l, d = cross_check(ctx, f)
        n_f += 1
        tot += n
        land += l
        short_mod = f.module.name.split('.', 1)[-1]
        for x in d:
            if short_mod in strict_modules:
                raise AnalysisError(f'bytecode tier disagrees with the AST tier in {f.short}: {x}')
            notes.append(f'{f.short}: {x}')
    return {'functions_cross_checked': n_f, 'instructions': tot, 'landing_instructions': land, 'disagreements_outside_lifecycle_modules': notes}
