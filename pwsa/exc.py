"""Exception-class lattice (builtins + in-repo + a few stdlib names + abstract user classes)."""
import builtins

EXTERNAL_PARENTS = {
    'queue.Empty': 'Exception',
    'queue.Full': 'Exception',
    'struct.error': 'Exception',
    'pickle.PickleError': 'Exception',
    'pickle.PicklingError': 'pickle.PickleError',
    'pickle.UnpicklingError': 'pickle.PickleError',
    'subprocess.TimeoutExpired': 'Exception',
    'socket.timeout': 'OSError',
    'socket.error': 'OSError',
    # abstract classes of the fault model
    'UserException': 'Exception',      # whatever Exception user code decides to raise (an *input*)
    'UserBaseOnly': 'BaseException',   # KeyboardInterrupt / SystemExit / ... raised by user code
}

ABSTRACT = {'UserException': 'Exception', 'UserBaseOnly': 'BaseException'}


class Lattice:
    def __init__(self, prog=None):
        self.parents = dict(EXTERNAL_PARENTS)
        if prog is not None:
            for c in prog.classes.values():
                for b in c.mro()[1:]:
                    if isinstance(b, str):
                        if b != 'object' and (self._builtin(b) or b in self.parents):
                            # first external base that is an exception class
                            self._add_repo_class(c)
                            break

    def _add_repo_class(self, c):
        # parent = first base (in-repo exception class or external exception)
        for b in c.bases:
            bn = b.name if not isinstance(b, str) else b
            self.parents[c.name] = bn
            return

    @staticmethod
    def _builtin(name):
        obj = getattr(builtins, name, None)
        return obj if isinstance(obj, type) and issubclass(obj, BaseException) else None

    def known(self, name):
        return bool(self._builtin(name)) or name in self.parents

    def ancestors(self, name):
        """name and all its ancestors (as names), nearest first."""
        out = []
        seen = set()
        while name and name not in seen:
            seen.add(name)
            out.append(name)
            b = self._builtin(name)
            if b is not None:
                out.extend(k.__name__ for k in b.__mro__[1:] if k is not object)
                break
            name = self.parents.get(name)
        return out

    def is_sub(self, a, b):
        """a is b or a subclass of b."""
        if a == b:
            return True
        return b in self.ancestors(a)

    def match(self, raised, handler):
        """'yes' (always caught), 'maybe' (some instances are caught) or 'no'."""
        upper = ABSTRACT.get(raised, raised)
        if raised == 'UserBaseOnly':
            # by definition not an Exception: only handlers above Exception can see it
            if self.is_sub('BaseException', handler):
                return 'yes'
            if handler in ('KeyboardInterrupt', 'SystemExit', 'GeneratorExit'):
                return 'maybe'
            return 'no'
        if self.is_sub(upper, handler):
            return 'yes'
        if self.is_sub(handler, upper):
            return 'maybe'
        return 'no'
