"""E8 - findings, known findings, evidence, exit codes."""
import json
import os
import time

from .astutil import AnalysisError, norm

VERIF = os.path.dirname(os.path.dirname(os.path.abspath(__file__)))

COMMON_ASSUMPTIONS = [
    'CPython 3.12 semantics of try/finally/with and of PyThreadState_SetAsyncExc (one exception per call, raised at the next eval-breaker check)',
    'may-raise table of library primitives in pwsa/raises.py (socket, multiprocessing.Connection, queue, pickle, struct, os.kill)',
    'assert statements and logging calls do not raise',
    'is_windows() is False (Windows-only branches are pruned)',
    'fault model: any number of user-code exceptions (inputs) plus at most ONE injected fault per path (one asynchronous WorkerTerminatedError landing or one library exception)',
    'callee resolution by the checker\'s own class table / C3 MRO (no type checker available offline)',
]


class Finding:
    def __init__(self, prop, rule, func, construct, what, where=None, path=None, repro=None):
        self.prop = prop
        self.rule = rule
        self.func = func            # short qualified name, e.g. 'ProcessWorker._run'
        self.construct = construct  # normalised, role-based description of the offending construct
        self.what = what
        self.where = where
        self.path = path or []
        self.status = 'new'
        self.known = None

    @property
    def key(self):
        return f'{self.rule}|{self.func}|{self.construct}'

    def to_json(self):
        return {'key': self.key, 'rule': self.rule, 'function': self.func, 'construct': self.construct,
                'what': self.what, 'where': self.where, 'path': self.path, 'status': self.status}


class Ctx:
    """What a rule module sees."""

    def __init__(self, prop, prog, analyzer, tier='quick', seed=0):
        self.prop = prop
        self.prog = prog
        self.an = analyzer
        self.tier = tier
        self.seed = seed
        self.obligations = []     # (rule, instance, ok, detail)
        self.findings = []
        self.samples = []
        self.notes = []           # observations (not armed)
        self.stats = {}
        self.functions = set()
        self.assumptions = list(COMMON_ASSUMPTIONS)
        self.floors = []
        self.floor_failures = []
        self.programs = None
        self.disagreements = None

    # --- recording
    def ob(self, rule, instance, ok, detail=None):
        self.obligations.append({'rule': f'{self.prop}.{rule}', 'instance': instance, 'ok': bool(ok), **({'detail': detail} if detail else {})})
        return ok

    def finding(self, rule, func, construct, what, where=None, path=None):
        f = Finding(self.prop, f'{self.prop}.{rule}', func, construct, what, where, path)
        if f.key not in {x.key for x in self.findings}:
            self.findings.append(f)
        return f

    def check(self, rule, instance, ok, func, construct, what, where=None, path=None, detail=None):
        """obligation + finding when it fails."""
        self.ob(rule, instance, ok, detail)
        if not ok:
            self.finding(rule, func, construct, what, where, path)
        return ok

    def sample(self, obj):
        if len(self.samples) < 12:
            self.samples.append(obj)

    def note(self, text):
        self.notes.append(text)

    def used(self, *funcs):
        for f in funcs:
            if f is not None:
                self.functions.add(f.short if hasattr(f, 'short') else str(f))

    def require(self, cond, msg):
        if not cond:
            raise AnalysisError(msg)

    def floor(self, what, n, minimum):
        """Vacuity guard: an instance count must not fall below the hand-confirmed floor."""
        self.floors.append({'what': what, 'count': n, 'floor': minimum})
        if n < minimum:
            # judged at the end: a run that has real findings reports them; otherwise the run is analysis-broken
            self.floor_failures.append(f'vacuity guard: {what}: found {n}, expected at least {minimum}')


def load_known():
    p = os.path.join(VERIF, 'known_findings.json')
    if not os.path.exists(p):
        return []
    with open(p) as f:
        return json.load(f).get('findings', [])


def finish(ctx, t0, explanation, technique):
    """Classify findings, print the verdict lines, write evidence, return the exit code."""
    known = load_known()
    kmap = {k['key']: k for k in known if k.get('status') == 'known' and k.get('property') == ctx.prop}
    new = []
    for f in ctx.findings:
        k = kmap.get(f.key)
        if k is not None:
            f.status = 'known'
            f.known = k
            print(f'KNOWN-FINDING: property={ctx.prop} {f.rule} {f.func}: {k.get("what", f.what)}')
        else:
            new.append(f)
    if ctx.floor_failures and not new:
        raise AnalysisError('; '.join(ctx.floor_failures))
    evdir = os.path.join(VERIF, 'evidence')
    os.makedirs(os.path.join(evdir, 'replay'), exist_ok=True)
    for i, f in enumerate(new):
        rp = os.path.join(evdir, 'replay', f'{ctx.prop}-{i}.json')
        with open(rp, 'w') as fh:
            json.dump({'property': ctx.prop, **f.to_json(), 'repo': ctx.prog.repo}, fh, indent=1)
        print(f'VIOLATION property={ctx.prop} replay={rp}')
        print(f'  rule      : {f.rule}')
        print(f'  function  : {f.func}   ({f.where})')
        print(f'  construct : {f.construct}')
        print(f'  what      : {f.what}')
        for p in f.path[:16]:
            print(f'      {p}')
    # remove stale replay files of this property
    for fn in os.listdir(os.path.join(evdir, 'replay')):
        if fn.startswith(ctx.prop + '-'):
            try:
                idx = int(fn[len(ctx.prop) + 1:-5])
            except ValueError:
                continue
            if idx >= len(new):
                os.remove(os.path.join(evdir, 'replay', fn))
    n_ob = len(ctx.obligations)
    n_ok = sum(1 for o in ctx.obligations if o['ok'])
    distinct = len({(o['rule'], o['instance']) for o in ctx.obligations})
    failed = [o for o in ctx.obligations if not o['ok']]
    samples = (failed[:6] + [o for o in ctx.obligations if o['ok']][:6] + ctx.samples)[:20]
    ev = {
        'property_id': ctx.prop,
        'tier': ctx.tier,
        'seed': ctx.seed,
        'level': 'other',
        'coverage': {
            'explanation': explanation,
            'technique': technique,
            'obligations': n_ob,
            'discharged': n_ok,
            'evaluations': max(n_ob, 1),
            'distinct_nontrivial': distinct,
            'rule': 'one obligation per (rule, class/function, site | landing statement | path query); distinct = distinct (rule, instance) pairs, all of them decided by a site/path analysis of the parsed source',
            'exhaustive': True,
            'samples': samples,
            'functions_analysed': sorted(ctx.functions),
            'program': ctx.prog.stats(),
            'stats': ctx.stats,
            'floors': ctx.floors,
            'findings': [f.to_json() for f in ctx.findings],
            'observations': ctx.notes,
            'unmodelled_calls': dict(sorted(ctx.an.unmodelled.items())),
            'checker_cmd': f'./check {ctx.prop} --tier {ctx.tier}',
            'trusted_base': ['CPython ast/compile of /venv/bin/python 3.12', 'pwsa/raises.py primitive may-raise table',
                             'pwsa/cfg.py CFG construction', 'pwsa/loader.py C3 MRO and call resolution'],
        },
        'assumptions': ctx.assumptions,
        'wall_s': round(time.time() - t0, 3),
        'violations': len(new),
    }
    if ctx.programs is not None:
        ev['coverage']['programs'] = ctx.programs
        ev['coverage']['disagreements_checked'] = ctx.disagreements
    with open(os.path.join(evdir, f'{ctx.prop}.json'), 'w') as fh:
        json.dump(ev, fh, indent=1, default=str)
    print(f'{ctx.prop}: {n_ok}/{n_ob} obligations discharged, {len(ctx.findings)} finding(s) '
          f'({len(ctx.findings) - len(new)} known, {len(new)} new), {len(ctx.functions)} functions, {ev["wall_s"]} s')
    return 1 if new else 0
