"""E2/E3/E4 - control-flow graph with exception and asynchronous-landing edges.

One CFG per (function, concrete class).  Statement granularity.  A statement that
contains a call is lowered to

    eval  -- the expression is evaluated: library (E3) / user / callee exceptions and the
             *pre-effect* asynchronous landing leave from here, none of the statement's own
             effects (stores, completed sends) have happened;
    post  -- every call of the statement has completed; the *post-effect* asynchronous
             landing leaves from here (CPython checks the eval breaker after each CALL);
    store -- the statement's stores happen (STORE_ATTR/STORE_FAST: no eval-breaker check,
             nothing can land here); only present if the statement has targets.

`finally` bodies are duplicated per continuation (normal, return, break, continue, one
copy per exception class).  `with` is lowered to enter / body / exit with the exit node
duplicated the same way.  Edges carry a kind:

    norm / true / false / back    ordinary flow
    exc                           raise site; .exc = class, .cause in {'explicit','user','e3'}, .call = raising Call
    async                         asynchronous WorkerTerminatedError landing; .phase in {'pre','post'}
    reraise                       propagation (end of an exceptional finally copy, bare raise, fall out of a with-exit)
"""
import ast

from .astutil import (AnalysisError, dotted, calls_in, stmt_header_exprs, walk_local, is_name,
                      short, assigned_targets, last_attr, receiver)
from . import raises as R

ASYNC_EXC = 'WorkerTerminatedError'


class Node:
    __slots__ = ('id', 'kind', 'stmt', 'func', 'label', 'succ', 'pred', 'frame', 'part', 'exc_in', 'copy_of', 'handler_types')

    def __init__(self, id, kind, stmt=None, func=None, label=None):
        self.id = id
        self.kind = kind          # entry exit raise stmt test for with_enter with_exit handler join yield return
        self.stmt = stmt
        self.func = func
        self.label = label
        self.succ = []
        self.pred = []
        self.frame = None         # innermost frame at creation
        self.part = None          # 'eval' | 'post' | 'store' | None
        self.exc_in = None        # for finally/with-exit copies: the exception class being propagated
        self.copy_of = None       # continuation kind of the finally copy this node belongs to
        self.handler_types = None

    @property
    def line(self):
        ln = getattr(self.stmt, 'orig_lineno', None) or getattr(self.stmt, 'lineno', None)
        return int(ln) if ln is not None else None

    def calls(self):
        """Call nodes evaluated by this CFG node itself (the header only, for compound statements)."""
        if self.stmt is None:
            return []
        if self.kind == 'handler':
            return []
        out = []
        for ex in stmt_header_exprs(self.stmt):
            out.extend(calls_in(ex))
        return out

    def describe(self):
        if self.kind in ('entry', 'exit'):
            return self.kind
        if self.kind == 'raise':
            return f'exit(raise {self.label})'
        s = short(self.stmt) if self.stmt is not None else (self.label or '')
        tag = f'[{self.part}]' if self.part else ''
        return f'{self.func.module.relpath}:{self.line} {self.kind}{tag} {s}'

    def __repr__(self):
        return f'<N{self.id} {self.kind}{"/" + self.part if self.part else ""} L{self.line} {short(self.stmt, 40) if self.stmt is not None else self.label}>'


class Edge:
    __slots__ = ('src', 'dst', 'kind', 'exc', 'cause', 'call', 'phase', 'branch')

    def __init__(self, src, dst, kind, exc=None, cause=None, call=None, phase=None, branch=None):
        self.src, self.dst, self.kind = src, dst, kind
        self.exc, self.cause, self.call, self.phase = exc, cause, call, phase
        # which side of a test this edge is ('true'/'false'), also for back edges
        self.branch = branch if branch is not None else (kind if kind in ('true', 'false') else None)

    def __repr__(self):
        extra = f' {self.exc}/{self.cause or self.phase}' if self.exc else ''
        return f'<E {self.src.id}->{self.dst.id} {self.kind}{extra}>'


# ---------------------------------------------------------------- frames
class Frame:
    def __init__(self, kind, outer, **kw):
        self.kind = kind      # 'func' 'loop' 'try' 'finally' 'handler'
        self.outer = outer
        self.__dict__.update(kw)


def _const_truth(test):
    """Static truth value of a test under the platform assumption is_windows() == False."""
    if isinstance(test, ast.Constant):
        return bool(test.value)
    if isinstance(test, ast.Call) and last_attr(test) == 'is_windows' and not test.args:
        return False
    if isinstance(test, ast.UnaryOp) and isinstance(test.op, ast.Not):
        v = _const_truth(test.operand)
        return None if v is None else (not v)
    if isinstance(test, ast.BoolOp):
        vals = [_const_truth(v) for v in test.values]
        if isinstance(test.op, ast.And):
            if any(v is False for v in vals):
                return False
            if all(v is True for v in vals):
                return True
        else:
            if any(v is True for v in vals):
                return True
            if all(v is False for v in vals):
                return False
    return None


class CFG:
    def __init__(self, func, cls, analyzer):
        self.func = func
        self.cls = cls
        self.an = analyzer
        self.nodes = []
        self.edges = []
        self.entry = self._node('entry')
        self.exit = self._node('exit')
        self.raise_exits = {}      # exc class -> node
        self._fin_copies = {}
        self.unmodelled = set()
        self._build()

    # ------------------------------------------------------------ primitives
    def _node(self, kind, stmt=None, label=None, frame=None, part=None):
        n = Node(len(self.nodes), kind, stmt, self.func, label)
        n.frame = frame
        n.part = part
        self.nodes.append(n)
        return n

    def _edge(self, src, dst, kind='norm', **kw):
        e = Edge(src, dst, kind, **kw)
        src.succ.append(e)
        dst.pred.append(e)
        self.edges.append(e)
        return e

    def _raise_exit(self, exc):
        if exc not in self.raise_exits:
            self.raise_exits[exc] = self._node('raise', label=exc)
        return self.raise_exits[exc]

    # ------------------------------------------------------------ build
    def _build(self):
        top = Frame('func', None)
        tails = self._block(self.func.node.body, [(self.entry, 'norm')], top)
        for t, k in tails:
            self._edge(t, self.exit, k)

    def _connect(self, tails, node):
        for t, k in tails:
            self._edge(t, node, k)

    def _block(self, stmts, tails, frame):
        """Build `stmts`; `tails` = list of (node, edge kind) that flow into the block.
        Returns the list of tails leaving the block normally."""
        for st in stmts:
            if not tails:
                break          # unreachable code
            tails = self._stmt(st, tails, frame)
        return tails

    # ---- exception routing
    def _route_exc(self, src, frame, exc, kind='exc', cause=None, **kw):
        """Add the edges for exception `exc` raised at `src` whose innermost frame is `frame`."""
        lat = self.an.lattice
        if kind == 'async':
            cause = 'async'
        kw['cause'] = cause
        f = frame
        while f is not None:
            if f.kind == 'try':
                for types, hnode in f.handlers:
                    ms = [lat.match(exc, t) for t in types]
                    if 'yes' in ms:
                        self._edge(src, hnode, kind, exc=exc, **kw)
                        return
                    if 'maybe' in ms:
                        self._edge(src, hnode, kind, exc=exc, **kw)
                        # and keep propagating: some instances are not caught here
            elif f.kind == 'finally':
                entry = self._finally_copy(f, ('exc', exc, cause))
                self._edge(src, entry, kind, exc=exc, **kw)
                return
            elif f.kind == 'func':
                self._edge(src, self._raise_exit(exc), kind, exc=exc, **kw)
                return
            f = f.outer
        raise AssertionError('no function frame')

    def _route_jump(self, src, frame, what, ekind='norm'):
        """return / break / continue from `src` in `frame`."""
        f = frame
        while f is not None:
            if f.kind == 'finally':
                entry = self._finally_copy(f, (what, None, None))
                self._edge(src, entry, ekind)
                return
            if f.kind == 'loop' and what in ('break', 'continue'):
                if what == 'break':
                    f.breaks.append((src, ekind))
                else:
                    self._edge(src, f.head, 'back')
                return
            if f.kind == 'func' and what == 'return':
                self._edge(src, self.exit, ekind)
                return
            f = f.outer
        raise AnalysisError(f'{what} outside of its construct in {self.func.qualname}')

    def _finally_copy(self, f, cont):
        key = (id(f), cont)
        if key in self._fin_copies:
            return self._fin_copies[key]
        what, exc, cause = cont
        entry = self._node('join', label=f'finally[{what}{":" + exc if exc else ""}]', frame=f.outer)
        entry.copy_of = cont
        entry.exc_in = exc
        self._fin_copies[key] = entry
        mark = len(self.nodes)
        tails = f.builder(entry, f.outer)
        for n in self.nodes[mark:]:
            if n.copy_of is None:
                n.copy_of = cont
                n.exc_in = exc
        for t, k in tails:
            if what == 'exc':
                self._route_exc(t, f.outer, exc, kind='reraise', cause=cause)
            elif what == 'norm':
                pass
            else:
                self._route_jump(t, f.outer, what, k)
        if what == 'norm':
            f.norm_tails = tails
        return entry

    # ---- raise sets of a node
    def _add_raises(self, node, exprs, frame):
        """Add exc + async(pre) edges for evaluating `exprs` at `node`."""
        rs = []
        for ex in exprs:
            for call in calls_in(ex):
                for (exc, cause) in self.an.call_raises(call, self.func, self.cls, self):
                    rs.append((exc, cause, call))
        seen = set()
        for exc, cause, call in rs:
            k = (exc, cause, id(call))
            if k in seen:
                continue
            seen.add(k)
            self._route_exc(node, frame, exc, cause=cause, call=call)
        return rs

    def _is_landing(self, exprs):
        """AST tier of E4: the statement executes an eval-breaker check iff it calls something
        (CALL into C checks after return, a call into Python checks in RESUME) or reads a
        descriptor implemented in Python."""
        for ex in exprs:
            for n in walk_local(ex):
                if isinstance(n, ast.Call):
                    return True
                if isinstance(n, ast.Attribute) and self.cls is not None and is_name(n.value, 'self') \
                        and self.cls.is_descriptor(n.attr):
                    return True
                if isinstance(n, ast.Attribute) and n.attr in ('parent_end', 'child_end', 'id', 'name'):
                    return True
                if isinstance(n, (ast.ListComp, ast.SetComp, ast.DictComp, ast.GeneratorExp)):
                    return True
        return False

    def _simple(self, st, tails, frame, exprs=None, kind='stmt'):
        """Lower a simple statement (or the header of a compound one). Returns (first, last)."""
        exprs = stmt_header_exprs(st) if exprs is None else exprs
        n = self._node(kind, st, frame=frame)
        self._connect(tails, n)
        has_call = any(calls_in(ex) for ex in exprs)
        landing = self._is_landing(exprs)
        if has_call:
            self._add_raises(n, exprs, frame)
        if landing:
            self._route_exc(n, frame, ASYNC_EXC, kind='async', phase='pre')
        if not has_call:
            return n, n
        n.part = 'eval'
        post = self._node(kind, st, frame=frame, part='post')
        self._edge(n, post)
        self._route_exc(post, frame, ASYNC_EXC, kind='async', phase='post')
        last = post
        if kind == 'stmt' and assigned_targets(st):
            store = self._node(kind, st, frame=frame, part='store')
            self._edge(post, store)
            last = store
        return n, last

    # ---- statements
    def _stmt(self, st, tails, frame):
        if isinstance(st, ast.If):
            truth = _const_truth(st.test)
            first, last = self._simple(st, tails, frame, kind='test')
            out = []
            if truth is not False:
                out += self._block(st.body, [(last, 'true')], frame)
            if truth is not True:
                if st.orelse:
                    out += self._block(st.orelse, [(last, 'false')], frame)
                else:
                    out.append((last, 'false'))
            return out
        if isinstance(st, ast.While):
            truth = _const_truth(st.test)
            head = self._node('join', st, label='while', frame=frame)
            self._connect(tails, head)
            first, last = self._simple(st, [(head, 'norm')], frame, kind='test')
            loop = Frame('loop', frame, head=head, breaks=[])
            body_tails = self._block(st.body, [(last, 'true')], loop) if truth is not False else []
            for t, k in body_tails:
                self._edge(t, head, 'back', branch=k if k in ('true', 'false') else None)
            out = list(loop.breaks)
            if truth is not True:
                if st.orelse:
                    out += self._block(st.orelse, [(last, 'false')], frame)
                else:
                    out.append((last, 'false'))
            return out
        if isinstance(st, (ast.For, ast.AsyncFor)):
            # the iterable is evaluated once, then each step calls __next__
            it_first, it_last = self._simple(st, tails, frame, exprs=[st.iter], kind='stmt')
            head = self._node('for', st, label='for-step', frame=frame)
            self._edge(it_last, head)
            # an iteration step runs user/Python code for generators: landing point
            self._route_exc(head, frame, ASYNC_EXC, kind='async', phase='pre')
            for exc, cause in self.an.iter_raises(st.iter, self.func, self.cls, self):
                self._route_exc(head, frame, exc, cause=cause, call=None)
            loop = Frame('loop', frame, head=head, breaks=[])
            body_tails = self._block(st.body, [(head, 'true')], loop)
            for t, k in body_tails:
                self._edge(t, head, 'back', branch=k if k in ('true', 'false') else None)
            out = list(loop.breaks)
            if st.orelse:
                out += self._block(st.orelse, [(head, 'false')], frame)
            else:
                out.append((head, 'false'))
            return out
        if isinstance(st, ast.Try):
            return self._try(st, tails, frame)
        if isinstance(st, (ast.With, ast.AsyncWith)):
            return self._with(st, tails, frame)
        if isinstance(st, ast.Return):
            first, last = self._simple(st, tails, frame, exprs=[st.value] if st.value is not None else [], kind='return')
            self._route_jump(last, frame, 'return')
            return []
        if isinstance(st, ast.Break):
            n = self._node('stmt', st, frame=frame)
            self._connect(tails, n)
            self._route_jump(n, frame, 'break')
            return []
        if isinstance(st, ast.Continue):
            n = self._node('stmt', st, frame=frame)
            self._connect(tails, n)
            self._route_jump(n, frame, 'continue')
            return []
        if isinstance(st, ast.Raise):
            exprs = [e for e in (st.exc, st.cause) if e is not None]
            first, last = self._simple(st, tails, frame, exprs=exprs, kind='stmt')
            if st.exc is None:
                # bare raise: re-raise whatever entered the enclosing handler
                h = frame
                while h is not None and h.kind != 'handler':
                    h = h.outer
                classes = sorted({e.exc for e in h.hnode.pred if e.exc}) if h is not None else ['BaseException']
                pairs = set()
                lat = self.an.lattice
                for e in (h.hnode.pred if h is not None else []):
                    if not e.exc:
                        continue
                    # what is re-raised is what the handler caught: an incoming class broader than the handler's type is narrowed to that type
                    types = getattr(h.hnode, 'handler_types', None) or []
                    narrowed = [t for t in types if lat.match(e.exc, t) == 'maybe']
                    if narrowed and not any(lat.match(e.exc, t) == 'yes' for t in types):
                        for t in narrowed:
                            pairs.add((t, e.cause or 'e3'))
                    else:
                        pairs.add((e.exc, e.cause or 'e3'))
                pairs = sorted(pairs)
                for c, cz in pairs or [('BaseException', 'e3')]:
                    self._route_exc(last, frame, c, kind='reraise', cause=cz)
            else:
                exc = self.an.raised_class(st.exc, self.func)
                cause = 'explicit'
                if exc in R.FAULT_CLASSES:
                    cause = 'e3'
                else:
                    # translation of a fault inside a handler inherits the cause
                    h = frame
                    while h is not None and h.kind != 'handler':
                        h = h.outer
                    if h is not None and st.cause is not None:
                        cs = {e.cause for e in h.hnode.pred if e.exc}
                        if cs and cs <= {'e3', 'e3p'}:
                            cause = 'e3'
                self._route_exc(last, frame, exc, cause=cause, call=None)
            return []
        if isinstance(st, ast.Assert):
            # stated belief: collected as a fact, treated as non-raising (assumption)
            n = self._node('assert', st, frame=frame)
            self._connect(tails, n)
            if self._is_landing([st.test]):
                self._route_exc(n, frame, ASYNC_EXC, kind='async', phase='pre')
            return [(n, 'norm')]
        if isinstance(st, (ast.FunctionDef, ast.AsyncFunctionDef, ast.ClassDef, ast.Import, ast.ImportFrom,
                           ast.Global, ast.Nonlocal, ast.Pass)):
            n = self._node('def' if isinstance(st, (ast.FunctionDef, ast.ClassDef)) else 'stmt', st, frame=frame)
            self._connect(tails, n)
            if isinstance(st, ast.ClassDef):
                # executing a class statement runs its body and calls the metaclass
                self._route_exc(n, frame, ASYNC_EXC, kind='async', phase='pre')
            return [(n, 'norm')]
        if isinstance(st, ast.Expr) and isinstance(st.value, (ast.Yield, ast.YieldFrom)):
            first, last = self._simple(st, tails, frame)
            first.kind = 'yield'
            return [(last, 'norm')]
        # Assign / AugAssign / AnnAssign / Expr / Delete
        first, last = self._simple(st, tails, frame)
        if isinstance(st, ast.Assign) and isinstance(st.value, (ast.Yield, ast.YieldFrom)):
            first.kind = 'yield'
        # explicit non-call raisers: subscripts on client-keyed tables are judged by dedicated rules
        return [(last, 'norm')]

    def _try(self, st, tails, frame):
        fin = None
        inner_frame = frame
        if st.finalbody:
            def builder(entry, outer, body=st.finalbody):
                return self._block(body, [(entry, 'norm')], outer)
            fin = Frame('finally', frame, builder=builder, stmt=st, norm_tails=None)
            inner_frame = fin
        handlers = []
        for h in st.handlers:
            types = self.an.handler_types(h, self.func)
            hn = self._node('handler', h, frame=inner_frame)
            hn.handler_types = types
            handlers.append((types, hn))
        tryf = Frame('try', inner_frame, handlers=handlers, stmt=st) if handlers else inner_frame
        body_tails = self._block(st.body, tails, tryf)
        if st.orelse:
            body_tails = self._block(st.orelse, body_tails, inner_frame)
        out = list(body_tails)
        for (types, hn), h in zip(handlers, st.handlers):
            if not hn.pred:
                continue        # nothing can reach this handler
            hf = Frame('handler', inner_frame, hnode=hn)
            out += self._block(h.body, [(hn, 'norm')], hf)
        if fin is not None:
            entry = self._finally_copy(fin, ('norm', None, None))
            self._connect(out, entry)
            out = fin.norm_tails if out else []
            if not entry.pred:
                out = []
        return out

    def _with(self, st, tails, frame):
        first, last = self._simple(st, tails, frame, kind='with_enter')

        def builder(entry, outer, st=st):
            x = self._node('with_exit', st, frame=outer)
            self._edge(entry, x)
            # __exit__ is a call: the asynchronous exception can land on it
            self._route_exc(x, outer, ASYNC_EXC, kind='async', phase='pre')
            return [(x, 'norm')]
        fin = Frame('finally', frame, builder=builder, stmt=st, norm_tails=None)
        body_tails = self._block(st.body, [(last, 'norm')], fin)
        entry = self._finally_copy(fin, ('norm', None, None))
        self._connect(body_tails, entry)
        return fin.norm_tails if body_tails else []

    # ------------------------------------------------------------ queries
    def stmt_nodes(self, stmt, part=None):
        return [n for n in self.nodes if n.stmt is stmt and (part is None or n.part == part or (n.part is None and part == 'eval'))]

    def nodes_where(self, pred):
        return [n for n in self.nodes if n.stmt is not None and pred(n)]

    def reachable(self, starts, edge_ok=None, node_ok=None):
        """Forward reachability from `starts` (iterable of nodes)."""
        seen = set()
        stack = list(starts)
        while stack:
            n = stack.pop()
            if n.id in seen:
                continue
            if node_ok is not None and not node_ok(n):
                continue
            seen.add(n.id)
            for e in n.succ:
                if edge_ok is None or edge_ok(e):
                    stack.append(e.dst)
        return seen

    def find_path(self, starts, goal, edge_ok=None, node_ok=None):
        """A shortest path (list of edges) from any of `starts` to a node satisfying goal(n), or None."""
        from collections import deque
        prev = {}
        dq = deque()
        for s in starts:
            if node_ok is not None and not node_ok(s):
                continue
            if s.id not in prev:
                prev[s.id] = None
                dq.append(s)
        while dq:
            n = dq.popleft()
            if goal(n):
                path = []
                cur = n
                while prev[cur.id] is not None:
                    e = prev[cur.id]
                    path.append(e)
                    cur = e.src
                return list(reversed(path))
            for e in n.succ:
                if edge_ok is not None and not edge_ok(e):
                    continue
                d = e.dst
                if d.id in prev:
                    continue
                if node_ok is not None and not node_ok(d) and not goal(d):
                    continue
                prev[d.id] = e
                dq.append(d)
        return None

    def find_path_budget(self, starts, goal, avoid=(), budget=1, is_fault=None, flow_ok=None):
        """Shortest path from `starts` to goal(n) that avoids node ids in `avoid` and takes at most `budget`
        fault edges (is_fault(e)); every other edge must satisfy flow_ok(e) or be a propagation edge."""
        from collections import deque
        is_fault = is_fault or (lambda e: e.kind == 'async' or (e.kind == 'exc' and e.cause in ('e3', 'e3p')))
        flow_ok = flow_ok or is_flow
        prev = {}
        dq = deque()
        for s in starts:
            if s.id in avoid:
                continue
            prev[(s.id, 0)] = None
            dq.append((s, 0))
        while dq:
            n, used = dq.popleft()
            if goal(n):
                path = []
                cur = (n.id, used)
                while prev[cur] is not None:
                    e, pu = prev[cur]
                    path.append(e)
                    cur = (e.src.id, pu)
                return list(reversed(path))
            for e in n.succ:
                nu = used
                if is_fault(e):
                    nu = used + 1
                    if nu > budget:
                        continue
                elif not (e.kind == 'reraise' or flow_ok(e)):
                    continue
                d = e.dst
                if d.id in avoid and not goal(d):
                    continue
                if (d.id, nu) in prev:
                    continue
                prev[(d.id, nu)] = (e, used)
                dq.append((d, nu))
        return None

    def exits(self):
        return [self.exit] + list(self.raise_exits.values())

    def dominators(self, edge_ok=None):
        """node id -> set of dominator ids (iterative, graph is small)."""
        ids = [n.id for n in self.nodes]
        reach = self.reachable([self.entry], edge_ok)
        dom = {i: set(reach) for i in reach}
        dom[self.entry.id] = {self.entry.id}
        changed = True
        order = [n for n in self.nodes if n.id in reach]
        while changed:
            changed = False
            for n in order:
                if n is self.entry:
                    continue
                preds = [e.src.id for e in n.pred if e.src.id in reach and (edge_ok is None or edge_ok(e))]
                if not preds:
                    continue
                new = set.intersection(*(dom[p] for p in preds)) | {n.id}
                if new != dom[n.id]:
                    dom[n.id] = new
                    changed = True
        return dom

    def stats(self):
        return {'nodes': len(self.nodes), 'edges': len(self.edges),
                'async_edges': sum(1 for e in self.edges if e.kind == 'async'),
                'exc_edges': sum(1 for e in self.edges if e.kind == 'exc')}


def path_str(path, limit=40):
    out = []
    for e in path[:limit]:
        lab = e.kind if not e.exc else f'{e.kind}:{e.exc}'
        out.append(f'--{lab}--> {e.dst.describe()}')
    if len(path) > limit:
        out.append(f'… (+{len(path) - limit} edges)')
    return out


# classification helpers used by rules
NORMAL_KINDS = ('norm', 'true', 'false', 'back')


def is_flow(e):
    """Edges a fault-free execution can take: ordinary flow, propagation, explicit raises and
    user-code exceptions (inputs).  Library faults (e3) and async landings are excluded."""
    if e.kind in NORMAL_KINDS:
        return True
    if e.kind in ('exc', 'reraise'):
        return e.cause in ('explicit', 'user')
    return False
