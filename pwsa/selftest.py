"""Self-test of the rules (thorough tier): single-edit variants of the pyworkers sources are written to a
scratch directory outside /repo and /verif; every rule must fire on its broken variants and stay silent
on behaviour-preserving ones.  Variants whose anchor text is not present in the tree under analysis are
skipped (the tree may have been edited) and counted as such.

    python -m pwsa.selftest [--repo /repo] [--prop C07] [--jobs 16] [--list]
"""
import argparse
import importlib
import json
import multiprocessing as mp
import os
import shutil
import sys
import tempfile
import time
import traceback

from .astutil import AnalysisError
from .loader import load
from .raises import Analyzer
from .report import Ctx, load_known
from .variants import VARIANTS

ALL_PROPS = [f'C{i:02d}' for i in range(1, 21)]


MODERNISE_KINDS = ('suppress', 'else_nest', 'else_unnest', 'cmp_flip', 'tern_expand', 'aug_expand', 'lit_ctor', 'ret_local', 'walrus', 'tern_fold', 'ann_assign', 'lock_unfold')
_TERMINAL = None


def _pure(e):
    import ast
    for n in ast.walk(e):
        if isinstance(n, ast.Call) and not (isinstance(n.func, ast.Name) and n.func.id in ('len', 'type', 'id')):
            return False
        if isinstance(n, (ast.NamedExpr, ast.Yield, ast.YieldFrom, ast.Await, ast.Lambda, ast.IfExp, ast.BoolOp)):
            return False
    return True


def modernise_sites(tree, kind):
    """Positions (lineno, col) of the statements of `tree` that the behaviour-preserving rewrite `kind` applies to."""
    import ast
    term = (ast.Return, ast.Raise, ast.Continue, ast.Break)
    out = []
    for parent in ast.walk(tree):
        for field in ('body', 'orelse', 'finalbody'):
            lst = getattr(parent, field, None)
            if not isinstance(lst, list):
                continue
            for i, st in enumerate(lst):
                if not isinstance(st, ast.stmt):
                    continue
                ok = False
                if kind == 'suppress':
                    ok = isinstance(st, ast.Try) and st.handlers and not st.orelse and not st.finalbody and \
                        all(len(h.body) == 1 and isinstance(h.body[0], ast.Pass) and h.name is None for h in st.handlers)
                elif kind == 'else_nest':
                    ok = isinstance(st, ast.If) and not st.orelse and isinstance(st.body[-1], term) and i + 1 < len(lst) and \
                        not isinstance(parent, ast.ClassDef)
                elif kind == 'else_unnest':
                    ok = isinstance(st, ast.If) and st.orelse and isinstance(st.body[-1], term)
                elif kind == 'cmp_flip':
                    ok = not isinstance(st, (ast.FunctionDef, ast.AsyncFunctionDef, ast.ClassDef)) and _first_flippable(st) is not None
                elif kind == 'tern_expand':
                    ok = (isinstance(st, ast.Return) and isinstance(st.value, ast.IfExp)) or \
                        (isinstance(st, ast.Assign) and len(st.targets) == 1 and isinstance(st.value, ast.IfExp) and
                         isinstance(st.targets[0], (ast.Name, ast.Attribute)) and _pure(st.targets[0]))
                elif kind == 'aug_expand':
                    ok = isinstance(st, ast.AugAssign) and isinstance(st.target, (ast.Name, ast.Attribute)) and _pure(st.target) and \
                        isinstance(st.value, ast.Constant) and isinstance(st.value.value, (int, float)) and not isinstance(st.value.value, bool)
                elif kind == 'lit_ctor':
                    ok = not isinstance(st, (ast.FunctionDef, ast.AsyncFunctionDef, ast.ClassDef)) and _first_empty_literal(st) is not None
                elif kind == 'walrus':
                    ok = isinstance(st, ast.Assign) and len(st.targets) == 1 and isinstance(st.targets[0], ast.Name) and i + 1 < len(lst) and \
                        isinstance(lst[i + 1], ast.If) and _first_evaluated_name(lst[i + 1].test, st.targets[0].id) is not None and \
                        not any(isinstance(n, ast.Name) and n.id == st.targets[0].id for n in ast.walk(st.value))
                elif kind == 'tern_fold':
                    ok = isinstance(st, ast.If) and len(st.body) == 1 and len(st.orelse) == 1 and isinstance(st.body[0], ast.Assign) and \
                        isinstance(st.orelse[0], ast.Assign) and len(st.body[0].targets) == 1 and len(st.orelse[0].targets) == 1 and \
                        isinstance(st.body[0].targets[0], (ast.Name, ast.Attribute)) and ast.dump(st.body[0].targets[0]) == ast.dump(st.orelse[0].targets[0])
                elif kind == 'ann_assign':
                    ok = isinstance(st, ast.Assign) and len(st.targets) == 1 and isinstance(st.targets[0], (ast.Name, ast.Attribute)) and \
                        not isinstance(parent, (ast.ClassDef, ast.Module)) and \
                        not (isinstance(st.targets[0], ast.Name) and _declared_global(tree, st))
                elif kind == 'lock_unfold':
                    ok = isinstance(st, ast.With) and len(st.items) == 1 and st.items[0].optional_vars is None and 'lock' in ast.unparse(st.items[0].context_expr).lower() \
                        and not isinstance(st.items[0].context_expr, ast.Call)
                elif kind == 'ret_local':
                    ok = isinstance(st, ast.Return) and st.value is not None and not isinstance(st.value, (ast.Name, ast.Constant))
                if ok:
                    out.append((st.lineno, st.col_offset))
    return sorted(set(out))


def _own_exprs(st):
    """The expressions evaluated by the statement itself (not those of nested statements)."""
    import ast
    for name, val in ast.iter_fields(st):
        if name in ('body', 'orelse', 'finalbody', 'handlers', 'decorator_list'):
            continue
        for v in (val if isinstance(val, list) else [val]):
            if isinstance(v, ast.expr):
                yield v
            elif isinstance(v, ast.withitem):
                yield v.context_expr


def _first_evaluated_name(test, name):
    """the Name node of `name` when it is the very first thing the test evaluates (through not / and / or / a comparison's left operand)"""
    import ast
    t = test
    while True:
        if isinstance(t, ast.UnaryOp) and isinstance(t.op, ast.Not):
            t = t.operand
        elif isinstance(t, ast.BoolOp):
            t = t.values[0]
        elif isinstance(t, ast.Compare):
            t = t.left
        else:
            break
    return t if isinstance(t, ast.Name) and t.id == name else None


def _declared_global(tree, st):
    """an annotated assignment to a name declared global / nonlocal in its function is a syntax error"""
    import ast
    for fn in ast.walk(tree):
        if isinstance(fn, (ast.FunctionDef, ast.AsyncFunctionDef)) and any(x is st for x in ast.walk(fn)):
            if any(isinstance(g, (ast.Global, ast.Nonlocal)) and st.targets[0].id in g.names for g in ast.walk(fn)):
                return True
    return False


def _first_empty_literal(st):
    import ast
    for e in _own_exprs(st):
        for n in ast.walk(e):
            if isinstance(n, (ast.List, ast.Tuple)) and not n.elts and isinstance(n.ctx, ast.Load):
                return n
            if isinstance(n, ast.Dict) and not n.keys:
                return n
    return None


def _first_flippable(st):
    import ast
    flip = {ast.Lt: ast.Gt, ast.Gt: ast.Lt, ast.LtE: ast.GtE, ast.GtE: ast.LtE, ast.Eq: ast.Eq, ast.NotEq: ast.NotEq, ast.Is: ast.Is, ast.IsNot: ast.IsNot}
    for e in _own_exprs(st):
        for n in ast.walk(e):
            if isinstance(n, ast.Compare) and len(n.ops) == 1 and type(n.ops[0]) in flip and _pure(n.left) and _pure(n.comparators[0]):
                return n, flip[type(n.ops[0])]
    return None


def modernise(tree, kind, lineno, col):
    """Apply the behaviour-preserving rewrite `kind` to the statement of `tree` at (lineno, col); False when it does not apply."""
    import ast
    for parent in ast.walk(tree):
        for field in ('body', 'orelse', 'finalbody'):
            lst = getattr(parent, field, None)
            if not isinstance(lst, list):
                continue
            for i, st in enumerate(lst):
                if not (isinstance(st, ast.stmt) and (st.lineno, st.col_offset) == (lineno, col)):
                    continue
                if (lineno, col) not in modernise_sites(tree, kind):
                    return False
                if kind == 'suppress':
                    types = []
                    for h in st.handlers:
                        if h.type is None:
                            types.append(ast.Name(id='BaseException', ctx=ast.Load()))
                        elif isinstance(h.type, ast.Tuple):
                            types += h.type.elts
                        else:
                            types.append(h.type)
                    call = ast.Call(func=ast.Attribute(value=ast.Name(id='contextlib', ctx=ast.Load()), attr='suppress', ctx=ast.Load()), args=types, keywords=[])
                    lst[i] = ast.With(items=[ast.withitem(context_expr=call, optional_vars=None)], body=st.body)
                    at = 1 if (tree.body and isinstance(tree.body[0], ast.Expr) and isinstance(tree.body[0].value, ast.Constant)) else 0
                    tree.body.insert(at, ast.Import(names=[ast.alias(name='contextlib', asname=None)]))
                elif kind == 'else_nest':
                    st.orelse = lst[i + 1:]
                    del lst[i + 1:]
                elif kind == 'else_unnest':
                    rest, st.orelse = st.orelse, []
                    lst[i + 1:i + 1] = rest
                elif kind == 'cmp_flip':
                    n, op = _first_flippable(st)
                    n.left, n.comparators, n.ops = n.comparators[0], [n.left], [op()]
                elif kind == 'tern_expand':
                    ife = st.value
                    if isinstance(st, ast.Return):
                        a, b = ast.Return(value=ife.body), ast.Return(value=ife.orelse)
                    else:
                        import copy
                        a, b = ast.Assign(targets=[st.targets[0]], value=ife.body), ast.Assign(targets=[copy.deepcopy(st.targets[0])], value=ife.orelse)
                    lst[i] = ast.If(test=ife.test, body=[a], orelse=[b])
                elif kind == 'lit_ctor':
                    n = _first_empty_literal(st)
                    name = {'List': 'list', 'Tuple': 'tuple', 'Dict': 'dict'}[type(n).__name__]
                    n.__class__ = ast.Call
                    n.__dict__.clear()
                    n.__dict__.update(dict(func=ast.Name(id=name, ctx=ast.Load()), args=[], keywords=[]))
                elif kind == 'walrus':
                    nm = _first_evaluated_name(lst[i + 1].test, st.targets[0].id)
                    val = st.value
                    nm.__class__ = ast.NamedExpr
                    nm.__dict__.clear()
                    nm.__dict__.update(dict(target=ast.Name(id=st.targets[0].id, ctx=ast.Store()), value=val))
                    del lst[i]
                elif kind == 'tern_fold':
                    lst[i] = ast.Assign(targets=[st.body[0].targets[0]], value=ast.IfExp(test=st.test, body=st.body[0].value, orelse=st.orelse[0].value))
                elif kind == 'ann_assign':
                    lst[i] = ast.AnnAssign(target=st.targets[0], annotation=ast.Constant(value='object'), value=st.value, simple=1 if isinstance(st.targets[0], ast.Name) else 0)
                elif kind == 'lock_unfold':
                    import copy
                    x = st.items[0].context_expr
                    acq = ast.Expr(value=ast.Call(func=ast.Attribute(value=x, attr='acquire', ctx=ast.Load()), args=[], keywords=[]))
                    rel = ast.Expr(value=ast.Call(func=ast.Attribute(value=copy.deepcopy(x), attr='release', ctx=ast.Load()), args=[], keywords=[]))
                    lst[i:i + 1] = [acq, ast.Try(body=st.body, handlers=[], orelse=[], finalbody=[rel])]
                elif kind == 'ret_local':
                    lst[i:i + 1] = [ast.Assign(targets=[ast.Name(id='_rv', ctx=ast.Store())], value=st.value), ast.Return(value=ast.Name(id='_rv', ctx=ast.Load()))]
                elif kind == 'aug_expand':
                    import copy
                    load = copy.deepcopy(st.target)
                    load.ctx = ast.Load()
                    lst[i] = ast.Assign(targets=[st.target], value=ast.BinOp(left=load, op=st.op, right=st.value))
                return True
    return False


def apply_edit(root, rel, old, new):
    if rel == '__patch__':
        # a kept seeded change (/verif/seeded/<id>/patch.diff), applied to the scratch copy with git apply (works outside a repository)
        import subprocess
        r = subprocess.run(['git', 'apply', '--whitespace=nowarn', old], cwd=root, capture_output=True, text=True)
        return r.returncode == 0
    path = os.path.join(root, rel)
    with open(path, newline='') as f:
        raw = f.read()
    crlf = '\r\n' in raw
    if isinstance(old, tuple) and old[0] == 'unparse':
        import ast
        with open(path, 'w', newline='') as f:
            f.write(ast.unparse(ast.parse(raw)) + '\n')
        return True
    if isinstance(old, tuple) and old[0] == 'alias_recv':
        # ('alias_recv', lineno, col): in the simple statement at that position the first call on a `self.<attr>[.<attr>]` receiver goes through a new
        # local: `_al = self.x.y` ; `_al.m(...)`
        import ast
        tree = ast.parse(raw)
        done = False
        for parent in ast.walk(tree):
            for field in ('body', 'orelse', 'finalbody'):
                lst = getattr(parent, field, None)
                if not isinstance(lst, list) or done:
                    continue
                for i, st in enumerate(lst):
                    if isinstance(st, ast.stmt) and (st.lineno, st.col_offset) == (old[1], old[2]) and isinstance(st, (ast.Expr, ast.Assign, ast.Return, ast.AugAssign)):
                        for n in ast.walk(st):
                            if isinstance(n, ast.Call) and isinstance(n.func, ast.Attribute):
                                v = n.func.value
                                chain = v
                                ok = False
                                while isinstance(chain, ast.Attribute):
                                    chain = chain.value
                                    ok = True
                                if ok and isinstance(chain, ast.Name) and chain.id == 'self':
                                    alias = ast.Assign(targets=[ast.Name(id='_al', ctx=ast.Store())], value=v)
                                    n.func.value = ast.Name(id='_al', ctx=ast.Load())
                                    lst.insert(i, alias)
                                    done = True
                                    break
                        break
        if not done:
            return False
        ast.fix_missing_locations(tree)
        with open(path, 'w', newline='') as f:
            f.write(ast.unparse(tree) + '\n')
        return True
    if isinstance(old, tuple) and old[0] == 'extract_stmt':
        # ('extract_stmt', lineno, col): the simple statement at that position (it only mentions self and module-level names) is moved into a new
        # method of the same class and replaced by a call of it
        import ast
        tree = ast.parse(raw)
        done = False
        for c in ast.walk(tree):
            if not isinstance(c, ast.ClassDef) or done:
                continue
            for m in c.body:
                if not isinstance(m, (ast.FunctionDef, ast.AsyncFunctionDef)) or done:
                    continue
                for parent in ast.walk(m):
                    for field in ('body', 'orelse', 'finalbody'):
                        lst = getattr(parent, field, None)
                        if not isinstance(lst, list) or done:
                            continue
                        for i, st in enumerate(lst):
                            if isinstance(st, ast.stmt) and (st.lineno, st.col_offset) == (old[1], old[2]):
                                name = f'_extracted_{old[1]}'
                                helper = ast.FunctionDef(name=name, args=ast.arguments(posonlyargs=[], args=[ast.arg(arg='self')], kwonlyargs=[], kw_defaults=[], defaults=[]),
                                                         body=[st], decorator_list=[], type_params=[])
                                lst[i] = ast.Expr(value=ast.Call(func=ast.Attribute(value=ast.Name(id='self', ctx=ast.Load()), attr=name, ctx=ast.Load()), args=[], keywords=[]))
                                c.body.append(helper)
                                done = True
                                break
        if not done:
            return False
        ast.fix_missing_locations(tree)
        with open(path, 'w', newline='') as f:
            f.write(ast.unparse(tree) + '\n')
        return True
    if isinstance(old, tuple) and old[0] == 'move_method':
        # ('move_method', lineno, col): the undecorated method defined at that position becomes the last statement of its class
        import ast
        tree = ast.parse(raw)
        done = False
        for c in ast.walk(tree):
            if isinstance(c, ast.ClassDef) and not done:
                for i, st in enumerate(c.body):
                    if isinstance(st, (ast.FunctionDef, ast.AsyncFunctionDef)) and (st.lineno, st.col_offset) == (old[1], old[2]) and i != len(c.body) - 1:
                        c.body.append(c.body.pop(i))
                        done = True
                        break
        if not done:
            return False
        with open(path, 'w', newline='') as f:
            f.write(ast.unparse(tree) + '\n')
        return True
    if isinstance(old, tuple) and old[0] in ('split_and', 'merge_ifs'):
        # `if a and b: X` (no else) <-> `if a:` + nested `if b: X`
        import ast
        tree = ast.parse(raw)
        done = False
        for st in ast.walk(tree):
            if isinstance(st, ast.If) and (st.lineno, st.col_offset) == (old[1], old[2]) and not st.orelse and not done:
                if old[0] == 'split_and' and isinstance(st.test, ast.BoolOp) and isinstance(st.test.op, ast.And):
                    first, rest = st.test.values[0], st.test.values[1:]
                    inner = ast.If(test=rest[0] if len(rest) == 1 else ast.BoolOp(op=ast.And(), values=rest), body=st.body, orelse=[])
                    st.test, st.body = first, [inner]
                    done = True
                elif old[0] == 'merge_ifs' and len(st.body) == 1 and isinstance(st.body[0], ast.If) and not st.body[0].orelse:
                    inner = st.body[0]
                    st.test = ast.BoolOp(op=ast.And(), values=[st.test, inner.test])
                    st.body = inner.body
                    done = True
        if not done:
            return False
        ast.fix_missing_locations(tree)
        with open(path, 'w', newline='') as f:
            f.write(ast.unparse(tree) + '\n')
        return True
    if isinstance(old, tuple) and old[0] in MODERNISE_KINDS:
        import ast
        tree = ast.parse(raw)
        if not modernise(tree, old[0], old[1], old[2]):
            return False
        ast.fix_missing_locations(tree)
        with open(path, 'w', newline='') as f:
            f.write(ast.unparse(tree) + '\n')
        return True
    if isinstance(old, tuple) and old[0] in ('insert_pass', 'invert_if'):
        # ('insert_pass', lineno, col) / ('invert_if', lineno, col): behaviour-preserving edit of the statement at that position
        import ast
        tree = ast.parse(raw)
        done = False
        for parent in ast.walk(tree):
            for field in ('body', 'orelse', 'finalbody'):
                lst = getattr(parent, field, None)
                if not isinstance(lst, list):
                    continue
                for i, st in enumerate(lst):
                    if isinstance(st, ast.stmt) and (st.lineno, st.col_offset) == (old[1], old[2]) and not done:
                        if old[0] == 'insert_pass':
                            lst.insert(i, ast.Pass())
                            done = True
                        elif isinstance(st, ast.If) and st.orelse:
                            st.test = st.test.operand if isinstance(st.test, ast.UnaryOp) and isinstance(st.test.op, ast.Not) else ast.UnaryOp(op=ast.Not(), operand=st.test)
                            st.body, st.orelse = st.orelse, st.body
                            done = True
                        break
        if not done:
            return False
        ast.fix_missing_locations(tree)
        with open(path, 'w', newline='') as f:
            f.write(ast.unparse(tree) + '\n')
        return True
    if isinstance(old, tuple) and old[0] == 'rename_local':
        # ('rename_local', 'Class.method.inner', name): scope-aware rename of a local variable on the syntax tree
        import ast
        tree = ast.parse(raw)
        if not rename_local(tree, old[1], old[2], new):
            return False
        with open(path, 'w', newline='') as f:
            f.write(ast.unparse(tree) + '\n')
        return True
    if isinstance(old, tuple):
        # ('rename', start_marker, end_marker, name): rename an identifier between two markers (each must occur)
        import re
        _, start, end, name = old
        if crlf:
            start = start.replace('\n', '\r\n')
            end = end.replace('\n', '\r\n')
        i = raw.find(start)
        j = (len(raw) if end == 'ZZZ-END' else raw.find(end, i + len(start))) if i >= 0 else -1
        if i < 0 or j < 0:
            return False
        region = raw[i:j]
        region2, n = re.subn(r'(?<![\w.])' + re.escape(name) + r'\b', new, region)
        if n == 0:
            return False
        with open(path, 'w', newline='') as f:
            f.write(raw[:i] + region2 + raw[j:])
        return True
    if crlf:
        old = old.replace('\r\n', '\n').replace('\n', '\r\n')
        new = new.replace('\r\n', '\n').replace('\n', '\r\n')
    if raw.count(old) != 1:
        return False
    with open(path, 'w', newline='') as f:
        f.write(raw.replace(old, new))
    return True


def find_scope(tree, qual):
    import ast
    node = tree
    for part in qual.split('.'):
        nxt = None
        for ch in ast.walk(node):
            if ch is not node and isinstance(ch, (ast.FunctionDef, ast.AsyncFunctionDef, ast.ClassDef)) and ch.name == part:
                nxt = ch
                break
        if nxt is None:
            return None
        node = nxt
    return node


def binds_locally(fn, name):
    """does function `fn` bind `name` itself (assignment, loop target, with/except alias, parameter) without nonlocal/global?"""
    import ast
    a = fn.args
    if name in [x.arg for x in a.posonlyargs + a.args + a.kwonlyargs] or (a.vararg and a.vararg.arg == name) or (a.kwarg and a.kwarg.arg == name):
        return True
    declared = False
    bound = False
    stack = list(fn.body)
    while stack:
        n = stack.pop()
        if isinstance(n, (ast.FunctionDef, ast.AsyncFunctionDef, ast.ClassDef, ast.Lambda)):
            if not isinstance(n, ast.Lambda) and n.name == name:
                bound = True
            continue
        if isinstance(n, (ast.Global, ast.Nonlocal)) and name in n.names:
            declared = True
        if isinstance(n, ast.Name) and n.id == name and isinstance(n.ctx, (ast.Store, ast.Del)):
            bound = True
        if isinstance(n, ast.ExceptHandler) and n.name == name:
            bound = True
        if isinstance(n, ast.alias) and (n.asname or n.name.split('.')[0]) == name:
            bound = True
        stack.extend(ast.iter_child_nodes(n))
    return bound and not declared


def rename_local(tree, qual, name, new):
    import ast
    fn = find_scope(tree, qual)
    if fn is None or not isinstance(fn, (ast.FunctionDef, ast.AsyncFunctionDef)):
        return False
    count = 0

    def visit(n, top):
        nonlocal count
        if not top and isinstance(n, (ast.FunctionDef, ast.AsyncFunctionDef)):
            if n.name == name:
                n.name = new
                count += 1
            if binds_locally(n, name):
                return
        if isinstance(n, ast.Name) and n.id == name:
            n.id = new
            count += 1
        if isinstance(n, ast.ExceptHandler) and n.name == name:
            n.name = new
            count += 1
        if isinstance(n, (ast.Global, ast.Nonlocal)) and name in n.names:
            n.names = [new if x == name else x for x in n.names]
        for ch in ast.iter_child_nodes(n):
            visit(ch, False)
    a = fn.args
    for x in a.posonlyargs + a.args + a.kwonlyargs + ([a.vararg] if a.vararg else []) + ([a.kwarg] if a.kwarg else []):
        if x.arg == name:
            x.arg = new
            count += 1
    visit(fn, True)
    return count > 0


def new_findings(repo, prop):
    """keys of findings of `prop` on `repo` that are not listed as known; raises AnalysisError"""
    mod = importlib.import_module(f'pwsa.rules.{prop.lower()}')
    prog = load(repo)
    an = Analyzer(prog)
    ctx = Ctx(prop, prog, an, 'quick', 0)
    mod.run(ctx)
    known = {k['key'] for k in load_known() if k.get('status') == 'known' and k.get('property') == prop}
    out = [f.key for f in ctx.findings if f.key not in known]
    if ctx.floor_failures and not out:
        raise AnalysisError('; '.join(ctx.floor_failures))
    return out


def run_variant(args):
    idx, repo, scratch, only_prop = args
    v = VARIANTS[idx]
    root = os.path.join(scratch, f'v{idx}')
    res = {'name': v['name'], 'kind': v['kind'], 'prop': v.get('prop'), 'status': None, 'detail': None}
    try:
        shutil.copytree(os.path.join(repo, 'pyworkers'), os.path.join(root, 'pyworkers'), ignore=shutil.ignore_patterns('__pycache__'))
        for rel, old, new in v['edits']:
            if not apply_edit(root, rel, old, new):
                res['status'] = 'skipped'
                res['detail'] = f'anchor text not found in {rel}'
                return res
        # must still compile
        for rel, _, _ in v['edits']:
            if rel == '__patch__':
                continue
            with open(os.path.join(root, rel), encoding='utf-8') as f:
                compile(f.read(), rel, 'exec')
        if v['kind'] == 'break':
            try:
                keys = new_findings(root, v['prop'])
            except AnalysisError as e:
                res['status'] = 'missed'
                res['detail'] = f'ANALYSIS-ERROR instead of a finding: {e}'
                return res
            want = v.get('expect')
            hit = [k for k in keys if (want is None or want in k)]
            res['status'] = 'detected' if hit else 'missed'
            res['detail'] = hit[:2] if hit else (keys[:3] or 'no finding')
        else:
            props = [only_prop] if only_prop else ALL_PROPS
            alarms = {}
            for p in props:
                try:
                    keys = new_findings(root, p)
                except AnalysisError as e:
                    keys = [f'ANALYSIS-ERROR {e}']
                if keys:
                    alarms[p] = keys[:2]
            res['status'] = 'silent' if not alarms else 'false-alarm'
            res['detail'] = alarms or None
    except Exception:
        res['status'] = 'error'
        res['detail'] = traceback.format_exc()[-600:]
    finally:
        shutil.rmtree(root, ignore_errors=True)
    return res


def run_selftest(repo, prop=None, jobs=16, names=None):
    todo = []
    for i, v in enumerate(VARIANTS):
        if names and v['name'] not in names:
            continue
        if prop and v['kind'] == 'break' and v['prop'] != prop:
            continue
        todo.append(i)
    scratch = tempfile.mkdtemp(prefix='pwsa-selftest-')
    t0 = time.time()
    try:
        with mp.Pool(min(jobs, max(1, len(todo)))) as pool:
            results = pool.map(run_variant, [(i, repo, scratch, prop) for i in todo], chunksize=1)
    finally:
        shutil.rmtree(scratch, ignore_errors=True)
    summary = {
        'variants': len(results),
        'broken_detected': sum(1 for r in results if r['status'] == 'detected'),
        'broken_missed': [r for r in results if r['status'] == 'missed'],
        'benign_silent': sum(1 for r in results if r['status'] == 'silent'),
        'benign_false_alarm': [r for r in results if r['status'] == 'false-alarm'],
        'skipped': [r['name'] for r in results if r['status'] == 'skipped'],
        'errors': [r for r in results if r['status'] == 'error'],
        'wall_s': round(time.time() - t0, 2),
        'results': results,
    }
    return summary


def main(argv=None):
    ap = argparse.ArgumentParser()
    ap.add_argument('--repo', default=os.environ.get('PWSA_REPO', '/repo'))
    ap.add_argument('--prop')
    ap.add_argument('--jobs', type=int, default=16)
    ap.add_argument('--list', action='store_true')
    ap.add_argument('--name', action='append')
    args = ap.parse_args(argv)
    if args.list:
        for v in VARIANTS:
            print(f"{v['kind']:6} {v.get('prop') or '-':4} {v['name']}")
        return 0
    s = run_selftest(args.repo, args.prop, args.jobs, args.name)
    for r in s['results']:
        if r['status'] in ('missed', 'false-alarm', 'error', 'skipped'):
            print(f"{r['status'].upper():12} {r['kind']:6} {r['prop'] or '-':4} {r['name']}: {r['detail']}")
    print(f"selftest: {s['variants']} variants, {s['broken_detected']} broken detected, {len(s['broken_missed'])} missed, "
          f"{s['benign_silent']} benign silent, {len(s['benign_false_alarm'])} false alarms, {len(s['skipped'])} skipped, {len(s['errors'])} errors, {s['wall_s']} s")
    return 0 if not (s['broken_missed'] or s['benign_false_alarm'] or s['errors']) else 3


if __name__ == '__main__':
    sys.exit(main())
