"""Product-state path exploration: CFG node x values of a few boolean local flags x a small counter.

Used where a plain path query would report infeasible paths through flag-correlated branches
(`dummy = True ... if dummy:`).  The flags are locals assigned only constants."""
import ast

from .astutil import norm, is_name
from .cfg import is_flow


def bool_flags(func_node):
    """locals that are only ever assigned True/False constants"""
    vals = {}
    for n in ast.walk(func_node):
        if isinstance(n, ast.Assign) and len(n.targets) == 1 and isinstance(n.targets[0], ast.Name):
            ok = isinstance(n.value, ast.Constant) and isinstance(n.value.value, bool)
            vals.setdefault(n.targets[0].id, []).append(ok)
        elif isinstance(n, (ast.AugAssign, ast.For, ast.With, ast.NamedExpr)):
            for t in ast.walk(n.target if hasattr(n, 'target') else n):
                if isinstance(t, ast.Name) and isinstance(getattr(t, 'ctx', None), ast.Store):
                    vals.setdefault(t.id, []).append(False)
    return {k for k, v in vals.items() if all(v)}


def explore(g, starts, count_ids, stop, flags=None, edge_ok=None, cap=2, init_flags=None):
    """Explore from `starts`; returns the set of counter values (0..cap) with which a stop(n) node is reached.
    count_ids: node ids whose traversal increments the counter."""
    flags = flags or set()
    edge_ok = edge_ok or is_flow
    results = {}
    seen = set()
    stack = []
    for s in starts:
        st = (s.id, tuple(sorted((init_flags or {}).items())), 0)
        seen.add(st)
        stack.append((s, dict(init_flags or {}), 0, ()))
    while stack:
        n, fl, cnt, trail = stack.pop()
        if n.id in count_ids:
            cnt = min(cap, cnt + 1)
        if n.kind == 'stmt' and n.part in (None, 'store') and isinstance(n.stmt, ast.Assign) and len(n.stmt.targets) == 1 \
                and isinstance(n.stmt.targets[0], ast.Name) and n.stmt.targets[0].id in flags and isinstance(n.stmt.value, ast.Constant):
            fl = dict(fl)
            fl[n.stmt.targets[0].id] = bool(n.stmt.value.value)
        if stop(n) and trail:
            results.setdefault(cnt, trail)
            continue
        for e in n.succ:
            if not edge_ok(e):
                continue
            if n.kind == 'test' and e.branch in ('true', 'false') and isinstance(n.stmt, (ast.If, ast.While)):
                t = n.stmt.test
                neg = False
                if isinstance(t, ast.UnaryOp) and isinstance(t.op, ast.Not):
                    t, neg = t.operand, True
                if isinstance(t, ast.Name) and t.id in flags and t.id in fl:
                    val = fl[t.id] != neg
                    if (e.branch == 'true') != val:
                        continue
            key = (e.dst.id, tuple(sorted(fl.items())), cnt)
            if key in seen:
                continue
            seen.add(key)
            stack.append((e.dst, fl, cnt, trail + (e,) if len(trail) < 60 else trail))
    return results
