"""E1 - loader and resolved program.

Parses every module of the package, builds module / class / function tables,
resolves imports and aliases, computes the C3 linearisation of every class and
resolves ``self.m`` / ``super().m`` / ``Class.m`` / plain-name calls per
*concrete* class.  Nothing is imported or executed.
"""
import ast
import copy
import os

from .astutil import AnalysisError, dotted, walk_local, is_name

MANDATORY_MODULES = [
    'worker', 'thread', 'process', 'remote', 'persistent', 'persistent_thread',
    'persistent_process', 'persistent_remote', 'pool', 'remote_server',
    'remote_context', 'remote_pickle', 'utils',
    '_remote_pickle.remote_pickler_3_6', '_remote_pickle.state',
]


# ---------------------------------------------------------------------------------------------------- wrapper inlining
def _simple_arg(e):
    """an argument expression that may be substituted for the parameter: a name, a constant, an attribute chain on a name"""
    if isinstance(e, (ast.Name, ast.Constant)):
        return True
    return isinstance(e, ast.Attribute) and _simple_arg(e.value)


def _first_evaluated_node(test):
    t = test
    while True:
        if isinstance(t, ast.UnaryOp) and isinstance(t.op, ast.Not):
            t = t.operand
        elif isinstance(t, ast.BoolOp):
            t = t.values[0]
        elif isinstance(t, ast.Compare):
            t = t.left
        else:
            return t


def _tailify(stmts, var):
    """rewrite `return E` statements that are in tail position (the last statement of the list, recursively through a trailing if / try / with) into
    `var = E`; None if a return sits anywhere else"""
    if not stmts:
        return stmts
    # a guard clause `if c: ...; return [E]` in front of the rest of the block is `if c: ...; return [E]` / `else: <rest>`
    for i, st in enumerate(stmts[:-1]):
        if isinstance(st, ast.If) and not st.orelse and st.body and isinstance(st.body[-1], ast.Return):
            st.orelse = stmts[i + 1:]
            stmts = stmts[:i + 1]
            break
    for st in stmts[:-1]:
        if any(isinstance(x, ast.Return) for x in ast.walk(st)):
            return None
    last = stmts[-1]
    if isinstance(last, ast.Return):
        new = ast.Assign(targets=[ast.Name(id=var, ctx=ast.Store())], value=last.value if last.value is not None else ast.Constant(value=None))
        ast.copy_location(new, last)
        ast.fix_missing_locations(new)
        return stmts[:-1] + [new]
    if isinstance(last, ast.If):
        a, b = _tailify(last.body, var), _tailify(last.orelse, var)
        if a is None or b is None:
            return None
        last.body, last.orelse = a, b
        return stmts
    if isinstance(last, (ast.With,)):
        a = _tailify(last.body, var)
        if a is None:
            return None
        last.body = a
        return stmts
    if isinstance(last, ast.Try):
        if last.finalbody and any(isinstance(x, ast.Return) for st in last.finalbody for x in ast.walk(st)):
            return None
        if last.orelse and any(isinstance(x, ast.Return) for st in last.body for x in ast.walk(st)):
            return None
        parts = [last.body, last.orelse] + [h.body for h in last.handlers]
        outs = [_tailify(p0, var) for p0 in parts]
        if any(o is None for o in outs):
            return None
        last.body, last.orelse = outs[0], outs[1]
        for h, o in zip(last.handlers, outs[2:]):
            h.body = o
        return stmts
    if any(isinstance(x, ast.Return) for x in ast.walk(last)):
        return None
    return stmts


def _always_assigns(stmts, var):
    """every way through the statement list (that does not raise) ends with an assignment to var made by _tailify"""
    if not stmts:
        return False
    last = stmts[-1]
    if isinstance(last, ast.Assign) and len(last.targets) == 1 and isinstance(last.targets[0], ast.Name) and last.targets[0].id == var:
        return True
    if isinstance(last, ast.Raise):
        return True
    if isinstance(last, ast.If):
        return _always_assigns(last.body, var) and _always_assigns(last.orelse, var)
    if isinstance(last, ast.With):
        return _always_assigns(last.body, var)
    if isinstance(last, ast.Try):
        return _always_assigns(last.orelse if last.orelse else last.body, var) and all(_always_assigns(h.body, var) for h in last.handlers)
    return False


def scalarise_local_records(modules):
    """A local bound once to `C()` - C a module-level @dataclass of the package whose fields all have literal defaults - that is only ever used through
    its fields (`v.f` read, assigned, augmented; never passed on, returned, stored or compared as a whole) is analysed as one local per field:
    `v = C()` becomes `v__f = <default>` for every field and `v.f` becomes `v__f`.  After the helpers that received the record have been inlined this
    turns a little state object back into the plain locals the rules read.  Returns the number of scalarised locals."""
    count = 0
    for mod in modules.values():
        records = {}
        for c in mod.tree.body:
            if isinstance(c, ast.ClassDef) and any((isinstance(d, ast.Name) and d.id == 'dataclass') or (isinstance(d, ast.Attribute) and d.attr == 'dataclass') or
                                                   (isinstance(d, ast.Call) and 'dataclass' in dotted(d.func or '')) for d in c.decorator_list):
                fields = {}
                ok = True
                for st in c.body:
                    if isinstance(st, ast.Expr) and isinstance(st.value, ast.Constant):
                        continue
                    if isinstance(st, ast.AnnAssign) and isinstance(st.target, ast.Name) and isinstance(st.value, ast.Constant):
                        fields[st.target.id] = st.value
                    elif isinstance(st, ast.Assign) and len(st.targets) == 1 and isinstance(st.targets[0], ast.Name) and isinstance(st.value, ast.Constant):
                        fields[st.targets[0].id] = st.value
                    elif isinstance(st, ast.Pass):
                        continue
                    else:
                        ok = False
                if ok and fields:
                    records[c.name] = fields
        if not records:
            continue
        for fn in ast.walk(mod.tree):
            if not isinstance(fn, (ast.FunctionDef, ast.AsyncFunctionDef)):
                continue
            parents = {}
            for n in ast.walk(fn):
                for ch in ast.iter_child_nodes(n):
                    parents[ch] = n
            for st in list(ast.walk(fn)):
                if not (isinstance(st, ast.Assign) and len(st.targets) == 1 and isinstance(st.targets[0], ast.Name) and isinstance(st.value, ast.Call)
                        and isinstance(st.value.func, ast.Name) and st.value.func.id in records and not st.value.args and not st.value.keywords):
                    continue
                v = st.targets[0].id
                fields = records[st.value.func.id]
                names = [n for n in ast.walk(fn) if isinstance(n, ast.Name) and n.id == v]
                if sum(isinstance(n.ctx, ast.Store) for n in names) != 1:
                    continue
                if any(not (isinstance(parents.get(n), ast.Attribute) and parents[n].value is n and parents[n].attr in fields) for n in names if n is not st.targets[0]):
                    continue
                for n in names:
                    if n is st.targets[0]:
                        continue
                    at = parents[n]
                    ctx0 = at.ctx
                    keep = {k: getattr(at, k) for k in ('lineno', 'col_offset', 'end_lineno', 'end_col_offset') if hasattr(at, k)}
                    field = at.attr
                    at.__class__ = ast.Name
                    at.__dict__.clear()
                    at.__dict__.update(dict(id=f'{v}__{field}', ctx=ctx0, **keep))
                # the constructor call becomes the field initialisations
                holder = parents.get(st)
                for fld in ('body', 'orelse', 'finalbody'):
                    lst = getattr(holder, fld, None)
                    if isinstance(lst, list) and any(x is st for x in lst):
                        i = [k for k, x in enumerate(lst) if x is st][0]
                        new = []
                        for k, (fname, dflt) in enumerate(fields.items()):
                            a0 = ast.Assign(targets=[ast.Name(id=f'{v}__{fname}', ctx=ast.Store())], value=copy.deepcopy(dflt), type_comment=None)
                            ast.copy_location(a0, st)
                            ast.fix_missing_locations(a0)
                            a0.lineno = st.lineno + k / 100000.0
                            new.append(a0)
                        lst[i:i + 1] = new
                        break
                count += 1
    return count


def propagate_inlined_temporaries(modules):
    """A temporary created by the inliner (`<name>__<helper>`) that is assigned once, `t = E`, and read once, as the whole value of a later plain
    assignment `x = t` in the same block with nothing but other such temporaries defined in between, is removed: `x = E` takes the place of the
    definition.  Returns the number of removed temporaries."""
    count = 0
    for mod in modules.values():
        for fn in ast.walk(mod.tree):
            if not isinstance(fn, (ast.FunctionDef, ast.AsyncFunctionDef)):
                continue
            uses = {}
            for n in ast.walk(fn):
                if isinstance(n, ast.Name) and '__' in n.id and not n.id.startswith('__'):
                    uses.setdefault(n.id, []).append(n)
            for parent in ast.walk(fn):
                for field in ('body', 'orelse', 'finalbody'):
                    lst = getattr(parent, field, None)
                    if not isinstance(lst, list):
                        continue
                    # a result variable assigned in the branches of one statement and copied once, `x = t`, right behind it: the branches assign x
                    j = 0
                    while j + 1 < len(lst):
                        nx = lst[j + 1]
                        if isinstance(nx, ast.Assign) and len(nx.targets) == 1 and isinstance(nx.targets[0], ast.Name) and isinstance(nx.value, ast.Name) \
                                and nx.value.id in uses and not isinstance(lst[j], ast.Assign):
                            t = nx.value.id
                            us = uses[t]
                            loads = [u for u in us if isinstance(u.ctx, ast.Load)]
                            inside = [u for u in us if any(u is y for y in ast.walk(lst[j]))]
                            if len(loads) == 1 and loads[0] is nx.value and len(inside) == len(us) - 1 and inside and \
                                    not any(isinstance(y, ast.Name) and y.id == nx.targets[0].id for y in ast.walk(lst[j])):
                                for u in inside:
                                    u.id = nx.targets[0].id
                                lst.pop(j + 1)
                                del uses[t]
                                count += 1
                                continue
                        j += 1
                    changed = True
                    while changed:
                        changed = False
                        for i, st in enumerate(lst):
                            if not (isinstance(st, ast.Assign) and len(st.targets) == 1 and isinstance(st.targets[0], ast.Name) and st.targets[0].id in uses):
                                continue
                            t = st.targets[0].id
                            us = uses[t]
                            loads = [u for u in us if isinstance(u.ctx, ast.Load)]
                            if len(us) > 2 and len(loads) == 1 and not any(isinstance(u.ctx, ast.Del) for u in us):
                                # a result variable assigned in several branches and copied once, `x = t`, right behind the statement that
                                # assigns it: the branches are analysed as assigning x
                                done = False
                                for j in range(len(lst) - 1):
                                    nx = lst[j + 1]
                                    if isinstance(nx, ast.Assign) and len(nx.targets) == 1 and isinstance(nx.targets[0], ast.Name) and nx.value is loads[0] \
                                            and any(u is not loads[0] and any(u is y for y in ast.walk(lst[j])) for u in us) \
                                            and not any(isinstance(y, ast.Name) and y.id == nx.targets[0].id for y in ast.walk(lst[j])):
                                        stores_outside = [u for u in us if u is not loads[0] and not any(u is y for y in ast.walk(lst[j]))]
                                        if stores_outside:
                                            break
                                        for u in us:
                                            if u is not loads[0]:
                                                u.id = nx.targets[0].id
                                        lst.pop(j + 1)
                                        del uses[t]
                                        count += 1
                                        changed = done = True
                                        break
                                if done:
                                    break
                                continue
                            if len(us) != 2 or sum(isinstance(u.ctx, ast.Store) for u in us) != 1:
                                continue
                            for j in range(i + 1, len(lst)):
                                nx = lst[j]
                                if isinstance(nx, ast.Assign) and len(nx.targets) == 1 and isinstance(nx.value, ast.Name) and nx.value.id == t:
                                    nx.value = st.value
                                    nx.lineno = st.lineno
                                    if hasattr(st, 'orig_lineno'):
                                        nx.orig_lineno = st.orig_lineno
                                    # the receiving assignment moves to where the value was computed
                                    lst.pop(j)
                                    lst[i] = nx
                                    del uses[t]
                                    count += 1
                                    changed = True
                                    break
                                if not (isinstance(nx, ast.Assign) and len(nx.targets) == 1 and isinstance(nx.targets[0], ast.Name) and nx.targets[0].id in uses):
                                    break
                            if changed:
                                break
    return count


_VOCABULARY = None


def _rule_vocabulary():
    """private names the rules themselves mention as quoted identifiers: the anchors of the protocol (`_start`, `_run`, `_close`, `_cleanup`, ...).
    They are never absorbed - only helpers the rules have never heard of are."""
    global _VOCABULARY
    if _VOCABULARY is None:
        import glob
        import re
        names = set()
        here = os.path.dirname(os.path.abspath(__file__))
        for fpath in glob.glob(os.path.join(here, '**', '*.py'), recursive=True):
            if os.path.basename(fpath) in ('variants.py', 'selftest.py'):
                continue
            with open(fpath, encoding='utf-8') as fh:
                names |= set(re.findall(r"['\"](_[a-z][a-z0-9_]*)['\"]", fh.read()))
        _VOCABULARY = names
    return _VOCABULARY


def absorb_private_helpers(modules, rounds=4):
    """Resolve private helpers before anything is analysed (Min et al.: treat a wrapper as what its body does).

    A helper H - a method called as `self.H(...)`, a static method, or a module-level function called as `H(...)` - is *absorbed*: every call of it
    is replaced by its body (parameters bound or substituted, locals renamed, the value of its single trailing `return` handed to the call site),
    preceded by the marker call `__pwsa_inlined__('H')` where entering the helper is a landing point of its own, and the definition is dropped -
    when nothing but inlining can be meant by a call of it:
      * the name is private (one leading underscore, no dunder), is defined exactly once in the whole package (no override, no namesake), undecorated
        (or a plain @staticmethod), without *args / **kwargs;
      * its body has at most one `return`, as its last statement; no yield / await, no nested function or class, no `super()`, no recursion;
      * every mention of the name in the package is a call with plain positional / keyword arguments in one of the positions the inliner can rewrite:
        a whole expression statement, the value of an assignment, the value of a `return` (possibly under `not`), or the first thing an `if` test
        evaluates; the name is never used as a value (thread target, callback) and never looked up through a string.
    The rules then judge what the program does, not in which function a statement happens to sit: extracting statements into such a helper, or merging
    duplicated code of two branches into one, changes no verdict unless the helper's body really differs.  Returns the list of absorbed names."""
    absorbed = []
    for _ in range(rounds):
        defs = {}
        strings = set()
        count = {}
        for mod in modules.values():
            for n in ast.walk(mod.tree):
                if isinstance(n, ast.Constant) and isinstance(n.value, str):
                    strings.add(n.value)
                if isinstance(n, (ast.FunctionDef, ast.AsyncFunctionDef)):
                    count[n.name] = count.get(n.name, 0) + 1
            for st in mod.tree.body:
                if isinstance(st, ast.FunctionDef):
                    defs.setdefault(st.name, []).append((mod, None, st))
            for st in ast.walk(mod.tree):
                if isinstance(st, ast.ClassDef):        # nested classes included
                    for m in st.body:
                        if isinstance(m, ast.FunctionDef):
                            defs.setdefault(m.name, []).append((mod, st, m))
        cands = {}
        vocabulary = _rule_vocabulary()
        for name, lst in defs.items():
            if len(lst) != 1 or count.get(name, 0) != 1 or not name.startswith('_') or name.startswith('__') or name in strings:
                continue
            if name in vocabulary:
                continue        # a function the rules address by name (an anchor of the protocol) is analysed where it stands
            mod, c, f = lst[0]
            a = f.args
            static = False
            if f.decorator_list:
                if c is not None and len(f.decorator_list) == 1 and isinstance(f.decorator_list[0], ast.Name) and f.decorator_list[0].id == 'staticmethod':
                    static = True
                else:
                    continue
            if a.vararg or a.kwarg or a.posonlyargs:
                continue
            params = [x.arg for x in a.args]
            if c is not None and not static:
                if not params or params[0] != 'self':
                    continue
                params = params[1:]
            defaults = dict(zip([x.arg for x in a.args][len(a.args) - len(a.defaults):], a.defaults))
            defaults.update({x.arg: d for x, d in zip(a.kwonlyargs, a.kw_defaults) if d is not None})
            params += [x.arg for x in a.kwonlyargs]
            body = [st for st in f.body if not (isinstance(st, ast.Expr) and isinstance(st.value, ast.Constant))]
            ret = None
            n_returns = sum(isinstance(x, ast.Return) for st in body for x in ast.walk(st))
            if body and isinstance(body[-1], ast.Return) and n_returns == 1:
                ret = body[-1].value
                body = body[:-1]
            elif n_returns:
                # returns in tail position of a trailing if / try / with: each becomes an assignment to a result variable
                tb = _tailify(copy.deepcopy(body), f'result__{name}')
                if tb is None:
                    continue
                body = ([] if _always_assigns(tb, f'result__{name}') else
                        [ast.Assign(targets=[ast.Name(id=f'result__{name}', ctx=ast.Store())], value=ast.Constant(value=None))]) + tb
                for st in body:
                    ast.copy_location(st, f.body[0]) if not hasattr(st, 'lineno') else None
                    ast.fix_missing_locations(st)
                ret = ast.Name(id=f'result__{name}', ctx=ast.Load())
                ast.copy_location(ret, f.body[-1])
            if not body and ret is None:
                continue
            bad = False
            for st in body + ([ast.Expr(value=ret)] if ret is not None else []):
                for n in ast.walk(st):
                    if isinstance(n, (ast.Return, ast.Yield, ast.YieldFrom, ast.Await, ast.FunctionDef, ast.AsyncFunctionDef, ast.ClassDef, ast.Lambda, ast.Global, ast.Nonlocal)):
                        bad = True
                    if isinstance(n, ast.Name) and n.id in ('super', name):
                        bad = True
                    if isinstance(n, ast.Attribute) and n.attr == name:
                        bad = True          # recursive
            if not bad:
                cands[name] = dict(mod=mod, cls=c, f=f, body=body, ret=ret, params=params, defaults=defaults, static=static)
        if not cands:
            break
        # reference census: every mention must be a call in a position the inliner can rewrite
        sites = {name: [] for name in cands}
        for mod in modules.values():
            parents = {}
            for n in ast.walk(mod.tree):
                for ch in ast.iter_child_nodes(n):
                    parents[ch] = n

            def enclosing_stmt(x):
                while x in parents and not isinstance(x, ast.stmt):
                    x = parents[x]
                return x if isinstance(x, ast.stmt) else None
            for n in ast.walk(mod.tree):
                ref = None
                if isinstance(n, ast.Attribute) and n.attr in cands and cands[n.attr] is not None:
                    ref = n.attr
                    cd = cands[ref]
                    recv_ok = cd['cls'] is not None and isinstance(n.value, ast.Name) and (n.value.id == 'self' or (cd['static'] and n.value.id == cd['cls'].name))
                    if isinstance(n.ctx, ast.Store) or not recv_ok:
                        cands[ref] = None
                        continue
                elif isinstance(n, ast.Name) and n.id in cands and cands[n.id] is not None:
                    ref = n.id
                    if cands[ref]['cls'] is not None or isinstance(n.ctx, ast.Store):
                        cands[ref] = None
                        continue
                if ref is None:
                    continue
                cd = cands[ref]
                if isinstance(parents.get(n), ast.FunctionDef) and parents.get(n) is cd['f']:
                    continue
                call = parents.get(n)
                if not (isinstance(call, ast.Call) and call.func is n) or any(isinstance(x, ast.Starred) for x in call.args) or any(k.arg is None for k in call.keywords):
                    cands[ref] = None
                    continue
                if len(call.args) > len(cd['params']) or any(k.arg not in cd['params'] for k in call.keywords):
                    cands[ref] = None
                    continue
                bound = set(cd['params'][:len(call.args)]) | {k.arg for k in call.keywords}
                if any(p0 not in bound and p0 not in cd['defaults'] for p0 in cd['params']):
                    cands[ref] = None
                    continue
                stmt = enclosing_stmt(call)
                holder = parents.get(stmt)
                form = None
                if isinstance(stmt, ast.Expr) and stmt.value is call:
                    form = 'expr'
                elif isinstance(stmt, ast.Assign) and stmt.value is call and cd['ret'] is not None:
                    form = 'assign'
                elif isinstance(stmt, ast.Return) and cd['ret'] is not None and (stmt.value is call or (
                        isinstance(stmt.value, ast.UnaryOp) and isinstance(stmt.value.op, ast.Not) and stmt.value.operand is call)):
                    form = 'return'
                elif isinstance(stmt, ast.If) and cd['ret'] is not None and _first_evaluated_node(stmt.test) is call and not (
                        isinstance(holder, ast.If) and holder.orelse and holder.orelse[0] is stmt and len(holder.orelse) == 1 and stmt.col_offset == holder.col_offset):
                    form = 'if'
                if form is None or holder is None or any(stmt in (parents.get(x),) for x in ()):
                    cands[ref] = None
                    continue
                # not inside the helper itself, and not inside another candidate's definition that may be dropped in this round
                sites[ref].append((holder, stmt, call, form))
        done_any = False
        inlined_in = set()
        for name, cd in list(cands.items()):
            if cd is None or not sites.get(name):
                continue
            # a helper whose own body received inlined code in this round is left for the next round (its body changed under our feet)
            if id(cd['f']) in inlined_in:
                continue
            body, ret, params, defaults = cd['body'], cd['ret'], cd['params'], cd['defaults']
            stored = {x.id for st in body for x in ast.walk(st) if isinstance(x, ast.Name) and isinstance(x.ctx, (ast.Store, ast.Del))} | \
                     {h.name for st in body for h in ast.walk(st) if isinstance(h, ast.ExceptHandler) and h.name}
            ok_all = True
            plans = []
            for holder, stmt, call, form in sites[name]:
                argmap = dict(zip(params, call.args))
                argmap.update({k.arg: k.value for k in call.keywords})
                for p0 in params:
                    if p0 not in argmap:
                        argmap[p0] = defaults[p0]
                plans.append((holder, stmt, call, form, argmap))
            for holder, stmt, call, form, argmap in plans:
                subst = {p0: a0 for p0, a0 in argmap.items() if _simple_arg(a0) and p0 not in stored}
                binds = [(p0, a0) for p0, a0 in argmap.items() if p0 not in subst]
                rename = stored | {p0 for p0, _ in binds}
                new = copy.deepcopy(body)
                newret = copy.deepcopy(ret) if ret is not None else None

                def rewrite(node):
                    for x in list(ast.walk(node)):
                        if isinstance(x, ast.ExceptHandler) and x.name in rename:
                            x.name = f'{x.name}__{name}'
                    class T(ast.NodeTransformer):
                        def visit_Name(self, x):
                            if x.id in subst and isinstance(x.ctx, ast.Load):
                                return ast.copy_location(copy.deepcopy(subst[x.id]), x)
                            if x.id in rename:
                                x.id = f'{x.id}__{name}'
                            return x
                    return T().visit(node)
                new = [rewrite(st) for st in new]
                pre = [ast.Assign(targets=[ast.Name(id=f'{p0}__{name}', ctx=ast.Store())], value=copy.deepcopy(a0)) for p0, a0 in binds]
                if newret is not None:
                    newret = rewrite(ast.Expr(value=newret)).value
                tail = []
                if form == 'expr':
                    if newret is not None and any(isinstance(x, ast.Call) for x in ast.walk(newret)):
                        tail = [ast.Expr(value=newret)]
                elif form == 'assign':
                    tail = [ast.Assign(targets=stmt.targets, value=newret)]
                elif form == 'return':
                    v = newret if stmt.value is call else ast.UnaryOp(op=ast.Not(), operand=newret)
                    tail = [ast.Return(value=v)]
                elif form == 'if':
                    tmp = f'ret__{name}'
                    tail = [ast.Assign(targets=[ast.Name(id=tmp, ctx=ast.Store())], value=newret)]
                seq = pre + new + tail
                if not seq:
                    seq = [ast.Pass()]
                # fractional line numbers between the call site and the next line (real positions kept in orig_lineno for reports)
                linenos = [x.lineno for st in seq for x in ast.walk(st) if hasattr(x, 'lineno')]
                first = min(linenos, default=stmt.lineno)
                span = max(linenos, default=first) - first + 2
                k = 0
                for st in seq:
                    ast.fix_missing_locations(ast.copy_location(st, st) if hasattr(st, 'lineno') else ast.copy_location(st, stmt))
                for st in seq:
                    for x in ast.walk(st):
                        if hasattr(x, 'lineno'):
                            x.orig_lineno = getattr(x, 'orig_lineno', x.lineno if st not in pre and st not in tail else stmt.lineno)
                            base = x.lineno if (st not in pre and st not in tail) else (first - 1 if st in pre else first + span - 1)
                            x.lineno = stmt.lineno + (base - first + 2) / 10000.0 - (0.5 if form == 'if' else 0)
                        if getattr(x, 'end_lineno', None) is not None:
                            x.end_lineno = x.lineno
                marker = ast.Expr(value=ast.Call(func=ast.Name(id='__pwsa_inlined__', ctx=ast.Load()), args=[ast.Constant(value=name)], keywords=[]))
                ast.copy_location(marker, stmt)
                ast.fix_missing_locations(marker)
                if form == 'if':
                    marker.lineno = stmt.lineno - 0.6
                placed = False
                for field in ('body', 'orelse', 'finalbody'):
                    lst = getattr(holder, field, None)
                    if isinstance(lst, list) and any(x is stmt for x in lst):
                        i = [k2 for k2, x in enumerate(lst) if x is stmt][0]
                        first_is_landing = bool(new) and not pre and any(isinstance(x, ast.Call) for x in ast.walk(new[0])) and \
                            not isinstance(new[0], (ast.If, ast.While, ast.For, ast.Try, ast.With))
                        head = [] if first_is_landing else [marker]
                        if form == 'if':
                            # the call inside the test becomes the temporary
                            call.__class__ = ast.Name
                            keep = {k2: getattr(call, k2) for k2 in ('lineno', 'col_offset', 'end_lineno', 'end_col_offset') if hasattr(call, k2)}
                            call.__dict__.clear()
                            call.__dict__.update(dict(id=f'ret__{name}', ctx=ast.Load(), **keep))
                            lst[i:i] = head + seq
                        else:
                            lst[i:i + 1] = head + seq
                        placed = True
                        break
                if not placed:
                    ok_all = False
                fn_holder = holder
                inlined_in.add(id(fn_holder))
            if not ok_all:
                continue
            if cd['cls'] is not None:
                cd['cls'].body = [st for st in cd['cls'].body if st is not cd['f']] or [ast.Pass()]
                absorbed.append(f"{cd['cls'].name}.{name}")
            else:
                cd['mod'].tree.body = [st for st in cd['mod'].tree.body if st is not cd['f']]
                absorbed.append(f"{cd['mod'].name.split('.')[-1]}.{name}")
            done_any = True
            break      # one helper per round: the census (parents, sites) is stale after a rewrite
        if not done_any:
            break
    return absorbed


def resolve_self_aliases(modules):
    """Copy propagation for locals that merely name a `self.<attr>[.<attr>...]` chain: `sock = self._socket; sock.close()` is analysed as
    `self._socket.close()`.  A local qualifies when it is assigned exactly once in its function (a plain `name = chain`), is not a parameter, is never
    stored in any other way, and the function never assigns to the chain or to a prefix of it (so the name and the chain denote the same object
    wherever the name is used).  Uses that come textually after the assignment are replaced; the assignment itself stays.  Returns the number of
    resolved aliases."""
    count = 0

    def chain_of(v):
        parts = []
        cur = v
        while isinstance(cur, ast.Attribute):
            parts.append(cur.attr)
            cur = cur.value
        if parts and isinstance(cur, ast.Name) and cur.id == 'self':
            return tuple(reversed(parts))
        return None
    for mod in modules.values():
        for fn in ast.walk(mod.tree):
            if not isinstance(fn, (ast.FunctionDef, ast.AsyncFunctionDef)):
                continue
            a = fn.args
            params = {x.arg for x in a.posonlyargs + a.args + a.kwonlyargs} | ({a.vararg.arg} if a.vararg else set()) | ({a.kwarg.arg} if a.kwarg else set())
            stores = {}
            other_binding = set()
            for n in ast.walk(fn):
                if isinstance(n, ast.Name) and isinstance(n.ctx, (ast.Store, ast.Del)):
                    stores.setdefault(n.id, []).append(n)
                if isinstance(n, (ast.Global, ast.Nonlocal)):
                    other_binding.update(n.names)
                if isinstance(n, ast.ExceptHandler) and n.name:
                    other_binding.add(n.name)
                if isinstance(n, (ast.FunctionDef, ast.AsyncFunctionDef, ast.ClassDef)) and n is not fn:
                    other_binding.add(n.name)
            for st in ast.walk(fn):
                if not (isinstance(st, ast.Assign) and len(st.targets) == 1 and isinstance(st.targets[0], ast.Name)):
                    continue
                name = st.targets[0].id
                chain = chain_of(st.value)
                if chain is None or name in params or name in other_binding or len(stores.get(name, [])) != 1:
                    continue
                later_store = False
                for n in ast.walk(fn):
                    if isinstance(n, ast.Attribute) and isinstance(n.ctx, (ast.Store, ast.Del)) and (n.lineno, n.col_offset) > (st.lineno, st.col_offset):
                        c = chain_of(n)
                        if c and chain[:len(c)] == c:
                            later_store = True
                if later_store:
                    continue
                used = False
                early_use = any(isinstance(n, ast.Name) and n.id == name and isinstance(n.ctx, ast.Load) and (n.lineno, n.col_offset) <= (st.lineno, st.col_offset) for n in ast.walk(fn))
                for n in ast.walk(fn):
                    if isinstance(n, ast.Name) and n.id == name and isinstance(n.ctx, ast.Load) and (n.lineno, n.col_offset) > (st.lineno, st.col_offset):
                        # rewrite this node in place into the chain
                        new = copy.deepcopy(st.value)
                        for x in ast.walk(new):
                            if hasattr(x, 'lineno'):
                                x.lineno, x.col_offset = n.lineno, n.col_offset
                                x.end_lineno, x.end_col_offset = getattr(n, 'end_lineno', n.lineno), getattr(n, 'end_col_offset', n.col_offset)
                        n.__class__ = ast.Attribute
                        n.__dict__.clear()
                        n.__dict__.update(new.__dict__)
                        used = True
                if used:
                    count += 1
                    if not early_use:
                        # every use has been rewritten: the assignment is a dead store now
                        st.__class__ = ast.Pass
                        keep = {k: getattr(st, k) for k in ('lineno', 'col_offset', 'end_lineno', 'end_col_offset') if hasattr(st, k)}
                        st.__dict__.clear()
                        st.__dict__.update(keep)
    return count


def desugar_suppress(modules):
    """`with contextlib.suppress(E1, E2): B` (one item, no `as`) is analysed as `try: B` / `except (E1, E2): pass` - which is what it does: the
    exit of the context manager swallows exactly the exceptions an except clause of those types would catch.  Without this the control-flow graph
    would treat the block as transparent to exceptions: a swallowing `with` added by a change would go unnoticed and a try/except/pass modernised
    into this form would be reported as letting its exceptions escape.  Returns the number of rewritten statements."""
    count = 0
    for mod in modules.values():
        mod_alias, fn_alias = set(), set()
        for n in ast.walk(mod.tree):
            if isinstance(n, ast.Import):
                mod_alias |= {(a.asname or a.name) for a in n.names if a.name == 'contextlib'}
            if isinstance(n, ast.ImportFrom) and n.module == 'contextlib' and not n.level:
                fn_alias |= {(a.asname or a.name) for a in n.names if a.name == 'suppress'}
        if not (mod_alias or fn_alias):
            continue
        for st in ast.walk(mod.tree):
            if not (isinstance(st, ast.With) and len(st.items) == 1 and st.items[0].optional_vars is None):
                continue
            call = st.items[0].context_expr
            if not (isinstance(call, ast.Call) and not call.keywords and not any(isinstance(a, ast.Starred) for a in call.args)):
                continue
            f = call.func
            if not ((isinstance(f, ast.Name) and f.id in fn_alias) or
                    (isinstance(f, ast.Attribute) and f.attr == 'suppress' and isinstance(f.value, ast.Name) and f.value.id in mod_alias)):
                continue
            pos = {k: getattr(st, k) for k in ('lineno', 'col_offset', 'end_lineno', 'end_col_offset') if hasattr(st, k)}
            hpos = dict(pos, end_lineno=pos['lineno'], end_col_offset=pos['col_offset'] + 4)
            if not call.args:
                typ = ast.Tuple(elts=[], ctx=ast.Load(), **hpos)        # suppress() swallows nothing
            elif len(call.args) == 1:
                typ = call.args[0]
            else:
                typ = ast.Tuple(elts=list(call.args), ctx=ast.Load(), **hpos)
            handler = ast.ExceptHandler(type=typ, name=None, body=[ast.Pass(**hpos)], **hpos)
            body = st.body
            st.__class__ = ast.Try
            st.__dict__.clear()
            st.__dict__.update(dict(body=body, handlers=[handler], orelse=[], finalbody=[], **pos))
            count += 1
    return count


def desugar_closing(modules):
    """`with contextlib.closing(E) as v: B` (one item) is analysed as `v = E` followed by `try: B` / `finally: v.close()`; without `as`, for a
    side-effect-free E, as `try: B` / `finally: E.close()`.  That is what the context manager does, and it makes the close - often a protocol
    step (an EOF the other side waits for) - visible to the rules at the place where it really happens.  Returns the number of rewritten
    statements."""
    count = 0
    for mod in modules.values():
        mod_alias, fn_alias = set(), set()
        for n in ast.walk(mod.tree):
            if isinstance(n, ast.Import):
                mod_alias |= {(a.asname or a.name) for a in n.names if a.name == 'contextlib'}
            if isinstance(n, ast.ImportFrom) and n.module == 'contextlib' and not n.level:
                fn_alias |= {(a.asname or a.name) for a in n.names if a.name == 'closing'}
        if not (mod_alias or fn_alias):
            continue
        for parent in ast.walk(mod.tree):
            for field in ('body', 'orelse', 'finalbody'):
                lst = getattr(parent, field, None)
                if not isinstance(lst, list):
                    continue
                i = 0
                while i < len(lst):
                    st = lst[i]
                    i += 1
                    if not (isinstance(st, ast.With) and len(st.items) == 1):
                        continue
                    call, var = st.items[0].context_expr, st.items[0].optional_vars
                    if not (isinstance(call, ast.Call) and len(call.args) == 1 and not call.keywords and not isinstance(call.args[0], ast.Starred)):
                        continue
                    f = call.func
                    if not ((isinstance(f, ast.Name) and f.id in fn_alias) or
                            (isinstance(f, ast.Attribute) and f.attr == 'closing' and isinstance(f.value, ast.Name) and f.value.id in mod_alias)):
                        continue
                    thing = call.args[0]
                    if var is None and not dotted(thing):
                        continue
                    if var is not None and not isinstance(var, ast.Name):
                        continue
                    pos = {k: getattr(st, k) for k in ('lineno', 'col_offset', 'end_lineno', 'end_col_offset') if hasattr(st, k)}
                    last = st.body[-1]
                    cpos = dict(lineno=getattr(last, 'end_lineno', last.lineno) + 0.5, col_offset=pos['col_offset'],
                                end_lineno=getattr(last, 'end_lineno', last.lineno) + 0.5, end_col_offset=pos['col_offset'] + 1)
                    recv_expr = ast.Name(id=var.id, ctx=ast.Load(), **cpos) if var is not None else copy.deepcopy(thing)
                    if var is None:
                        for x in ast.walk(recv_expr):
                            if hasattr(x, 'lineno'):
                                x.lineno = x.end_lineno = cpos['lineno']
                    close = ast.Expr(value=ast.Call(func=ast.Attribute(value=recv_expr, attr='close', ctx=ast.Load(), **cpos), args=[], keywords=[], **cpos), **cpos)
                    close.orig_lineno = pos['lineno']
                    body = st.body
                    st.__class__ = ast.Try
                    st.__dict__.clear()
                    st.__dict__.update(dict(body=body, handlers=[], orelse=[], finalbody=[close], **pos))
                    if var is not None:
                        apos = dict(pos, lineno=pos['lineno'] - 0.5, end_lineno=pos['lineno'] - 0.5)
                        asg = ast.Assign(targets=[ast.Name(id=var.id, ctx=ast.Store(), **apos)], value=thing, **apos)
                        asg.orig_lineno = pos['lineno']
                        lst.insert(i - 1, asg)
                        i += 1
                    count += 1
    return count


def fold_lock_blocks(modules):
    """`X.acquire()` immediately followed by `try: B` / `finally: X.release()` (nothing else in the try statement, no arguments to either call) is
    analysed as `with X: B`: the critical-section rules are written for the with form.  Returns the number of folded blocks."""
    count = 0
    for mod in modules.values():
        for parent in ast.walk(mod.tree):
            for field in ('body', 'orelse', 'finalbody'):
                lst = getattr(parent, field, None)
                if not isinstance(lst, list):
                    continue
                i = 0
                while i + 1 < len(lst):
                    a, t = lst[i], lst[i + 1]
                    i += 1
                    if not (isinstance(a, ast.Expr) and isinstance(a.value, ast.Call) and isinstance(a.value.func, ast.Attribute) and a.value.func.attr == 'acquire'
                            and not a.value.args and not a.value.keywords and dotted(a.value.func.value)):
                        continue
                    if not (isinstance(t, ast.Try) and not t.handlers and not t.orelse and len(t.finalbody) == 1):
                        continue
                    r = t.finalbody[0]
                    if not (isinstance(r, ast.Expr) and isinstance(r.value, ast.Call) and isinstance(r.value.func, ast.Attribute) and r.value.func.attr == 'release'
                            and not r.value.args and not r.value.keywords and dotted(r.value.func.value) == dotted(a.value.func.value)):
                        continue
                    pos = {k: getattr(a, k) for k in ('lineno', 'col_offset') if hasattr(a, k)}
                    pos.update(end_lineno=getattr(t, 'end_lineno', pos['lineno']), end_col_offset=getattr(t, 'end_col_offset', 0))
                    w = ast.With(items=[ast.withitem(context_expr=a.value.func.value, optional_vars=None)], body=t.body, type_comment=None, **pos)
                    lst[i - 1:i + 1] = [w]
                    count += 1
    return count


def split_tuple_assignments(modules):
    """`a, b = (x, y)` with a literal tuple of the same length on the right is analysed as `a = x` followed by `b = y` when no target is read by the
    right-hand side (so it is not a swap); an element assigned to itself (`a, b = a, b` after a helper that hands its arguments back was inlined)
    is dropped.  Returns the number of split statements."""
    count = 0
    for mod in modules.values():
        for parent in ast.walk(mod.tree):
            for field in ('body', 'orelse', 'finalbody'):
                lst = getattr(parent, field, None)
                if not isinstance(lst, list):
                    continue
                i = 0
                while i < len(lst):
                    st = lst[i]
                    i += 1
                    if isinstance(st, ast.Assign) and len(st.targets) == 1 and isinstance(st.targets[0], (ast.Tuple, ast.List)) and len(st.targets[0].elts) == 1 \
                            and isinstance(st.targets[0].elts[0], ast.Name) and not isinstance(st.value, (ast.Tuple, ast.List)):
                        # `(a,) = E` is analysed as `a = E[0]`
                        pos = {k: getattr(st.value, k) for k in ('lineno', 'col_offset', 'end_lineno', 'end_col_offset') if hasattr(st.value, k)}
                        st.targets = [st.targets[0].elts[0]]
                        st.value = ast.Subscript(value=st.value, slice=ast.Constant(value=0, **pos), ctx=ast.Load(), **pos)
                        count += 1
                        continue
                    if not (isinstance(st, ast.Assign) and len(st.targets) == 1 and isinstance(st.targets[0], ast.Tuple) and isinstance(st.value, ast.Tuple)
                            and len(st.targets[0].elts) == len(st.value.elts) and all(isinstance(t, ast.Name) for t in st.targets[0].elts)):
                        continue
                    pairs = [(t, v) for t, v in zip(st.targets[0].elts, st.value.elts) if not (isinstance(v, ast.Name) and v.id == t.id)]
                    tnames = {t.id for t, _ in pairs}
                    if any(isinstance(x, ast.Name) and x.id in tnames for _, v in pairs for x in ast.walk(v)):
                        continue
                    new = []
                    for k, (t, v) in enumerate(pairs):
                        a0 = ast.Assign(targets=[t], value=v, type_comment=None)
                        ast.copy_location(a0, st)
                        a0.lineno = st.lineno + k / 100000.0
                        if hasattr(st, 'orig_lineno'):
                            a0.orig_lineno = st.orig_lineno
                        new.append(a0)
                    if not new:
                        p0 = ast.Pass()
                        ast.copy_location(p0, st)
                        new = [p0]
                    lst[i - 1:i] = new
                    i += len(new) - 1
                    count += 1
    return count


def normalise_struct_objects(modules):
    """A module-level constant `H = struct.Struct('<fmt>')` (bound once, literal format) is analysed through the module functions it stands for:
    `H.pack(v)` as `struct.pack('<fmt>', v)`, `H.unpack(b)` / `H.unpack_from(b)` likewise, `H.size` as the number struct.calcsize gives.
    Returns the number of rewritten uses."""
    import struct as _struct
    count = 0
    for mod in modules.values():
        consts = {}
        stores = {}
        for n in ast.walk(mod.tree):
            if isinstance(n, ast.Name) and isinstance(n.ctx, (ast.Store, ast.Del)):
                stores[n.id] = stores.get(n.id, 0) + 1
        for st in mod.tree.body:
            if isinstance(st, ast.Assign) and len(st.targets) == 1 and isinstance(st.targets[0], ast.Name) and isinstance(st.value, ast.Call) \
                    and dotted(st.value.func) in ('struct.Struct', 'Struct') and len(st.value.args) == 1 and isinstance(st.value.args[0], ast.Constant) \
                    and isinstance(st.value.args[0].value, str) and stores.get(st.targets[0].id) == 1:
                consts[st.targets[0].id] = st.value.args[0].value
        if not consts:
            continue
        for n in ast.walk(mod.tree):
            if isinstance(n, ast.Call) and isinstance(n.func, ast.Attribute) and isinstance(n.func.value, ast.Name) and n.func.value.id in consts \
                    and n.func.attr in ('pack', 'unpack', 'unpack_from', 'pack_into', 'iter_unpack'):
                fmt = consts[n.func.value.id]
                pos = {k: getattr(n.func, k) for k in ('lineno', 'col_offset', 'end_lineno', 'end_col_offset') if hasattr(n.func, k)}
                n.func.value = ast.Name(id='struct', ctx=ast.Load(), **pos)
                n.args = [ast.Constant(value=fmt, **pos)] + list(n.args)
                count += 1
        for n in ast.walk(mod.tree):
            if isinstance(n, ast.Attribute) and n.attr == 'size' and isinstance(n.value, ast.Name) and n.value.id in consts and isinstance(n.ctx, ast.Load):
                try:
                    size = _struct.calcsize(consts[n.value.id])
                except _struct.error:
                    continue
                pos = {k: getattr(n, k) for k in ('lineno', 'col_offset', 'end_lineno', 'end_col_offset') if hasattr(n, k)}
                n.__class__ = ast.Constant
                n.__dict__.clear()
                n.__dict__.update(dict(value=size, kind=None, **pos))
                count += 1
    return count


def normalise_updates(modules):
    """`x = x + 1` (target and left operand the same side-effect-free name or attribute chain, right operand a numeric constant) is analysed as
    `x += 1`: for numbers the two are the same statement, and the counting rules are written for the augmented form.  Returns the number of
    rewritten statements."""
    count = 0
    for mod in modules.values():
        for st in ast.walk(mod.tree):
            if not (isinstance(st, ast.Assign) and len(st.targets) == 1 and isinstance(st.value, ast.BinOp)):
                continue
            tgt, v = st.targets[0], st.value
            if not (isinstance(tgt, (ast.Name, ast.Attribute)) and dotted(tgt) and dotted(v.left) == dotted(tgt)):
                continue
            if not (isinstance(v.right, ast.Constant) and isinstance(v.right.value, (int, float)) and not isinstance(v.right.value, bool)):
                continue
            pos = {k: getattr(st, k) for k in ('lineno', 'col_offset', 'end_lineno', 'end_col_offset') if hasattr(st, k)}
            st.__class__ = ast.AugAssign
            st.__dict__.clear()
            st.__dict__.update(dict(target=tgt, op=v.op, value=v.right, **pos))
            count += 1
    return count


_SWAP = {ast.Lt: ast.Gt, ast.Gt: ast.Lt, ast.LtE: ast.GtE, ast.GtE: ast.LtE, ast.Eq: ast.Eq, ast.NotEq: ast.NotEq, ast.Is: ast.Is, ast.IsNot: ast.IsNot}


def normalise_comparisons(modules):
    """A comparison written constant-first (`None is x`, `0 == timeout`, `'wait' == cmd`) is analysed in the usual order (`x is None`, ...): the rules
    compare tests by their negation-free text.  Only single-operator comparisons whose left operand is a literal constant and whose right operand is
    not are rewritten.  Returns the number of rewritten comparisons."""
    count = 0
    for mod in modules.values():
        for n in ast.walk(mod.tree):
            if isinstance(n, ast.Compare) and len(n.ops) == 1 and type(n.ops[0]) in _SWAP and isinstance(n.left, ast.Constant) and \
                    not isinstance(n.comparators[0], ast.Constant):
                n.left, n.comparators, n.ops = n.comparators[0], [n.left], [_SWAP[type(n.ops[0])]()]
                count += 1
    return count


def _leaves(stmts):
    """every way through the statement list ends in return / raise / continue / break (syntactic)"""
    if not stmts:
        return False
    last = stmts[-1]
    if isinstance(last, (ast.Return, ast.Raise, ast.Continue, ast.Break)):
        return True
    if isinstance(last, ast.If):
        return _leaves(last.body) and _leaves(last.orelse)
    return False


def hoist_else_after_leave(modules):
    """`if c: ...; return` / `else: rest` is analysed as the guard clause `if c: ...; return` followed by `rest` (same control flow; `raise`,
    `continue` and `break` likewise): rules that look at the statements of a block see one form however the author nested it.  Returns the number
    of hoisted else blocks."""
    count = 0
    for mod in modules.values():
        changed = True
        while changed:
            changed = False
            for parent in ast.walk(mod.tree):
                for field in ('body', 'orelse', 'finalbody'):
                    lst = getattr(parent, field, None)
                    if not isinstance(lst, list):
                        continue
                    for i, st in enumerate(lst):
                        if isinstance(st, ast.If) and st.orelse and _leaves(st.body):
                            rest, st.orelse = st.orelse, []
                            lst[i + 1:i + 1] = rest
                            count += 1
                            changed = True
                            break
    return count


def normalise_empty_containers(modules):
    """`list()`, `dict()` and `tuple()` without arguments are analysed as the literals `[]`, `{}` and `()` (unless the name is rebound at module
    level or in an enclosing function).  Returns the number of rewritten calls."""
    count = 0

    def binds(scope, top):
        out = set()
        if not top:
            a = scope.args
            out |= {x.arg for x in a.posonlyargs + a.args + a.kwonlyargs} | ({a.vararg.arg} if a.vararg else set()) | ({a.kwarg.arg} if a.kwarg else set())
        todo = list(scope.body)
        while todo:
            n = todo.pop()
            if isinstance(n, (ast.FunctionDef, ast.AsyncFunctionDef, ast.ClassDef)):
                out.add(n.name)
                if isinstance(n, ast.ClassDef) and top:
                    pass
                continue
            if isinstance(n, ast.Name) and isinstance(n.ctx, ast.Store):
                out.add(n.id)
            if isinstance(n, (ast.Import, ast.ImportFrom)):
                out |= {(x.asname or x.name).split('.')[0] for x in n.names}
            todo += list(ast.iter_child_nodes(n))
        return out

    def visit(node, shadow):
        nonlocal count
        for ch in ast.iter_child_nodes(node):
            if isinstance(ch, (ast.FunctionDef, ast.AsyncFunctionDef)):
                visit(ch, shadow | binds(ch, False))
                continue
            if isinstance(ch, ast.Call) and isinstance(ch.func, ast.Name) and ch.func.id in ('list', 'dict', 'tuple') and not ch.args and not ch.keywords \
                    and ch.func.id not in shadow:
                pos = {k: getattr(ch, k) for k in ('lineno', 'col_offset', 'end_lineno', 'end_col_offset') if hasattr(ch, k)}
                kind = ch.func.id
                ch.__class__ = {'list': ast.List, 'dict': ast.Dict, 'tuple': ast.Tuple}[kind]
                ch.__dict__.clear()
                ch.__dict__.update(dict(keys=[], values=[], **pos) if kind == 'dict' else dict(elts=[], ctx=ast.Load(), **pos))
                count += 1
                continue
            visit(ch, shadow)
    for mod in modules.values():
        visit(mod.tree, binds(mod.tree, True))
    return count


def _side_effect_free(e):
    for n in ast.walk(e):
        if isinstance(n, ast.Call) and not (isinstance(n.func, ast.Name) and n.func.id in ('len', 'type', 'id', 'isinstance', 'issubclass', 'callable', 'hasattr', 'bool')):
            return False
        if isinstance(n, (ast.NamedExpr, ast.Yield, ast.YieldFrom, ast.Await, ast.Lambda, ast.ListComp, ast.SetComp, ast.DictComp, ast.GeneratorExp)):
            return False
    return True


def inline_test_temporaries(modules):
    """`v = E` immediately followed by `if v:` / `if not v:` - E a side-effect-free comparison or boolean combination - is analysed with the test
    spelled out (`if E:`); the assignment stays, so later uses of v are unaffected.  The rules read what a branch establishes from the test itself.
    Returns the number of rewritten tests."""
    count = 0
    for mod in modules.values():
        for parent in ast.walk(mod.tree):
            for field in ('body', 'orelse', 'finalbody'):
                lst = getattr(parent, field, None)
                if not isinstance(lst, list):
                    continue
                for i in range(len(lst) - 1):
                    st, nxt = lst[i], lst[i + 1]
                    if not (isinstance(st, ast.Assign) and len(st.targets) == 1 and isinstance(st.targets[0], ast.Name) and isinstance(nxt, ast.If)):
                        continue
                    if not (isinstance(st.value, (ast.Compare, ast.BoolOp)) or (isinstance(st.value, ast.UnaryOp) and isinstance(st.value.op, ast.Not))):
                        continue
                    if not _side_effect_free(st.value) or any(isinstance(x, ast.Name) and x.id == st.targets[0].id for x in ast.walk(st.value)):
                        continue
                    t = nxt.test
                    holder, attr = nxt, 'test'
                    while isinstance(t, ast.UnaryOp) and isinstance(t.op, ast.Not):
                        holder, attr, t = t, 'operand', t.operand
                    if not (isinstance(t, ast.Name) and t.id == st.targets[0].id):
                        continue
                    new = copy.deepcopy(st.value)
                    for x in ast.walk(new):
                        if hasattr(x, 'lineno'):
                            x.lineno, x.col_offset = t.lineno, t.col_offset
                            x.end_lineno, x.end_col_offset = getattr(t, 'end_lineno', t.lineno), getattr(t, 'end_col_offset', t.col_offset)
                    setattr(holder, attr, new)
                    count += 1
    return count


def normalise_deque_calls(modules):
    """The deque-only spellings `x.popleft()` and `x.appendleft(v)` are analysed as the sequence operations they are, `x.pop(0)` and
    `x.insert(0, v)`, and an argument-less `deque()` / `collections.deque()` as an empty sequence: replacing a list used as a queue by a deque does
    not change what the bookkeeping rules have to decide.  Returns the number of rewritten calls."""
    count = 0
    for mod in modules.values():
        for n in ast.walk(mod.tree):
            if not isinstance(n, ast.Call) or n.keywords:
                continue
            pos = {k: getattr(n, k) for k in ('lineno', 'col_offset', 'end_lineno', 'end_col_offset') if hasattr(n, k)}
            f = n.func
            if isinstance(f, ast.Attribute) and f.attr == 'popleft' and not n.args:
                f.attr = 'pop'
                n.args = [ast.Constant(value=0, **pos)]
                count += 1
            elif isinstance(f, ast.Attribute) and f.attr == 'appendleft' and len(n.args) == 1:
                f.attr = 'insert'
                n.args = [ast.Constant(value=0, **pos), n.args[0]]
                count += 1
            elif not n.args and (dotted(f) in ('collections.deque', 'deque')):
                n.__class__ = ast.List
                n.__dict__.clear()
                n.__dict__.update(dict(elts=[], ctx=ast.Load(), **pos))
                count += 1
    return count


def inline_returned_temporaries(modules):
    """`v = E` immediately followed by `return v`, with `v` a local that is bound nowhere else and read nowhere else in the function, is analysed
    as `return E`.  Returns the number of inlined temporaries."""
    count = 0
    for mod in modules.values():
        for fn in ast.walk(mod.tree):
            if not isinstance(fn, (ast.FunctionDef, ast.AsyncFunctionDef)):
                continue
            a = fn.args
            params = {x.arg for x in a.posonlyargs + a.args + a.kwonlyargs} | ({a.vararg.arg} if a.vararg else set()) | ({a.kwarg.arg} if a.kwarg else set())
            uses = {}
            special = set()
            for n in ast.walk(fn):
                if isinstance(n, ast.Name):
                    uses.setdefault(n.id, []).append(n)
                if isinstance(n, (ast.Global, ast.Nonlocal)):
                    special.update(n.names)
                if isinstance(n, ast.ExceptHandler) and n.name:
                    special.add(n.name)
            for parent in ast.walk(fn):
                for field in ('body', 'orelse', 'finalbody'):
                    lst = getattr(parent, field, None)
                    if not isinstance(lst, list):
                        continue
                    for i in range(len(lst) - 1):
                        st, nxt = lst[i], lst[i + 1]
                        if not (isinstance(st, ast.Assign) and len(st.targets) == 1 and isinstance(st.targets[0], ast.Name) and isinstance(nxt, ast.Return)
                                and isinstance(nxt.value, ast.Name) and nxt.value.id == st.targets[0].id):
                            continue
                        name = st.targets[0].id
                        if name in params or name in special or len(uses.get(name, [])) != 2:
                            continue
                        nxt.value = st.value
                        nxt.lineno, nxt.col_offset = st.lineno, st.col_offset
                        keep = {k: getattr(st, k) for k in ('lineno', 'col_offset', 'end_lineno', 'end_col_offset') if hasattr(st, k)}
                        st.__class__ = ast.Pass
                        st.__dict__.clear()
                        st.__dict__.update(keep)
                        count += 1
    return count


def _first_evaluated(test):
    """the sub-expression a test evaluates first (through not / and / or / the left operand of a comparison)"""
    t = test
    while True:
        if isinstance(t, ast.UnaryOp) and isinstance(t.op, ast.Not):
            t = t.operand
        elif isinstance(t, ast.BoolOp):
            t = t.values[0]
        elif isinstance(t, ast.Compare):
            t = t.left
        else:
            return t


def hoist_walrus(modules):
    """`if (x := E) ...:` - the assignment expression being the first thing the test evaluates - is analysed as `x = E` followed by
    `if x ...:` (an `elif` becomes `else:` + the two statements).  Returns the number of hoisted assignment expressions."""
    count = 0
    for mod in modules.values():
        changed = True
        while changed:
            changed = False
            for parent in ast.walk(mod.tree):
                for field in ('body', 'orelse', 'finalbody'):
                    lst = getattr(parent, field, None)
                    if not isinstance(lst, list):
                        continue
                    for i, st in enumerate(lst):
                        if not isinstance(st, ast.If):
                            continue
                        w = _first_evaluated(st.test)
                        if not (isinstance(w, ast.NamedExpr) and isinstance(w.target, ast.Name)):
                            continue
                        pos = {k: getattr(st, k) for k in ('lineno', 'col_offset') if hasattr(st, k)}
                        pos.update(end_lineno=getattr(w, 'end_lineno', pos['lineno']), end_col_offset=getattr(w, 'end_col_offset', pos['col_offset']))
                        name, val = w.target.id, w.value
                        keep = {k: getattr(w, k) for k in ('lineno', 'col_offset', 'end_lineno', 'end_col_offset') if hasattr(w, k)}
                        w.__class__ = ast.Name
                        w.__dict__.clear()
                        w.__dict__.update(dict(id=name, ctx=ast.Load(), **keep))
                        # the If keeps its line; the new assignment sits just in front of it (fractional line number, like inlined helpers)
                        asg = ast.Assign(targets=[ast.Name(id=name, ctx=ast.Store(), **keep)], value=val, **pos)
                        asg.orig_lineno = pos['lineno']
                        asg.lineno = pos['lineno'] - 0.5
                        asg.targets[0].lineno = asg.lineno
                        lst.insert(i, asg)
                        count += 1
                        changed = True
                        break
    return count


def unroll_walrus_loops(modules):
    """`while (x := E) <cond>:` (the assignment expression being the first thing the test evaluates, no else clause) is analysed as
    `while True:` / `x = E` / `if not (x <cond>): break` / body.  Returns the number of rewritten loops."""
    count = 0
    for mod in modules.values():
        for lp in ast.walk(mod.tree):
            if not (isinstance(lp, ast.While) and not lp.orelse):
                continue
            w = _first_evaluated(lp.test)
            if not (isinstance(w, ast.NamedExpr) and isinstance(w.target, ast.Name)):
                continue
            if any(isinstance(x, ast.Continue) for st in lp.body for x in ast.walk(st)):
                continue        # a continue would skip the re-evaluation that now opens the body
            pos = {k: getattr(lp, k) for k in ('lineno', 'col_offset') if hasattr(lp, k)}
            pos.update(end_lineno=pos['lineno'], end_col_offset=pos['col_offset'] + 1)
            name, val = w.target.id, w.value
            keep = {k: getattr(w, k) for k in ('lineno', 'col_offset', 'end_lineno', 'end_col_offset') if hasattr(w, k)}
            w.__class__ = ast.Name
            w.__dict__.clear()
            w.__dict__.update(dict(id=name, ctx=ast.Load(), **keep))
            asg = ast.Assign(targets=[ast.Name(id=name, ctx=ast.Store(), **keep)], value=val, type_comment=None, **pos)
            brk = ast.If(test=ast.UnaryOp(op=ast.Not(), operand=lp.test, **pos), body=[ast.Break(**pos)], orelse=[], **pos)
            asg.lineno = pos['lineno'] + 0.1
            brk.lineno = pos['lineno'] + 0.2
            brk.body[0].lineno = pos['lineno'] + 0.3
            for x in (asg, brk):
                x.orig_lineno = pos['lineno']
            lp.test = ast.Constant(value=True, **pos)
            lp.body = [asg, brk] + lp.body
            count += 1
    return count


def expand_conditional_statements(modules):
    """`x = a if c else b` (one side-effect-free name or attribute target) and `return a if c else b` are analysed as the if statement with the two
    assignments / returns.  Returns the number of expanded statements."""
    count = 0
    for mod in modules.values():
        for parent in ast.walk(mod.tree):
            for field in ('body', 'orelse', 'finalbody'):
                lst = getattr(parent, field, None)
                if not isinstance(lst, list) or isinstance(parent, (ast.ClassDef, ast.Module)):
                    continue
                for i, st in enumerate(lst):
                    if not (isinstance(st, (ast.Assign, ast.Return)) and isinstance(st.value, ast.IfExp)):
                        continue
                    if isinstance(st, ast.Assign) and not (len(st.targets) == 1 and isinstance(st.targets[0], (ast.Name, ast.Attribute)) and dotted(st.targets[0])):
                        continue
                    ife = st.value
                    pos = {k: getattr(st, k) for k in ('lineno', 'col_offset', 'end_lineno', 'end_col_offset') if hasattr(st, k)}

                    def arm(v):
                        p2 = {k: getattr(v, k, pos.get(k)) for k in ('lineno', 'col_offset', 'end_lineno', 'end_col_offset')}
                        if isinstance(st, ast.Return):
                            return ast.Return(value=v, **p2)
                        return ast.Assign(targets=[copy.deepcopy(st.targets[0])], value=v, **p2)
                    lst[i] = ast.If(test=ife.test, body=[arm(ife.body)], orelse=[arm(ife.orelse)], **pos)
                    count += 1
    return count


def strip_annotations(modules):
    """An annotated assignment `x: T = v` is analysed as `x = v`; a bare declaration `x: T` as `pass`.  Returns the number of rewritten statements."""
    count = 0
    for mod in modules.values():
        for st in ast.walk(mod.tree):
            if not isinstance(st, ast.AnnAssign):
                continue
            pos = {k: getattr(st, k) for k in ('lineno', 'col_offset', 'end_lineno', 'end_col_offset') if hasattr(st, k)}
            tgt, val = st.target, st.value
            st.__dict__.clear()
            if val is None:
                st.__class__ = ast.Pass
                st.__dict__.update(pos)
            else:
                st.__class__ = ast.Assign
                st.__dict__.update(dict(targets=[tgt], value=val, type_comment=None, **pos))
            count += 1
    return count


class Module:
    def __init__(self, name, path, relpath, src):
        self.name = name
        self.path = path
        self.relpath = relpath
        self.src = src
        try:
            self.tree = ast.parse(src, filename=path)
        except SyntaxError as e:
            raise AnalysisError(f'cannot parse {relpath}: {e}')
        self.imports = {}      # local name -> dotted target ('pyworkers.worker.Worker' / 'multiprocessing')
        self.functions = {}    # top-level functions
        self.classes = {}      # top-level classes
        self.aliases = {}      # name -> name (module level X = Y)
        self.globals_assigned = {}  # name -> value expr (module level)

    def __repr__(self):
        return f'<Module {self.name}>'


class Func:
    def __init__(self, node, module, cls=None, parent=None):
        self.node = node
        self.name = node.name
        self.module = module
        self.cls = cls
        self.parent = parent
        self.nested = {}
        self.decorators = [dotted(d) or (dotted(d.func) if isinstance(d, ast.Call) else None) for d in node.decorator_list]
        owner = cls.qualname if cls else (parent.qualname if parent else module.name)
        self.qualname = f'{owner}.{self.name}'
        self.params = [a.arg for a in node.args.posonlyargs + node.args.args]
        self.kwonly = [a.arg for a in node.args.kwonlyargs]
        self.vararg = node.args.vararg.arg if node.args.vararg else None
        self.kwarg = node.args.kwarg.arg if node.args.kwarg else None

    @property
    def is_property(self):
        return any(d in ('property', 'classproperty', 'staticproperty') for d in self.decorators if d)

    @property
    def is_setter(self):
        return any(d and d.endswith('.setter') for d in self.decorators)

    @property
    def is_classmethod(self):
        return 'classmethod' in self.decorators

    @property
    def is_staticmethod(self):
        return 'staticmethod' in self.decorators

    @property
    def is_contextmanager(self):
        return any(d in ('contextlib.contextmanager', 'contextmanager') for d in self.decorators if d)

    @property
    def short(self):
        if self.cls:
            return f'{self.cls.name}.{self.name}'
        if self.parent:
            return f'{self.parent.short}.<{self.name}>'
        return f'{self.module.name.split(".", 1)[-1]}.{self.name}'

    def all_params(self):
        p = list(self.params) + list(self.kwonly)
        if self.vararg:
            p.append(self.vararg)
        if self.kwarg:
            p.append(self.kwarg)
        return p

    def param_default(self, name):
        a = self.node.args
        pos = a.posonlyargs + a.args
        defaults = [None] * (len(pos) - len(a.defaults)) + list(a.defaults)
        for arg, d in zip(pos, defaults):
            if arg.arg == name:
                return d
        for arg, d in zip(a.kwonlyargs, a.kw_defaults):
            if arg.arg == name:
                return d
        return None

    def __repr__(self):
        return f'<Func {self.qualname}>'


class Class:
    def __init__(self, node, module, outer=None):
        self.node = node
        self.name = node.name
        self.module = module
        self.outer = outer
        self.qualname = f'{outer.qualname if outer else module.name}.{self.name}'
        self.methods = {}     # name -> Func (getter for properties)
        self.setters = {}     # name -> Func
        self.class_attrs = {}  # name -> value expr
        self.nested_classes = {}
        self.bases = []       # Class | str (external dotted)
        self._mro = None

    def mro(self):
        if self._mro is None:
            self._mro = _c3(self)
        return self._mro

    def resolve(self, name):
        """(defining Class, Func) of method `name` for this concrete class, or (None, None)."""
        for c in self.mro():
            if isinstance(c, Class) and name in c.methods:
                return c, c.methods[name]
        return None, None

    def resolve_setter(self, name):
        for c in self.mro():
            if isinstance(c, Class) and name in c.setters:
                return c, c.setters[name]
        return None, None

    def resolve_after(self, after_cls, name):
        """super() resolution: first definition of `name` after `after_cls` in this class's MRO."""
        m = self.mro()
        try:
            i = m.index(after_cls)
        except ValueError:
            return None, None
        for c in m[i + 1:]:
            if isinstance(c, Class) and name in c.methods:
                return c, c.methods[name]
        return None, None

    def is_descriptor(self, name):
        c, f = self.resolve(name)
        return bool(f and f.is_property)

    def is_subclass_of(self, other):
        return other in self.mro()

    def external_bases(self):
        return [c for c in self.mro() if isinstance(c, str)]

    def __repr__(self):
        return f'<Class {self.qualname}>'


def _c3(cls):
    def merge(seqs):
        res = []
        seqs = [list(s) for s in seqs if s]
        while seqs:
            for s in seqs:
                cand = s[0]
                if not any(cand in t[1:] for t in seqs):
                    break
            else:
                raise AnalysisError(f'inconsistent MRO for {cls.qualname}')
            res.append(cand)
            seqs = [[x for x in s if x != cand] for s in seqs]
            seqs = [s for s in seqs if s]
        return res
    parents = [b for b in cls.bases]
    seqs = []
    for b in parents:
        seqs.append(b.mro() if isinstance(b, Class) else [b])
    seqs.append(parents)
    out = [cls] + merge(seqs)
    out = [c for c in out if c != 'object']
    out.append('object')
    return out


class Program:
    def __init__(self, repo, package='pyworkers'):
        self.repo = repo
        self.package = package
        self.modules = {}
        self.classes = {}   # qualname -> Class
        self.funcs = {}     # qualname -> Func
        self._load()

    # ------------------------------------------------------------------ load
    def _load(self):
        root = os.path.join(self.repo, self.package)
        if not os.path.isdir(root):
            raise AnalysisError(f'package directory {root} not found')
        for dirpath, dirs, files in os.walk(root):
            dirs[:] = sorted(d for d in dirs if d != '__pycache__')
            for fn in sorted(files):
                if not fn.endswith('.py'):
                    continue
                path = os.path.join(dirpath, fn)
                rel = os.path.relpath(path, self.repo)
                modname = rel[:-3].replace(os.sep, '.')
                if modname.endswith('.__init__'):
                    modname = modname[:-9]
                with open(path, encoding='utf-8', newline='') as f:
                    src = f.read()
                self.modules[modname] = Module(modname, path, rel, src)
        for m in MANDATORY_MODULES:
            if f'{self.package}.{m}' not in self.modules:
                raise AnalysisError(f'mandatory module {self.package}.{m} is missing')
        self.annotations_stripped = strip_annotations(self.modules)
        self.suppress_desugared = desugar_suppress(self.modules)
        self.struct_objects_normalised = normalise_struct_objects(self.modules)
        self.closing_desugared = desugar_closing(self.modules)
        self.lock_blocks_folded = fold_lock_blocks(self.modules)
        self.updates_normalised = normalise_updates(self.modules)
        self.comparisons_normalised = normalise_comparisons(self.modules)
        self.containers_normalised = normalise_empty_containers(self.modules)
        self.deque_calls_normalised = normalise_deque_calls(self.modules)
        self.returns_inlined = inline_returned_temporaries(self.modules)
        self.tests_inlined = inline_test_temporaries(self.modules)
        self.walrus_hoisted = hoist_walrus(self.modules) + unroll_walrus_loops(self.modules)
        self.conditionals_expanded = expand_conditional_statements(self.modules)
        self.else_hoisted = hoist_else_after_leave(self.modules)
        split_tuple_assignments(self.modules)
        self.absorbed = absorb_private_helpers(self.modules, rounds=12)
        self.tuple_assignments_split = split_tuple_assignments(self.modules)
        self.inlined_temporaries_propagated = propagate_inlined_temporaries(self.modules) if self.absorbed else 0
        self.local_records_scalarised = scalarise_local_records(self.modules)
        self.aliases_resolved = resolve_self_aliases(self.modules)
        for mod in self.modules.values():
            self._index_module(mod)
        for cls in list(self.classes.values()):
            self._resolve_bases(cls)
        for cls in self.classes.values():
            cls.mro()

    def _index_module(self, mod):
        is_pkg = mod.path.endswith('__init__.py')
        pkg_parts = mod.name.split('.') if is_pkg else mod.name.split('.')[:-1]
        for node in ast.walk(mod.tree):
            if isinstance(node, ast.Import):
                for a in node.names:
                    mod.imports.setdefault(a.asname or a.name.split('.')[0], a.name if a.asname else a.name.split('.')[0])
            elif isinstance(node, ast.ImportFrom):
                if node.level:
                    base = pkg_parts[:len(pkg_parts) - (node.level - 1)]
                    target = '.'.join(base + ([node.module] if node.module else []))
                else:
                    target = node.module
                for a in node.names:
                    mod.imports.setdefault(a.asname or a.name, f'{target}.{a.name}')
        for node in mod.tree.body:
            self._index_stmt(node, mod)

    def _index_stmt(self, node, mod):
        if isinstance(node, (ast.FunctionDef, ast.AsyncFunctionDef)):
            f = Func(node, mod)
            mod.functions.setdefault(node.name, f)
            self._register_func(f)
        elif isinstance(node, ast.ClassDef):
            self._index_class(node, mod, None)
        elif isinstance(node, ast.Assign) and len(node.targets) == 1 and isinstance(node.targets[0], ast.Name):
            mod.globals_assigned[node.targets[0].id] = node.value
            if isinstance(node.value, ast.Name):
                mod.aliases[node.targets[0].id] = node.value.id
        elif isinstance(node, (ast.If, ast.Try)):
            # e.g. `if python_is_at_least(3, 8): def gettid ...`  - first definition wins
            for sub in getattr(node, 'body', []) + getattr(node, 'orelse', []):
                self._index_stmt(sub, mod)

    def _register_func(self, f):
        self.funcs.setdefault(f.qualname, f)
        for n in walk_local(f.node, include_root=False):
            if isinstance(n, (ast.FunctionDef, ast.AsyncFunctionDef)):
                if _direct_scope(f.node, n):
                    g = Func(n, f.module, cls=None, parent=f)
                    f.nested[n.name] = g
                    self._register_func(g)
            elif isinstance(n, ast.ClassDef) and _direct_scope(f.node, n):
                self._index_class(n, f.module, None, in_func=f)

    def _index_class(self, node, mod, outer, in_func=None):
        c = Class(node, mod, outer)
        if in_func is not None:
            c.qualname = f'{in_func.qualname}.{c.name}'
        elif outer is None:
            mod.classes[node.name] = c
        else:
            outer.nested_classes[node.name] = c
        self.classes[c.qualname] = c
        for st in node.body:
            if isinstance(st, (ast.FunctionDef, ast.AsyncFunctionDef)):
                f = Func(st, mod, cls=c)
                if f.is_setter:
                    c.setters[st.name] = f
                    f.qualname += '.setter'
                elif st.name in c.methods and not c.methods[st.name].is_property:
                    c.methods[st.name] = f
                else:
                    c.methods.setdefault(st.name, f)
                self._register_func(f)
            elif isinstance(st, ast.ClassDef):
                self._index_class(st, mod, c)
            elif isinstance(st, ast.Assign):
                for t in st.targets:
                    if isinstance(t, ast.Name):
                        c.class_attrs[t.id] = st.value
        return c

    def _resolve_bases(self, cls):
        for b in cls.node.bases:
            d = dotted(b)
            r = self.resolve_dotted(cls.module, d) if d else None
            if r and r[0] == 'class':
                cls.bases.append(r[1])
            elif r and r[0] == 'ext':
                cls.bases.append(r[1])
            else:
                cls.bases.append(d or ast.dump(b))

    # -------------------------------------------------------------- resolution
    def module(self, short):
        return self.modules[f'{self.package}.{short}']

    def cls(self, name):
        """Class by simple or qualified name (must be unique)."""
        if name in self.classes:
            return self.classes[name]
        hits = [c for c in self.classes.values() if c.name == name]
        if len(hits) != 1:
            raise AnalysisError(f'class {name!r}: {len(hits)} definitions found')
        return hits[0]

    def has_cls(self, name):
        return sum(1 for c in self.classes.values() if c.name == name) == 1

    def func(self, qual):
        """Function by 'Class.method', 'module.function' (short module name) or full qualname."""
        if qual in self.funcs:
            return self.funcs[qual]
        full = f'{self.package}.{qual}'
        if full in self.funcs:
            return self.funcs[full]
        if '.' in qual:
            head, name = qual.rsplit('.', 1)
            hits = [c for c in self.classes.values() if c.name == head or c.qualname.endswith('.' + head)]
            if len(hits) == 1 and name in hits[0].methods:
                return hits[0].methods[name]
        raise AnalysisError(f'function {qual!r} not found')

    def resolve_dotted(self, mod, name, _depth=0):
        """Resolve a dotted name used in module `mod`.
        -> ('class', Class) | ('func', Func) | ('module', Module) | ('ext', dotted) | None"""
        if name is None or _depth > 8:
            return None
        parts = name.split('.')
        head = parts[0]
        cur = None
        if head in mod.classes:
            cur = ('class', mod.classes[head])
        elif head in mod.functions:
            cur = ('func', mod.functions[head])
        elif head in mod.aliases and mod.aliases[head] != head:
            return self.resolve_dotted(mod, '.'.join([mod.aliases[head]] + parts[1:]), _depth + 1)
        elif head in mod.imports:
            cur = self._resolve_abs(mod.imports[head])
        else:
            return None
        for p in parts[1:]:
            if cur is None:
                return None
            kind, obj = cur
            if kind == 'module':
                cur = self.resolve_dotted(obj, p, _depth + 1) or None
                if cur is None:
                    sub = f'{obj.name}.{p}'
                    if sub in self.modules:
                        cur = ('module', self.modules[sub])
            elif kind == 'class':
                if p in obj.nested_classes:
                    cur = ('class', obj.nested_classes[p])
                else:
                    c, f = obj.resolve(p)
                    cur = ('func', f) if f else None
            elif kind == 'ext':
                cur = ('ext', f'{obj}.{p}')
            else:
                return None
        return cur

    def _resolve_abs(self, target):
        if target in self.modules:
            return ('module', self.modules[target])
        if '.' in target:
            modname, attr = target.rsplit('.', 1)
            if modname in self.modules:
                r = self.resolve_dotted(self.modules[modname], attr)
                if r:
                    return r
                sub = f'{modname}.{attr}'
                if sub in self.modules:
                    return ('module', self.modules[sub])
                return None
        if target.split('.')[0] == self.package:
            return None
        return ('ext', target)

    def resolve_call(self, call, func, cls=None):
        """Resolve the callee of `call` occurring in `func`, analysed for concrete class `cls`.
        -> ('func', Func, bound_cls) | ('class', Class) | ('ext', dotted) | ('method', name, receiver) | None
        """
        f = call.func
        cls = cls or func.cls
        if isinstance(f, ast.Attribute):
            recv = f.value
            # super().m()
            if isinstance(recv, ast.Call) and is_name(recv.func, 'super'):
                owner = func.cls
                p = func
                while owner is None and p is not None:
                    owner = p.cls
                    p = p.parent
                if cls is not None and owner is not None:
                    c, m = cls.resolve_after(owner, f.attr)
                    if m:
                        return ('func', m, cls)
                    return ('ext', f'super().{f.attr}')
                return None
            if is_name(recv, 'self') and cls is not None and self._is_method_scope(func):
                c, m = cls.resolve(f.attr)
                if m:
                    return ('func', m, cls)
                return ('method', f.attr, 'self')
            if is_name(recv, 'cls') and cls is not None:
                c, m = cls.resolve(f.attr)
                if m:
                    return ('func', m, cls)
            d = dotted(f)
            if d:
                r = self.resolve_dotted(func.module, d)
                if r:
                    if r[0] == 'func':
                        return ('func', r[1], r[1].cls)
                    if r[0] in ('class', 'ext'):
                        return r
            return ('method', f.attr, dotted(recv))
        if isinstance(f, ast.Name):
            # nested function in an enclosing function scope
            p = func
            while p is not None:
                if f.id in p.nested:
                    return ('func', p.nested[f.id], cls)
                p = p.parent
            r = self.resolve_dotted(func.module, f.id)
            if r:
                if r[0] == 'func':
                    return ('func', r[1], r[1].cls)
                return r
            return ('ext', f.id)
        return None

    @staticmethod
    def _is_method_scope(func):
        p = func
        while p is not None:
            if p.cls is not None:
                return True
            p = p.parent
        return False

    # ------------------------------------------------------------------ misc
    def subclasses(self, base):
        return [c for c in self.classes.values() if c is not base and base in c.mro()]

    def stats(self):
        return {'modules': len(self.modules), 'classes': len(self.classes), 'functions': len(self.funcs)}


def _direct_scope(root, target):
    """True if `target` def is directly in the scope of `root` (not inside another nested def)."""
    for n in walk_local(root, include_root=False):
        if n is target:
            return True
    return False


def load(repo):
    return Program(repo)
