"""CLI: python -m pwsa.check <ID> [--tier quick|thorough] [--repo PATH] [--explain FILE]"""
import argparse
import importlib
import json
import os
import sys
import time
import traceback

from .astutil import AnalysisError
from .loader import load
from .raises import Analyzer
from .report import Ctx, finish


def main(argv=None):
    ap = argparse.ArgumentParser()
    ap.add_argument('prop')
    ap.add_argument('--tier', default=os.environ.get('VERIF_TIER') or 'quick', choices=['quick', 'thorough'])
    ap.add_argument('--repo', default=os.environ.get('PWSA_REPO', '/repo'))
    ap.add_argument('--explain')
    args = ap.parse_args(argv)
    if args.explain:
        with open(args.explain) as f:
            print(json.dumps(json.load(f), indent=2))
        return 0
    prop = args.prop.upper()
    try:
        seed = int(os.environ.get('VERIF_SEED', '0') or 0)
    except ValueError:
        seed = 0
    t0 = time.time()
    try:
        mod = importlib.import_module(f'pwsa.rules.{prop.lower()}')
        prog = load(args.repo)
        an = Analyzer(prog)
        ctx = Ctx(prop, prog, an, args.tier, seed)
        mod.run(ctx)
        if args.tier == 'thorough' and hasattr(mod, 'run_thorough'):
            mod.run_thorough(ctx)
        try:
            return finish(ctx, t0, mod.EXPLANATION, mod.TECHNIQUE)
        except AnalysisError as e:
            print(f'ANALYSIS-ERROR property={prop}: {e}')
            return 2
    except AnalysisError as e:
        print(f'ANALYSIS-ERROR property={prop}: {e}')
        return 2
    except Exception:
        traceback.print_exc()
        print(f'ANALYSIS-ERROR property={prop}: internal error of the checker (see traceback)')
        return 2


if __name__ == '__main__':
    sys.exit(main())
