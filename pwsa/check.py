"""CLI: python -m pwsa.check <ID> [--tier quick|thorough] [--repo PATH] [--explain FILE]"""
import argparse
import importlib
import json
import os
import sys
import time
import traceback

from .astutil import AnalysisError
from .loader import load
from .raises import Analyzer
from .report import Ctx, finish


def main(argv=None):
    ap = argparse.ArgumentParser()
    ap.add_argument('prop')
    ap.add_argument('--tier', default=os.environ.get('VERIF_TIER') or 'quick', choices=['quick', 'thorough'])
    ap.add_argument('--repo', default=os.environ.get('PWSA_REPO', '/repo'))
    ap.add_argument('--explain')
    args = ap.parse_args(argv)
    if args.explain:
        with open(args.explain) as f:
            print(json.dumps(json.load(f), indent=2))
        return 0
    prop = args.prop.upper()
    try:
        seed = int(os.environ.get('VERIF_SEED', '0') or 0)
    except ValueError:
        seed = 0
    t0 = time.time()
    try:
        mod = importlib.import_module(f'pwsa.rules.{prop.lower()}')
        prog = load(args.repo)
        an = Analyzer(prog)
        ctx = Ctx(prop, prog, an, args.tier, seed)
        ctx.stats['wrappers_absorbed_by_the_loader'] = list(prog.absorbed)
        ctx.stats['suppress_blocks_desugared_by_the_loader'] = prog.suppress_desugared
        ctx.stats['closing_blocks_desugared_by_the_loader'] = prog.closing_desugared
        ctx.stats['acquire_try_finally_release_folded_by_the_loader'] = prog.lock_blocks_folded
        ctx.stats['tuple_assignments_split_by_the_loader'] = prog.tuple_assignments_split
        ctx.stats['struct_object_uses_normalised_by_the_loader'] = prog.struct_objects_normalised
        ctx.stats['inlined_temporaries_propagated_by_the_loader'] = prog.inlined_temporaries_propagated
        ctx.stats['local_records_scalarised_by_the_loader'] = prog.local_records_scalarised
        ctx.stats['self_aliases_resolved_by_the_loader'] = prog.aliases_resolved
        ctx.stats['numeric_updates_normalised_by_the_loader'] = prog.updates_normalised
        ctx.stats['constant_first_comparisons_normalised_by_the_loader'] = prog.comparisons_normalised
        ctx.stats['else_blocks_hoisted_after_a_leaving_branch_by_the_loader'] = prog.else_hoisted
        ctx.stats['annotated_assignments_stripped_by_the_loader'] = prog.annotations_stripped
        ctx.stats['assignment_expressions_hoisted_by_the_loader'] = prog.walrus_hoisted
        ctx.stats['conditional_assignments_and_returns_expanded_by_the_loader'] = prog.conditionals_expanded
        ctx.stats['empty_container_calls_normalised_by_the_loader'] = prog.containers_normalised
        ctx.stats['deque_spellings_normalised_by_the_loader'] = prog.deque_calls_normalised
        ctx.stats['test_temporaries_spelled_out_by_the_loader'] = prog.tests_inlined
        ctx.stats['returned_temporaries_inlined_by_the_loader'] = prog.returns_inlined
        mod.run(ctx)
        if args.tier == 'thorough':
            if hasattr(mod, 'run_thorough'):
                mod.run_thorough(ctx)
            # self-test of the rules serving this property on single-edit variants (scratch copies outside /repo and /verif)
            from .selftest import run_selftest
            st = run_selftest(args.repo, prop, jobs=int(os.environ.get('PWSA_JOBS', '16')))
            ctx.stats['selftest'] = {k: v for k, v in st.items() if k != 'results'}
            ctx.stats['selftest']['samples'] = [r for r in st['results'] if r['status'] in ('detected',)][:5]
            ctx.programs = st['variants'] - len(st['skipped'])
            ctx.disagreements = len(st['broken_missed']) + len(st['benign_false_alarm'])
            print(f"SELFTEST {prop}: {st['variants']} variants of the sources ({st['broken_detected']} broken variants detected, {len(st['broken_missed'])} missed, "
                  f"{st['benign_silent']} benign silent, {len(st['benign_false_alarm'])} false alarms, {len(st['skipped'])} not applicable to this tree) in {st['wall_s']} s")
            for r in st['broken_missed'] + st['benign_false_alarm'] + st['errors']:
                print(f"SELFTEST-NOTE {prop}: {r['status']} {r['name']}: {r['detail']}")
        try:
            return finish(ctx, t0, mod.EXPLANATION, mod.TECHNIQUE)
        except AnalysisError as e:
            print(f'ANALYSIS-ERROR property={prop}: {e}')
            return 2
    except AnalysisError as e:
        print(f'ANALYSIS-ERROR property={prop}: {e}')
        return 2
    except Exception:
        traceback.print_exc()
        print(f'ANALYSIS-ERROR property={prop}: internal error of the checker (see traceback)')
        return 2


if __name__ == '__main__':
    sys.exit(main())
