"""Small AST helpers shared by the engine and the rules."""
import ast
import re


class AnalysisError(Exception):
    """An anchor / role could not be resolved: the run is broken (exit 2), it is
    neither a pass nor a violation."""


def dotted(node):
    """'self._comms.parent_end' for pure Name/Attribute chains, else None."""
    parts = []
    while isinstance(node, ast.Attribute):
        parts.append(node.attr)
        node = node.value
    if isinstance(node, ast.Name):
        parts.append(node.id)
        return '.'.join(reversed(parts))
    if isinstance(node, ast.Call) and isinstance(node.func, ast.Name) and node.func.id == 'super':
        parts.append('super()')
        return '.'.join(reversed(parts))
    return None


def call_name(call):
    return dotted(call.func) if isinstance(call, ast.Call) else None


def last_attr(call):
    """method name of a call ('get' for x.y.get(...)), or the bare function name."""
    f = call.func
    if isinstance(f, ast.Attribute):
        return f.attr
    if isinstance(f, ast.Name):
        return f.id
    return None


def receiver(call):
    """dotted receiver of a method call, or None."""
    f = call.func
    if isinstance(f, ast.Attribute):
        return dotted(f.value)
    return None


_SCOPE = (ast.FunctionDef, ast.AsyncFunctionDef, ast.Lambda, ast.ClassDef)


def walk_local(node, include_root=True):
    """ast.walk that does not descend into nested function/class scopes (but yields
    the nested def node itself).  Roughly in source order."""
    stack = [node]
    first = True
    while stack:
        n = stack.pop()
        if not (first and not include_root):
            yield n
        if isinstance(n, _SCOPE) and not first:
            continue
        first = False
        children = list(ast.iter_child_nodes(n))
        stack.extend(reversed(children))


def calls_in(node):
    """Call nodes evaluated by `node` (not those inside nested scopes), source order."""
    return [n for n in walk_local(node) if isinstance(n, ast.Call)]


def stmt_header_exprs(stmt):
    """The expressions evaluated by the *header* of a (possibly compound) statement,
    i.e. what belongs to the CFG node of the statement itself."""
    if isinstance(stmt, (ast.If, ast.While)):
        return [stmt.test]
    if isinstance(stmt, (ast.For, ast.AsyncFor)):
        return [stmt.iter, stmt.target]
    if isinstance(stmt, (ast.With, ast.AsyncWith)):
        out = []
        for it in stmt.items:
            out.append(it.context_expr)
            if it.optional_vars is not None:
                out.append(it.optional_vars)
        return out
    if isinstance(stmt, ast.Try):
        return []
    if isinstance(stmt, (ast.FunctionDef, ast.AsyncFunctionDef, ast.ClassDef)):
        return list(stmt.decorator_list)
    if isinstance(stmt, ast.ExceptHandler):
        return []
    return [stmt]


def norm(node):
    """Whitespace-insensitive rendering used in finding keys."""
    if node is None:
        return ''
    if isinstance(node, str):
        return node
    try:
        s = ast.unparse(node)
    except Exception:  # pragma: no cover
        s = ast.dump(node)
    s = re.sub(r'\s+', ' ', s).strip()
    return s


def short(node, n=90):
    s = norm(node)
    if isinstance(node, (ast.If, ast.While, ast.For, ast.With, ast.Try, ast.FunctionDef)):
        s = s.split(':')[0] + ':' if ':' in s else s
    return s if len(s) <= n else s[:n - 1] + '…'


def is_const(node, value):
    return isinstance(node, ast.Constant) and node.value is value or \
        (isinstance(node, ast.Constant) and not isinstance(value, bool) and value is not None and node.value == value and type(node.value) is type(value))


def is_name(node, name):
    return isinstance(node, ast.Name) and node.id == name


def is_self_attr(node, attr=None):
    return isinstance(node, ast.Attribute) and is_name(node.value, 'self') and (attr is None or node.attr == attr)


def names_in(node):
    return {n.id for n in ast.walk(node) if isinstance(n, ast.Name)}


def self_attrs_read(node):
    """self.<attr> names loaded inside node (no nested scopes)."""
    out = []
    for n in walk_local(node):
        if isinstance(n, ast.Attribute) and is_name(n.value, 'self') and isinstance(n.ctx, ast.Load):
            out.append(n.attr)
    return out


def assigned_targets(stmt):
    """Flat list of target expressions of an assignment-like statement."""
    out = []

    def flat(t):
        if isinstance(t, (ast.Tuple, ast.List)):
            for e in t.elts:
                flat(e)
        elif isinstance(t, ast.Starred):
            flat(t.value)
        else:
            out.append(t)
    if isinstance(stmt, ast.Assign):
        for t in stmt.targets:
            flat(t)
    elif isinstance(stmt, (ast.AugAssign, ast.AnnAssign)):
        flat(stmt.target)
    elif isinstance(stmt, (ast.For, ast.AsyncFor)):
        flat(stmt.target)
    elif isinstance(stmt, (ast.With, ast.AsyncWith)):
        for it in stmt.items:
            if it.optional_vars is not None:
                flat(it.optional_vars)
    return out


def loc(func, node):
    """file:line of a node inside Func `func`."""
    line = getattr(node, 'lineno', None)
    return f'{func.module.relpath}:{line}' if line else func.module.relpath


def parent_map(root):
    pm = {}
    for n in ast.walk(root):
        for c in ast.iter_child_nodes(n):
            pm[c] = n
    return pm
