"""Small AST helpers shared by the engine and the rules."""
import ast
import re


class AnalysisError(Exception):
    """An anchor / role could not be resolved: the run is broken (exit 2), it is
    neither a pass nor a violation."""


def dotted(node):
    """'self._comms.parent_end' for pure Name/Attribute chains, else None."""
    parts = []
    while isinstance(node, ast.Attribute):
        parts.append(node.attr)
        node = node.value
    if isinstance(node, ast.Name):
        parts.append(node.id)
        return '.'.join(reversed(parts))
    if isinstance(node, ast.Call) and isinstance(node.func, ast.Name) and node.func.id == 'super':
        parts.append('super()')
        return '.'.join(reversed(parts))
    return None


def call_name(call):
    return dotted(call.func) if isinstance(call, ast.Call) else None


def last_attr(call):
    """method name of a call ('get' for x.y.get(...)), or the bare function name."""
    f = call.func
    if isinstance(f, ast.Attribute):
        return f.attr
    if isinstance(f, ast.Name):
        return f.id
    return None


def receiver(call):
    """dotted receiver of a method call, or None."""
    f = call.func
    if isinstance(f, ast.Attribute):
        return dotted(f.value)
    return None


_SCOPE = (ast.FunctionDef, ast.AsyncFunctionDef, ast.Lambda, ast.ClassDef)


def walk_local(node, include_root=True):
    """ast.walk that does not descend into nested function/class scopes (but yields
    the nested def node itself).  Roughly in source order."""
    stack = [node]
    first = True
    while stack:
        n = stack.pop()
        if not (first and not include_root):
            yield n
        if isinstance(n, _SCOPE) and not first:
            continue
        first = False
        children = list(ast.iter_child_nodes(n))
        stack.extend(reversed(children))


def calls_in(node):
    """Call nodes evaluated by `node` (not those inside nested scopes), source order."""
    return [n for n in walk_local(node) if isinstance(n, ast.Call)]


def stmt_header_exprs(stmt):
    """The expressions evaluated by the *header* of a (possibly compound) statement,
    i.e. what belongs to the CFG node of the statement itself."""
    if isinstance(stmt, (ast.If, ast.While)):
        return [stmt.test]
    if isinstance(stmt, (ast.For, ast.AsyncFor)):
        return [stmt.iter, stmt.target]
    if isinstance(stmt, (ast.With, ast.AsyncWith)):
        out = []
        for it in stmt.items:
            out.append(it.context_expr)
            if it.optional_vars is not None:
                out.append(it.optional_vars)
        return out
    if isinstance(stmt, ast.Try):
        return []
    if isinstance(stmt, (ast.FunctionDef, ast.AsyncFunctionDef, ast.ClassDef)):
        return list(stmt.decorator_list)
    if isinstance(stmt, ast.ExceptHandler):
        return []
    return [stmt]


def norm(node):
    """Whitespace-insensitive rendering used in finding keys."""
    if node is None:
        return ''
    if isinstance(node, str):
        return node
    try:
        s = ast.unparse(node)
    except Exception:  # pragma: no cover
        s = ast.dump(node)
    s = re.sub(r'\s+', ' ', s).strip()
    return s


def short(node, n=90):
    s = norm(node)
    if isinstance(node, (ast.If, ast.While, ast.For, ast.With, ast.Try, ast.FunctionDef)):
        s = s.split(':')[0] + ':' if ':' in s else s
    return s if len(s) <= n else s[:n - 1] + '…'


def is_const(node, value):
    return isinstance(node, ast.Constant) and node.value is value or \
        (isinstance(node, ast.Constant) and not isinstance(value, bool) and value is not None and node.value == value and type(node.value) is type(value))


def is_name(node, name):
    return isinstance(node, ast.Name) and node.id == name


def is_self_attr(node, attr=None):
    return isinstance(node, ast.Attribute) and is_name(node.value, 'self') and (attr is None or node.attr == attr)


def names_in(node):
    return {n.id for n in ast.walk(node) if isinstance(n, ast.Name)}


def self_attrs_read(node):
    """self.<attr> names loaded inside node (no nested scopes)."""
    out = []
    for n in walk_local(node):
        if isinstance(n, ast.Attribute) and is_name(n.value, 'self') and isinstance(n.ctx, ast.Load):
            out.append(n.attr)
    return out


def assigned_targets(stmt):
    """Flat list of target expressions of an assignment-like statement."""
    out = []

    def flat(t):
        if isinstance(t, (ast.Tuple, ast.List)):
            for e in t.elts:
                flat(e)
        elif isinstance(t, ast.Starred):
            flat(t.value)
        else:
            out.append(t)
    if isinstance(stmt, ast.Assign):
        for t in stmt.targets:
            flat(t)
    elif isinstance(stmt, (ast.AugAssign, ast.AnnAssign)):
        flat(stmt.target)
    elif isinstance(stmt, (ast.For, ast.AsyncFor)):
        flat(stmt.target)
    elif isinstance(stmt, (ast.With, ast.AsyncWith)):
        for it in stmt.items:
            if it.optional_vars is not None:
                flat(it.optional_vars)
    return out


def loc(func, node):
    """file:line of a node inside Func `func`."""
    line = getattr(node, 'orig_lineno', None) or getattr(node, 'lineno', None)
    return f'{func.module.relpath}:{int(line)}' if line else func.module.relpath


def parent_map(root):
    pm = {}
    for n in ast.walk(root):
        for c in ast.iter_child_nodes(n):
            pm[c] = n
    return pm


# ---------------------------------------------------------------------------------------------------- polarity-free tests
_FLIP = {ast.IsNot: ast.Is, ast.NotIn: ast.In, ast.NotEq: ast.Eq, ast.GtE: ast.Lt, ast.Gt: ast.LtE}


def canon_ast(test, truth=True):
    """(expression, truth) with the negations folded into `truth` (see canon)"""
    while isinstance(test, ast.UnaryOp) and isinstance(test.op, ast.Not):
        test, truth = test.operand, not truth
    if isinstance(test, ast.Compare) and len(test.ops) == 1 and type(test.ops[0]) in _FLIP:
        test = ast.Compare(left=test.left, ops=[_FLIP[type(test.ops[0])]()], comparators=test.comparators)
        truth = not truth
    return test, truth


def branch_where(ifst, pred):
    """the statement list of `ifst` executed when pred(<negation-free test>) holds: body, or orelse for a negated test"""
    t, pos = canon_ast(ifst.test)
    if pred(t):
        return ifst.body if pos else ifst.orelse
    return None


def split_if(ifst, pred):
    """(statements run when the negation-free test holds, statements run when it does not) if pred(<negation-free test>), else None"""
    t, pos = canon_ast(ifst.test)
    if pred(t):
        return (ifst.body, ifst.orelse) if pos else (ifst.orelse, ifst.body)
    return None


def canon(test, truth=True):
    """(text, truth): `test` evaluating to `truth`, spelled without negation - `not x`/True == `x`/False,
    `a is not None`/True == `a is None`/False, `a not in b` ~ `a in b`, `!=` ~ `==`, `>=` ~ `<`, `>` ~ `<=`.
    Rules compare these pairs, so `if c: A else: B` and `if not c: B else: A` look the same to them."""
    while isinstance(test, ast.UnaryOp) and isinstance(test.op, ast.Not):
        test, truth = test.operand, not truth
    if isinstance(test, ast.Compare) and len(test.ops) == 1 and type(test.ops[0]) in _FLIP:
        test = ast.Compare(left=test.left, ops=[_FLIP[type(test.ops[0])]()], comparators=test.comparators)
        truth = not truth
    return norm(test), truth


def conjuncts(test, truth=True, leaves=False):
    """facts established when `test` evaluates to `truth`: canon() of the test itself plus, for `a and b` being true /
    `a or b` being false, of every operand (recursively); leaves=True keeps only the facts that were not decomposed"""
    t, tr = test, truth
    while isinstance(t, ast.UnaryOp) and isinstance(t.op, ast.Not):
        t, tr = t.operand, not tr
    if isinstance(t, ast.BoolOp) and ((isinstance(t.op, ast.And) and tr) or (isinstance(t.op, ast.Or) and not tr)):
        out = [] if leaves else [canon(test, truth)]
        for v in t.values:
            out += conjuncts(v, tr, leaves)
        return out
    return [canon(test, truth)]


def guards_of(pm, node, stop=None):
    """[(If/While statement, truth)] for every enclosing conditional of `node` (innermost first): truth is True when
    the node sits in the body, False when it sits in the orelse; the test expression itself is not 'guarded'"""
    out = []
    prev, cur = node, pm.get(node)
    while cur is not None and cur is not stop:
        if isinstance(cur, (ast.If, ast.While)):
            if any(prev is x for x in cur.body):
                out.append((cur, True))
            elif any(prev is x for x in cur.orelse):
                out.append((cur, False))
        prev, cur = cur, pm.get(cur)
    return out


def facts_at(pm, node, stop=None):
    """set of canon() facts that hold at `node` because of the conditionals around it"""
    out = set()
    for st, truth in guards_of(pm, node, stop):
        out.update(conjuncts(st.test, truth))
    return out


def edge_fact(e):
    """canon() fact established by taking CFG edge `e` out of a test node (None for other edges)"""
    if e.src.kind == 'test' and isinstance(getattr(e.src.stmt, 'test', None), ast.AST):
        k = e.kind if e.kind in ('true', 'false') else getattr(e, 'branch', None)
        if k in ('true', 'false'):
            return canon(e.src.stmt.test, k == 'true')
    return None


def edge_facts(e):
    if e.src.kind == 'test' and isinstance(getattr(e.src.stmt, 'test', None), ast.AST):
        k = e.kind if e.kind in ('true', 'false') else getattr(e, 'branch', None)
        if k in ('true', 'false'):
            return conjuncts(e.src.stmt.test, k == 'true')
    return []


def denotes(func_node, name, depth=0):
    """source texts a local name may stand for: the values assigned to it and, for a loop variable, the elements of a literal tuple / list it iterates
    over (`for comms in (self._ctrl_comms, self._comms)`) - so that a rule about `self._comms.parent_end` also sees `comms.parent_end`"""
    out = set()
    for n in walk_local(func_node):
        if isinstance(n, ast.Assign) and any(is_name(t, name) for t in n.targets):
            out.add(norm(n.value))
        if isinstance(n, (ast.For, ast.comprehension)) and is_name(n.target, name) and isinstance(n.iter, (ast.Tuple, ast.List)):
            out.update(norm(e) for e in n.iter.elts)
    return out


def receiver_texts(func_node, call):
    """receiver() of a call with its leading local expanded through denotes(): ['comms.parent_end'] -> {'self._comms.parent_end', ...}"""
    r = receiver(call)
    if not r:
        return set()
    head, _, rest = r.partition('.')
    outs = {r}
    if head != 'self':
        for v in denotes(func_node, head):
            outs.add(v + ('.' + rest if rest else ''))
    return outs


def late_bound_closures(root):
    """[(closure node, loop variable)]: lambdas / nested functions created inside a `for` loop or a comprehension that read the loop variable as a free
    name (not through a default argument or a parameter) and are not called on the spot - by the time they run the variable may already denote a
    later element (for a comprehension: always the last one)"""
    out = []
    for n in ast.walk(root):
        targets, scope = [], []
        if isinstance(n, ast.For):
            targets, scope = [n.target], n.body
        elif isinstance(n, (ast.ListComp, ast.SetComp, ast.GeneratorExp, ast.DictComp)):
            targets = [g.target for g in n.generators]
            scope = [n.elt] if not isinstance(n, ast.DictComp) else [n.key, n.value]
        names = {x.id for t in targets for x in ast.walk(t) if isinstance(x, ast.Name)}
        if not names:
            continue
        called_on_spot = {id(c.func) for st in scope for c in ast.walk(st) if isinstance(c, ast.Call)}
        for st in scope:
            for c in ast.walk(st):
                if isinstance(c, (ast.Lambda, ast.FunctionDef)) and id(c) not in called_on_spot:
                    a = c.args
                    params = {x.arg for x in a.posonlyargs + a.args + a.kwonlyargs} | ({a.vararg.arg} if a.vararg else set()) | ({a.kwarg.arg} if a.kwarg else set())
                    body = [c.body] if isinstance(c, ast.Lambda) else c.body
                    free = {x.id for b in body for x in ast.walk(b) if isinstance(x, ast.Name) and isinstance(x.ctx, ast.Load)} - params
                    for v in sorted(free & names):
                        out.append((c, v))
    return out



def truth_tested(root):
    """Expressions of `root` that are evaluated for their truth value, decomposed to the leaves: the tests of if / while / assert / conditional
    expressions / comprehension filters, the operands of `not`, every operand of `and` / `or` (also where the result is used as a value:
    `x or default` tests x) and the argument of bool().  Yields (leaf expression, enclosing statement or None)."""
    pm = parent_map(root)

    def stmt_of(n):
        while n in pm and not isinstance(n, ast.stmt):
            n = pm[n]
        return n if isinstance(n, ast.stmt) else None

    def leaves(e):
        if isinstance(e, ast.UnaryOp) and isinstance(e.op, ast.Not):
            return leaves(e.operand)
        if isinstance(e, ast.BoolOp):
            return [x for v in e.values for x in leaves(v)]
        return [e]
    seen = set()
    for n in ast.walk(root):
        tests = []
        if isinstance(n, (ast.If, ast.While, ast.Assert, ast.IfExp)):
            tests.append(n.test)
        elif isinstance(n, ast.comprehension):
            tests += n.ifs
        elif isinstance(n, ast.UnaryOp) and isinstance(n.op, ast.Not):
            tests.append(n.operand)
        elif isinstance(n, ast.BoolOp):
            tests += n.values
        elif isinstance(n, ast.Call) and isinstance(n.func, ast.Name) and n.func.id == 'bool' and len(n.args) == 1:
            tests.append(n.args[0])
        for t in tests:
            for leaf in leaves(t):
                if id(leaf) not in seen:
                    seen.add(id(leaf))
                    yield leaf, stmt_of(leaf)
