"""E3 - may-raise model: primitive table (trusted base) + summaries of in-repo callees.

Every entry is (exception class, cause).  cause is
    'e3'       a fault of the environment (transport failure, peer gone, unpicklable data)
    'user'     user code raising (an *input* of the properties, not a fault)
    'explicit' a `raise` statement of the library on a fault-free path
"""
import ast

from .astutil import dotted, last_attr, receiver, is_name, AnalysisError
from .exc import Lattice

# exceptions that by definition report a transport fault, whoever raises them
FAULT_CLASSES = {'ConnectionClosedError'}

E3 = 'e3'
E3P = 'e3p'     # (un)pickling of a payload failed - a fault of the data, not of the transport
USER = 'user'


def _const_payload(call):
    return bool(call.args) and isinstance(call.args[0], ast.Constant)

# --- external functions by dotted name (after alias expansion) -----------------------------------
EXT_FUNCS = {
    'struct.unpack': [],                                # struct.error only if the buffer size is wrong: excluded by C10.R1/R2 (exact read of calcsize bytes)
    'struct.pack': [],
    'pickle.loads': [('Exception', E3P)],               # unpickling runs arbitrary __setstate__/imports
    'pickle.load': [('Exception', E3P)],
    'copy.deepcopy': [('UserException', USER)],         # runs user __deepcopy__/__reduce__
    'copy.copy': [],
    'os.kill': [('OSError', E3)],                       # ESRCH when the process is gone
    'runpy.run_path': [('UserException', USER), ('UserBaseOnly', USER)],
    'socket.gethostbyname': [('OSError', E3)],
    'next': [('StopIteration', 'explicit'), ('UserException', USER)],
    'int': [('ValueError', 'explicit')],
    'importlib.import_module': [],
    'multiprocessing.connection.wait': [],              # waits on valid handles only (assumption)
    'signal.signal': [],
    'time.sleep': [],
    '__pwsa_inlined__': [],                              # marker left by the loader where a private helper was inlined: a call (landing point), raises nothing itself
}

# --- methods by name; disambiguated by arity / receiver hints --------------------------------------
def method_raises(name, call, recv):
    nargs = len(call.args) + len(call.keywords)
    r = recv or ''
    if name == 'recv':
        if nargs == 0:
            # multiprocessing Connection.recv: EOFError at EOF, OSError on a truncated message/reset,
            # anything while unpickling the payload
            return [('EOFError', E3), ('OSError', E3), ('Exception', E3P)]
        return [('OSError', E3)]                         # socket.recv(n)
    if name == 'send':
        if 'sock' in r.lower():
            return [('OSError', E3)]
        # Connection.send: BrokenPipeError when the peer is gone (EPIPE on the socket pair), pickling errors
        return [('BrokenPipeError', E3)] + ([] if _const_payload(call) else [('Exception', E3P)])
    if name in ('sendall', 'sendmsg', 'sendto', 'sendfile', 'connect', 'accept', 'bind', 'listen', 'shutdown', 'getpeername', 'getsockname', 'create_connection', 'setsockopt', 'getsockopt', 'ioctl'):
        return [('OSError', E3)]
    if name == 'put':
        # PipeEndpoint.put -> Connection.send ; queue.Queue.put never raises (unbounded)
        return [('BrokenPipeError', E3)] + ([] if _const_payload(call) else [('Exception', E3P)])
    if name == 'get_nowait' and 'pipe' not in r and 'endpoint' not in r:
        return [('queue.Empty', 'explicit')]
    if name == 'pop':
        if nargs >= 2:
            return []                                    # dict.pop(k, default)
        return [('IndexError', 'explicit')] if nargs <= 1 and 'list' else []
    if name == 'poll':
        return []                                        # select on an open handle
    if name in ('dump',):
        return [('Exception', E3P)]                      # Pickler.dump: unpicklable object
    if name in ('__getstate__', '__setstate__', '__getnewargs__', '__getnewargs_ex__'):
        return [('UserException', USER)]
    if name == 'remove':
        return [('ValueError', 'explicit')]
    if name == 'index':
        return [('ValueError', 'explicit')]
    if name == 'readline' or name == 'write' or name == 'flush':
        return [('OSError', E3)]
    return None


NON_RAISING_METHODS = {
    'close', 'set', 'wait', 'is_alive', 'join', 'start', 'setsockopt', 'getsockname', 'fileno', 'append', 'extend',
    'insert', 'clear', 'add', 'update', 'copy', 'items', 'values', 'keys', 'get', 'setdefault', 'difference',
    'format', 'lower', 'upper', 'startswith', 'endswith', 'rsplit', 'split', 'join_', 'encode', 'decode', 'getvalue',
    'acquire', 'release', 'terminate', 'kill', 'discard', 'search', '__get__', '__iter__', 'isEnabledFor', 'process',
    '_log', 'log', 'count', 'debug', 'info', 'warning', 'error', 'exception', 'details', 'abusive', 'status', 'critical',
    'add_argument', 'parse_args', 'setLevel', 'setFormatter', 'addHandler', 'getLogger', 'difference_update', 'poll_',
}

LOGGER_NAMES = {'logger', 'logging'}

BUILTIN_NONRAISING = {
    'len', 'isinstance', 'issubclass', 'bool', 'min', 'max', 'tuple', 'list', 'dict', 'set', 'str', 'repr', 'type',
    'callable', 'getattr', 'hasattr', 'setattr', 'iter', 'enumerate', 'range', 'sorted', 'any', 'all', 'super', 'id',
    'print', 'bytes', 'bytearray', 'object', 'frozenset', 'zip', 'filter', 'map', 'vars', 'format', 'reversed', 'sum',
    'property', 'classmethod', 'staticmethod', 'open_', 'abs', 'round', 'float',
}

USER_CALLABLE_ATTRS = {'_target'}
USER_CALLABLE_NAMES = {'source', 'enqueue_fn', 'worker_callback'}
NON_RAISING_EXT_MODULES = {'socket', 'io', 'itertools', 'ctypes', 'os', 'setproctitle', 'multiprocessing', 'threading',
                           'logging', 'types', 'platform', 'sys', 'argparse', 'collections', 'inspect', 'subprocess',
                           're', 'time', 'signal'}
ENDPOINT_LAST = {'parent_end', 'child_end', 'results_endpoint'}
WORKER_RECEIVERS = {'worker', 'w', 'child', 'idle', 'current', 'ctx', 'self._worker'}
WORKER_METHODS = {'enqueue', 'call', 'terminate', 'wait', 'is_alive', 'close', 'restart', 'next_result'}


class Analyzer:
    """CFG factory with memoisation and in-repo callee summaries (fix-point over recursion)."""

    def __init__(self, prog):
        self.prog = prog
        self.lattice = Lattice(prog)
        self._cfgs = {}
        self._summ = {}
        self._prev = {}
        self._inprog = set()
        self._hit_recursion = False
        self._depth = 0
        self.unmodelled = {}

    # ---------------------------------------------------------------- cfg / summaries
    def _key(self, func, cls):
        return (func.qualname, cls.qualname if cls is not None else None)

    @staticmethod
    def _norm_cls(func, cls):
        if cls is None:
            cls = func.cls
            p = func.parent
            while cls is None and p is not None:
                cls = p.cls
                p = p.parent
        return cls

    def cfg(self, func, cls=None):
        cls = self._norm_cls(func, cls)
        key = self._key(func, cls)
        if key in self._cfgs:
            return self._cfgs[key]
        from .cfg import CFG
        top = self._depth == 0
        rounds = 0
        while True:
            self._depth += 1
            self._inprog.add(key)
            if top:
                self._hit_recursion = False
            try:
                g = CFG(func, cls, self)
            finally:
                self._inprog.discard(key)
                self._depth -= 1
            summ = frozenset((e.exc, e.cause) for n in g.raise_exits.values() for e in n.pred
                             if e.cause != 'async')
            self._summ[key] = summ
            self._cfgs[key] = g
            if not top or not self._hit_recursion:
                return g
            # recursion was cut with the previous approximation: iterate to a fix-point
            rounds += 1
            if self._prev == self._summ or rounds > 6:
                return g
            self._prev = dict(self._summ)
            self._cfgs.clear()
            self._summ.clear()

    def summary(self, func, cls):
        cls = self._norm_cls(func, cls)
        key = self._key(func, cls)
        if key in self._summ:
            return self._summ[key]
        if key in self._inprog:
            self._hit_recursion = True
            return self._prev.get(key, frozenset())
        self.cfg(func, cls)
        return self._summ.get(key, frozenset())

    # ---------------------------------------------------------------- per-call raise sets
    def call_raises(self, call, func, cls, cfg=None):
        r = self.prog.resolve_call(call, func, cls)
        name = last_attr(call)
        recv = receiver(call)
        if r is None:
            return []
        if r[0] == 'func':
            target = r[1]
            if target.is_property:
                return []
            if target.is_contextmanager:
                return list(self.summary(target, r[2] or target.cls))
            bound = r[2] if (r[2] is not None and (target.cls is None or target.cls in r[2].mro())) else target.cls
            return list(self.summary(target, bound))
        if r[0] == 'class':
            c = r[1]
            dc, init = c.resolve('__init__')
            out = []
            if init is not None:
                out = list(self.summary(init, c))
            return out
        if r[0] == 'ext':
            d = r[1]
            if d == 'os.kill' and call.args and isinstance(call.args[0], ast.Call) and (dotted(call.args[0].func) or '') == 'os.getpid':
                return []        # signalling oneself cannot fail with ESRCH
            if d in EXT_FUNCS:
                return EXT_FUNCS[d]
            base = d.split('.')[-1]
            if isinstance(call.func, ast.Name) and call.func.id in USER_CALLABLE_NAMES:
                return [('UserException', USER), ('UserBaseOnly', USER)]
            if d in BUILTIN_NONRAISING or base in NON_RAISING_METHODS or d.startswith('super()') \
                    or d.split('.')[0] in NON_RAISING_EXT_MODULES or self.lattice.known(d):
                return []
            m = method_raises(base, call, recv)
            if m is not None and '.' in d:
                return m
            self.unmodelled.setdefault(d, 0)
            self.unmodelled[d] += 1
            return []
        if r[0] == 'method':
            _, name, recv = r
            if recv and recv.split('.')[0] in LOGGER_NAMES:
                return []
            if recv == 'self' and name in USER_CALLABLE_ATTRS:
                return [('UserException', USER), ('UserBaseOnly', USER)]
            if recv and recv.split('.')[-1] in ENDPOINT_LAST:
                return self._endpoint_raises(name, call, func, cls)
            if recv in WORKER_RECEIVERS and name in WORKER_METHODS:
                out = []
                for c in self.prog.classes.values():
                    if name in c.methods and (c.name.endswith('Worker') or c.name == 'RemoteContext') \
                            and c.name not in ('Worker', 'PersistentWorker'):
                        out.extend(self.summary(c.methods[name], c))
                return list(dict.fromkeys(out))
            m = method_raises(name, call, recv)
            if m is not None:
                return m
            if name in NON_RAISING_METHODS:
                return []
            # method on an in-repo typed attribute?  try the attribute type table
            t = self.receiver_types(call, func, cls)
            out = []
            found = False
            for c in t:
                dc, f = c.resolve(name)
                if f is not None:
                    found = True
                    out.extend(self.summary(f, c))
            if found:
                return list(dict.fromkeys(out))
            self.unmodelled.setdefault(f'.{name}', 0)
            self.unmodelled[f'.{name}'] += 1
            return []
        return []

    def _endpoint_raises(self, name, call, func, cls):
        types = self.receiver_types(call, func, cls)
        out = []
        pe = self.prog.cls('PipeEndpoint')
        if not types or pe in types:
            dc, f = pe.resolve(name)
            if f is not None:
                out.extend(self.summary(f, pe))
        if not types or any(t.name == 'Queue' for t in types):
            nonblocking = name == 'get_nowait' or any(
                k.arg in ('block', 'timeout') and not (isinstance(k.value, ast.Constant) and k.value.value in (True, None))
                for k in call.keywords)
            if name in ('get', 'get_nowait') and nonblocking:
                out.append(('queue.Empty', 'explicit'))
        return list(dict.fromkeys(out))

    def _is_user_callable(self, name, func):
        p = func
        while p is not None:
            if name in p.all_params():
                return name in ('enqueue_fn', 'worker_callback', 'source', 'target', 'fn', 'callback', 'method')
            p = p.parent
        return False

    def iter_raises(self, iter_expr, func, cls, cfg=None):
        # iterating a user-supplied iterator / generator may run user code
        d = dotted(iter_expr)
        if d and d.split('.')[-1] in ('input_sources',):
            return [('UserException', USER)]
        return []

    def receiver_types(self, call, func, cls):
        """In-repo classes the receiver of a method call may be an instance of (light attribute typing)."""
        f = call.func
        if not isinstance(f, ast.Attribute):
            return []
        recv = f.value
        d = dotted(recv)
        if d is None:
            return []
        parts = d.split('.')
        if parts[0] == 'self' and len(parts) >= 2 and cls is not None:
            types = self.attr_types(cls).get(parts[1], [])
            for p in parts[2:]:
                nxt = []
                for t in types:
                    dc, prop = t.resolve(p)
                    if prop is not None and prop.is_property:
                        nxt.extend(self._return_types(prop))
                types = nxt
            return types
        return []

    def attr_types(self, cls):
        key = ('attr_types', cls.qualname)
        if key in self._cfgs:
            return self._cfgs[key]
        out = {}
        for c in cls.mro():
            if isinstance(c, str):
                continue
            for m in c.methods.values():
                for n in ast.walk(m.node):
                    if isinstance(n, ast.Assign) and len(n.targets) == 1 and isinstance(n.targets[0], ast.Attribute) \
                            and is_name(n.targets[0].value, 'self'):
                        for v in self._ctor_classes(n.value, m):
                            out.setdefault(n.targets[0].attr, [])
                            if v not in out[n.targets[0].attr]:
                                out[n.targets[0].attr].append(v)
        self._cfgs[key] = out
        return out

    def _ctor_classes(self, value, func, _d=0):
        res = []
        if _d > 4:
            return res
        if isinstance(value, ast.BoolOp):
            for v in value.values:
                res += self._ctor_classes(v, func, _d + 1)
        elif isinstance(value, ast.IfExp):
            res += self._ctor_classes(value.body, func, _d + 1) + self._ctor_classes(value.orelse, func, _d + 1)
        elif isinstance(value, ast.Call):
            d = dotted(value.func)
            r = self.prog.resolve_dotted(func.module, d) if d else None
            if r and r[0] == 'class':
                res.append(r[1])
        elif isinstance(value, ast.Name):
            # a parameter with a known default constructor elsewhere in the function: look for `x = x or Ctor()`
            for n in ast.walk(func.node):
                if isinstance(n, ast.Assign) and len(n.targets) == 1 and is_name(n.targets[0], value.id):
                    res += self._ctor_classes(n.value, func, _d + 1) if not is_name(n.value, value.id) else []
        return res

    def _return_types(self, prop):
        out = []
        for n in ast.walk(prop.node):
            if isinstance(n, ast.Return) and n.value is not None:
                # Pipe.parent_end -> self._endpoints[0] -> PipeEndpoint ; LocalPipe.parent_end -> self._q -> Queue
                for m in prop.cls.methods.values():
                    for a in ast.walk(m.node):
                        if isinstance(a, ast.Assign) and len(a.targets) == 1 and isinstance(a.targets[0], ast.Attribute):
                            base = n.value
                            while isinstance(base, ast.Subscript):
                                base = base.value
                            if isinstance(base, ast.Attribute) and base.attr == a.targets[0].attr:
                                for c in ast.walk(a.value):
                                    if isinstance(c, ast.Call):
                                        d = dotted(c.func)
                                        r = self.prog.resolve_dotted(prop.module, d) if d else None
                                        if r and r[0] == 'class' and r[1] not in out:
                                            out.append(r[1])
        return out

    # ---------------------------------------------------------------- raise / except helpers
    def raised_class(self, expr, func):
        if isinstance(expr, ast.Call):
            expr = expr.func
        d = dotted(expr)
        if d is None:
            return 'Exception'
        if self.lattice.known(d):
            return d
        r = self.prog.resolve_dotted(func.module, d)
        if r and r[0] == 'class':
            return r[1].name
        if r and r[0] == 'ext' and self.lattice.known(r[1]):
            return r[1]
        base = d.split('.')[-1]
        if self.lattice.known(base):
            return base
        return 'Exception'      # raising a stored exception object

    def handler_types(self, handler, func):
        if handler.type is None:
            return ['BaseException']
        exprs = handler.type.elts if isinstance(handler.type, ast.Tuple) else [handler.type]
        out = []
        for ex in exprs:
            d = dotted(ex)
            if d is None:
                out.append('BaseException')
                continue
            if self.lattice.known(d):
                out.append(d)
                continue
            r = self.prog.resolve_dotted(func.module, d)
            if r and r[0] == 'class':
                out.append(r[1].name)
            elif r and r[0] == 'ext':
                out.append(r[1])
            else:
                out.append(d)
        return out
