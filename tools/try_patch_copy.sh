#!/bin/sh
# try_patch_copy.sh <patch.diff> : run every check against a scratch copy of /repo's package with the patch applied (does not touch /repo;
# for trial runs while other tools read /repo).  The copy lives under mktemp and is removed afterwards.
set -e
P="$1"
D=$(mktemp -d /tmp/pwsa-trial-XXXXXX)
cp -r /repo/pyworkers "$D/pyworkers"
( cd "$D" && git apply --whitespace=nowarn "$P" ) || { echo "patch does not apply"; rm -rf "$D"; exit 2; }
for i in 01 02 03 04 05 06 07 08 09 10 11 12 13 14 15 16 17 18 19 20; do
  /verif/check C$i --repo "$D" > "$D/out_$i.txt" 2>&1 || { echo "== C$i exit=$?"; grep -E "rule|construct|what|ANALYSIS" "$D/out_$i.txt" | cut -c1-400; }
done
rm -rf "$D"
echo "-- done"
