#!/venv/bin/python
"""Regenerates MANIFEST.json from the table below (a property is claimed iff its rule module exists
and it is not listed in NOT_APPLICABLE)."""
import json
import os

HERE = os.path.dirname(os.path.dirname(os.path.abspath(__file__)))

BASELINE = ("cd /repo && /venv/bin/python -m pytest -ra -q -p no:cacheprovider --timeout=900 "
            "--continue-on-collection-errors --junitxml=/tmp/pyworkers_baseline.junit.xml")

NOTE_COMMON = ("Trusted: CPython 3.12 ast/compile, the primitive may-raise table (pwsa/raises.py), the checker's own "
               "MRO/CFG code; assumed: assert/logging do not raise, is_windows() is False, one injected fault per path. "
               "Decides the structural clauses named in DESIGN.md for this property - necessary conditions of the behaviour, "
               "not the behaviour itself (values, timing and OS scheduling are not decided).")

CHECKS = {
    'C01': ('decoder table by abstract interpretation; outcome producers\' shapes; outcome recorded on every exit of the recording function under one fault (exception / async-landing edges of the CFG); accessors cannot raise once dead (exception-escape summaries); write-once stores',
            'CFG path analysis with exception and async-landing edges, abstract interpretation of accessors, escape summaries'),
    'C02': ('single forwarded target call on the child path, def-use of the outcome pair, factory exhaustiveness by constant folding, not-run typestate, join-before-drain wait-for cycle',
            'call-chain path counting, constant folding, wait-for ordering on channel sites'),
    'C03': ('delivery chain terminate -> foreign_raise complete for every kind (message-flow over send/recv sites, opcode exhaustiveness, argument binding); release of blocked persistent children; at every asynchronous landing point of the child-main the outcome reaching the parent is recorded',
            'message-flow reachability + per-landing-point CFG path analysis over async edges'),
    'C04': ('no unbounded blocking call on any path of wait/terminate when a timeout is given; truthful return expressions; dead-guard typestate; force path reachable; exceptions of the injection / control RPC handled; on the parent side of the remote kind the dead cache needs evidence that the remote child is dead too; the recorded thread ident is never used for identity decisions; a forced kill shuts the data socket down',
            'blocking-call discipline, dominance and handler coverage on the CFG, who-may-read frame, sibling agreement of the socket-release branches'),
    'C05': ('sibling agreement of the three persistent input loops (pristine deep-copied defaults per iteration, slice merge, kwargs update, one run, one counted emission), list-typed merge target, counter/stream agreement, enqueue guards, channel ownership',
            'cross-checking sibling implementations, def-use, who-may-write'),
    'C06': ('end-of-stream marker or channel close on every exit of the producer side including exception and async edges; reader side non-blocking once dead and maps transport failures to queue.Empty; clean-up reads only definitely-assigned state; the reader latches the end of the stream (no read after the marker); sockets of the remote protocol are blocking; child death and forced kill shut the data socket down',
            'must-pass-through on the CFG with exception/async edges, handler coverage, definite assignment, reader typestate, socket frame rules'),
    'C07': ('bookkeeping invariants of Pool.run: conservation of an input on every path of the enqueue logic, paired counter/list updates, closed-worker discipline, single append site, verdict formula, exception coverage of the multiplexed read',
            'linear-resource / dominance analysis of Pool.run closures'),
    'C08': ('single PoolError raise dominated by not ok after a loop with the live-worker conjunct; partial_results is the single-writer result list; no hand-over of an input without death evidence',
            'dominance + path analysis of Pool.run closures'),
    'C09': ('__exit__ reaches close/terminate; clean-up path close -> wait -> terminate exists per worker; paired map updates; per-run re-initialisation; map guard reset on every exit',
            'reachability / must-pass-through / paired-update checks'),
    'C10': ('exact-read loop recogniser for header and body, header format agreement and calcsize, transport exceptions cannot escape un-mapped, sendall and no raw socket I/O outside the framing functions',
            'AST loop recogniser + CFG dominators + exception-escape summaries'),
    'C11': ('no client-induced exception can leave the accept loop; no unbounded wait of the accept thread depends on the client only; abandoned clients are closed; registries mutated only after success; every mp.connection use has a structural reason why the submodule is imported',
            'tainted exception edges vs handler position, blocking-call multiplexing check, who-may-write, submodule-import rule'),
    'C12': ('reap loop of the server covers every registry with forced terminate and SIGTERM fallback; registration on creation; graceful path reaches the reap loop; the context helper reaches the reaping of its children on every exit wherever the reaping lives; child death and forced kill shut the data socket down (helpers followed)',
            'site/shape checks on RemoteServer.run and the release chain, must-pass-through across the clean-up hook'),
    'C13': ('private dispatch table chains to copyreg; remote=False installs no remote reducer; __getstate__ remote flags default to False and are passed by keyword; dynamic table routes only opt-in classes',
            'dataflow into dispatch_table, dominance by the remote flag, signature checks'),
    'C14': ('exactly one flagged __getstate__ call per reduce; reduce value shape; optional-hook guards; who-may-write frame on the payload variables (what is sent is what was taken); frame-balance belief check of break_patches/child_restored',
            'path counting, shape check, def-use frame, linear effect summaries with symbolic child count'),
    'C15': ('per-thread state is a threading.local re-initialised on every context entry; single merge site; loads/load enter the context on every path; producer/consumer coverage of patch frames; producer/consumer agreement on what a real frame is (write-back reached for every dict patch)',
            'definite assignment + who-may-write + coverage comparison + three-valued abstract evaluation of the consumer tests'),
    'C16': ('state travels with every outcome report in the agreed order; guarded setter; restart order and init_state; getter reaches the deferred store; every death-reporting return of the remote wait() passes the join of the storing thread',
            'channel send/receive sequence agreement, who-may-write, call-graph reachability, must-pass-through on the CFG'),
    'C17': ('__dict__.clear() dominated by death evidence; constructor-argument completeness of _get_restart_args; re-initialisation through type(self).__init__ with _is_restart; Pool.restart_workers re-keys both maps',
            'dominance + set comparison over resolved __init__ chains'),
    'C18': ('context table protocol: insert only if absent, boolean reply, non-raising lookups/removal on client-supplied ids; injected-key agreement; delete chain wait->terminate; client maps False to ValueError; the reply is decided within the request that is answered',
            'site/shape checks + key-set agreement, reaching-definition check on the accept loop'),
    'C19': ('pruned registry written back to the attribute that is read, computed entirely inside the storing critical section (provenance of the written-back value); lock discipline and no yield under the lock; registration after successful start, idempotent; autoclose chain close->wait->terminate in finally',
            'def-use on class attributes, lock-scope check, path check'),
    'C20': ('every untimed Event.wait() in a constructor closure is matched by set() on every exit of the started thread; start-up receives from spawned processes are sentinel-guarded; failure releases resources; registration after _start; every mp.connection use has a structural reason why the submodule is imported',
            'must-pass-through on the CFG with exception edges, multiplexed-wait recogniser, submodule-import rule'),
}

NOT_APPLICABLE = {}


def main():
    checks = []
    na = []
    for pid in sorted(CHECKS):
        text, technique = CHECKS[pid]
        implemented = os.path.exists(os.path.join(HERE, 'pwsa', 'rules', pid.lower() + '.py'))
        if pid in NOT_APPLICABLE:
            na.append({'property_id': pid, 'reason': NOT_APPLICABLE[pid]})
            continue
        if not implemented:
            na.append({'property_id': pid, 'reason': 'static rules designed (DESIGN.md section 2) but not implemented yet in this snapshot; not claimed'})
            continue
        checks.append({
            'property_id': pid,
            'quick_cmd': f'./check {pid} --tier quick',
            'thorough_cmd': f'./check {pid} --tier thorough',
            'evidence_file': f'evidence/{pid}.json',
            'replay_cmd_template': './check ' + pid + ' --explain {path}',
            'engine': 'pwsa',
            'level_claimed': {
                'category': 'other',
                'text': 'Static analysis of /repo\'s current source (never executed): ' + text +
                        '. Quantifies over every path / exception edge / landing point / site of the anchored functions, which the test suite cannot; '
                        'decides necessary structural conditions of the property, not the run-time behaviour itself.',
                'design_ref': f'DESIGN.md section 2, {pid}',
            },
            'level_note': NOTE_COMMON,
            'technique': 'static analysis: ' + technique,
        })
    manifest = {
        'version': 1,
        'setup_cmd': '/venv/bin/python -m compileall -q pwsa tools >/dev/null 2>&1; mkdir -p evidence/replay; true',
        'hooks': {
            'guard': 'PYWORKERS_VERIF',
            'enable': 'none needed: the checks parse /repo/pyworkers/**/*.py with ast and never run it; no hook commits exist',
            'baseline_off_cmd': BASELINE,
            'source_commits': [],
            'add_only': True,
        },
        'engines': [{
            'name': 'pwsa',
            'path': 'pwsa/',
            'serves_properties': [c['property_id'] for c in checks],
            'kind_free_text': 'repository-specific static analyser (pure stdlib, ast-based): loader with C3 MRO and call resolution, statement CFG with exception and asynchronous-landing edges, may-raise summaries, per-property rules',
        }],
        'checks': checks,
        'notes': 'All checks are static (technique family: static analysis). Exit 0 held / KNOWN-FINDING lines; exit 1 + VIOLATION line; exit 2 + ANALYSIS-ERROR when an anchor cannot be resolved. Known findings: known_findings.json. Thorough tier adds the self-test of the rules on AST-computed variants (scratch copies under a mktemp dir, removed afterwards).',
        'not_applicable': na,
    }
    with open(os.path.join(HERE, 'MANIFEST.json'), 'w') as f:
        json.dump(manifest, f, indent=1)
    print(f'{len(checks)} checks claimed, {len(na)} not applicable / not yet implemented')


if __name__ == '__main__':
    main()
