#!/venv/bin/python
"""rename_sweep.py [--repo /repo] [--jobs 16] [--file pyworkers/pool.py]

Robustness sweep of the rules ("never alarm on code where the property holds"): for every function of the package
and every variable that function binds itself (no parameters, no global/nonlocal names, no nested function names
used as thread targets excluded either - they are locals too), build a variant of the tree in which that one local
is renamed on the syntax tree (scope-aware), and run all twenty checks on it.  A rename of a local cannot change
behaviour, so any finding is a false alarm of a rule that matched a name instead of a role.
"""
import argparse
import ast
import json
import os
import sys

sys.path.insert(0, os.path.join(os.path.dirname(os.path.abspath(__file__)), '..'))
from pwsa import selftest, variants  # noqa: E402


def locals_of(tree):
    out = []

    def walk(node, qual, in_func=None):
        for ch in ast.iter_child_nodes(node):
            if isinstance(ch, ast.ClassDef):
                walk(ch, qual + [ch.name], None)
            elif isinstance(ch, (ast.FunctionDef, ast.AsyncFunctionDef)):
                q = qual + [ch.name]
                a = ch.args
                params = {x.arg for x in a.posonlyargs + a.args + a.kwonlyargs} | ({a.vararg.arg} if a.vararg else set()) | ({a.kwarg.arg} if a.kwarg else set())
                names = set()
                stack = list(ch.body)
                while stack:
                    n = stack.pop()
                    if isinstance(n, (ast.FunctionDef, ast.AsyncFunctionDef)):
                        names.add(n.name)
                        continue
                    if isinstance(n, (ast.ClassDef, ast.Lambda)):
                        continue
                    if isinstance(n, ast.Name) and isinstance(n.ctx, ast.Store):
                        names.add(n.id)
                    if isinstance(n, ast.ExceptHandler) and n.name:
                        names.add(n.name)
                    stack.extend(ast.iter_child_nodes(n))
                for nm in sorted(names - params):
                    if selftest.binds_locally(ch, nm):
                        out.append(('.'.join(q), nm))
                if in_func:
                    # parameters of a closure are locals of the package too (closures are only called positionally - checked)
                    kw_used = {k.arg for c in ast.walk(in_func) if isinstance(c, ast.Call) and isinstance(c.func, ast.Name) and c.func.id == ch.name for k in c.keywords}
                    for nm in sorted(params - kw_used - {'self', 'cls'}):
                        out.append(('.'.join(q), nm))
                walk(ch, q, ch)
            else:
                walk(ch, qual, in_func)
    walk(tree, [])
    return out


def main():
    ap = argparse.ArgumentParser()
    ap.add_argument('--repo', default='/repo')
    ap.add_argument('--jobs', type=int, default=16)
    ap.add_argument('--file')
    args = ap.parse_args()
    # work on a snapshot of the package taken now: /repo may be patched and reverted by other tools while the sweep runs
    import shutil
    import tempfile
    snap = tempfile.mkdtemp(prefix='pwsa-sweep-snapshot-')
    shutil.copytree(os.path.join(args.repo, 'pyworkers'), os.path.join(snap, 'pyworkers'), ignore=shutil.ignore_patterns('__pycache__'))
    args.repo = snap
    variants.VARIANTS.clear()
    for rel in variants.ALL_FILES:
        if args.file and rel != args.file:
            continue
        tree = ast.parse(open(os.path.join(args.repo, rel)).read())
        seen = set()
        for qual, nm in locals_of(tree):
            # find_scope resolves a qualified name to the first match: skip duplicates (same method name in two classes is qualified by class)
            if (qual, nm) in seen:
                continue
            seen.add((qual, nm))
            variants.VARIANTS.append({'kind': 'benign', 'prop': None, 'name': f'sweep:{rel}:{qual}:{nm}', 'edits': [(rel, ('rename_local', qual, nm), nm + '_rn')], 'expect': None})
    try:
        s = selftest.run_selftest(args.repo, None, args.jobs)
    finally:
        shutil.rmtree(snap, ignore_errors=True)
    for r in s['results']:
        if r['status'] != 'silent':
            print(f"{r['status'].upper():12} {r['name']}: {r['detail']}")
    print(f"rename sweep: {s['variants']} renamed locals, {s['benign_silent']} silent, {len(s['benign_false_alarm'])} false alarms, {len(s['skipped'])} skipped, {len(s['errors'])} errors, {s['wall_s']} s")
    return 0 if not (s['benign_false_alarm'] or s['errors']) else 3


if __name__ == '__main__':
    sys.exit(main())
