#!/venv/bin/python
"""keep_seed.py <worktree> <seed-id> <property[,property]> "<what it needs to manifest>" ["<result of the first run of the checks>"]

Copies a confirmed seeded change (patch.diff, demo.py, the author's README) into /verif/seeded/<seed-id>/,
applies the patch to /repo, runs every quick check, records which checks report a VIOLATION, and reverts /repo.
"""
import json
import os
import shutil
import subprocess
import sys

wt, sid, props, needs = sys.argv[1:5]
first_run = sys.argv[5] if len(sys.argv) > 5 else 'caught'
dst = f'/verif/seeded/{sid}'
os.makedirs(dst, exist_ok=True)
shutil.copy(f'{wt}/out/patch.diff', f'{dst}/patch.diff')
shutil.copy(f'{wt}/out/demo.py', f'{dst}/demo.py')
if os.path.exists(f'{wt}/out/README.md'):
    shutil.copy(f'{wt}/out/README.md', f'{dst}/author_notes.md')
verify = open(f'{wt}/out/verify.txt').read() if os.path.exists(f'{wt}/out/verify.txt') else ''

assert subprocess.run(['git', '-C', '/repo', 'status', '--porcelain'], capture_output=True, text=True).stdout.strip() == '', '/repo not clean'
subprocess.check_call(['git', '-C', '/repo', 'apply', f'{dst}/patch.diff'])
caught = {}
try:
    for i in range(1, 21):
        p = f'C{i:02d}'
        r = subprocess.run(['/verif/check', p], capture_output=True, text=True)
        if r.returncode == 1:
            keys = [l.split(':', 1)[1].strip() for l in r.stdout.splitlines() if l.strip().startswith('construct')]
            rules = [l.split(':', 1)[1].strip() for l in r.stdout.splitlines() if l.strip().startswith('rule')]
            caught[p] = [f'{a}|{b}' for a, b in zip(rules, keys)]
        elif r.returncode != 0:
            caught[p] = [f'exit {r.returncode}: ' + r.stdout.strip().splitlines()[-1]]
finally:
    subprocess.check_call(['git', '-C', '/repo', 'checkout', '--', '.'])
# evidence files were rewritten against the patched tree: restore them from the clean tree
for p in caught:
    subprocess.run(['/verif/check', p], capture_output=True)
meta = {
    'id': sid,
    'breaks_properties': props.split(','),
    'needs_to_manifest': needs,
    'origin': 'written by an independent sub-agent that saw only the property text and a scratch worktree of /repo (nothing from /verif)',
    'confirmed_by_me': {
        'how': 'in the scratch worktree: demo.py with the change (must exit non-zero), demo.py without it (must exit 0), the whole test suite with the change '
               '(two infinite-loop items deselected); then `git -C /repo apply patch.diff`, every ./check <ID>, `git -C /repo checkout -- .`',
        'log': verify,
    },
    'first_run': first_run,
    'detected_by': caught,
    'detected': bool(set(caught) & set(props.split(','))),
}
with open(f'{dst}/meta.json', 'w') as f:
    json.dump(meta, f, indent=1)
print(json.dumps({'id': sid, 'detected_by': caught}, indent=1))
