#!/bin/sh
# usage: tools/try_patch.sh <patch.diff>   - applies the patch to /repo, runs every quick check, reverts the patch

P="$1"
[ -z "$(git -C /repo status --porcelain)" ] || { echo "/repo not clean"; exit 2; }
git -C /repo apply "$P" || exit 2
trap 'git -C /repo checkout -- . ; git -C /repo clean -fdq pyworkers' EXIT
cd /verif
for p in C01 C02 C03 C04 C05 C06 C07 C08 C09 C10 C11 C12 C13 C14 C15 C16 C17 C18 C19 C20; do
  out=$(./check $p 2>&1) ; rc=$?
  if [ $rc -ne 0 ]; then echo "== $p exit=$rc"; echo "$out" | grep -E "construct|ANALYSIS-ERROR|rule  " | head -8; fi
done
echo "-- done"
