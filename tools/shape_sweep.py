#!/venv/bin/python
"""shape_sweep.py [--repo /repo] [--jobs 16] [--kind invert_if|insert_pass] [--file pyworkers/pool.py]

Robustness sweeps of the rules against behaviour-preserving changes of *shape* (companion of rename_sweep.py):

  invert_if    every `if c: A else: B` of the package is rewritten as `if not c: B else: A`
               (elif chains included - the inner if becomes the body of the outer one);
  insert_pass  a `pass` statement is inserted in front of every statement of every function;
  split_and    `if a and b: X` (no else) becomes `if a:` with a nested `if b: X`; merge_ifs is the inverse;
  extract_stmt every simple statement of a method that mentions only self and module-level names is moved into a new method of its class
               (NOT always behaviour-preserving for this analysis: a call is a landing point for an asynchronous terminate - findings of
               the landing rules on such variants are true reports, everything else is a false alarm);
  alias_recv   in every simple statement the receiver `self.x[.y]` of the first call is first bound to a local (`_al = self.x.y; _al.m()`);
  suppress     `try: B except E: pass` becomes `with contextlib.suppress(E): B`;
  else_nest    `if c: ...; return` followed by the rest of the block becomes `if c: ...; return` / `else: rest`; else_unnest is the inverse;
  cmp_flip     the first comparison with side-effect-free operands in a statement is written the other way round (`a < b` -> `b > a`, `x is None` -> `None is x`);
  tern_expand  `x = a if c else b` / `return a if c else b` becomes an if statement;
  aug_expand   `x += 1` becomes `x = x + 1` (numeric constants only);
  lit_ctor     the first empty literal of a statement is spelled as a constructor call (`[]` -> `list()`, `{}` -> `dict()`, `()` -> `tuple()`);
  ret_local    `return <expression>` becomes `_rv = <expression>; return _rv`;
  walrus       `x = E` immediately followed by an `if` whose test evaluates x first becomes `if (x := E) ...`;
  tern_fold    `if c: x = a else: x = b` becomes `x = a if c else b`;
  ann_assign   `x = v` inside a function becomes the annotated assignment `x: 'object' = v`;
  lock_unfold  `with lock: B` becomes `lock.acquire()` / `try: B` / `finally: lock.release()`;
  move_method  every undecorated method (not used by the class body itself) is moved to the end of its class.

Neither changes what the program does, so every finding on such a variant is a false alarm of a rule that matched the
spelling of a test or the position of a statement instead of what it decides.
"""
import argparse
import ast
import os
import sys

sys.path.insert(0, os.path.join(os.path.dirname(os.path.abspath(__file__)), '..'))
from pwsa import selftest, variants  # noqa: E402


def main():
    ap = argparse.ArgumentParser()
    ap.add_argument('--repo', default='/repo')
    ap.add_argument('--jobs', type=int, default=16)
    ap.add_argument('--kind', default='invert_if')
    ap.add_argument('--file')
    args = ap.parse_args()
    # work on a snapshot of the package taken now: /repo may be patched and reverted by other tools while the sweep runs
    import shutil
    import tempfile
    snap = tempfile.mkdtemp(prefix='pwsa-sweep-snapshot-')
    shutil.copytree(os.path.join(args.repo, 'pyworkers'), os.path.join(snap, 'pyworkers'), ignore=shutil.ignore_patterns('__pycache__'))
    args.repo = snap
    variants.VARIANTS.clear()
    for rel in variants.ALL_FILES:
        if args.file and rel != args.file:
            continue
        tree = ast.parse(open(os.path.join(args.repo, rel)).read())
        if args.kind == 'extract_stmt':
            import builtins
            mod_names = {n.id for st in tree.body for n in ast.walk(st) if isinstance(n, ast.Name) and isinstance(n.ctx, ast.Store)} | \
                        {(a.asname or a.name).split('.')[0] for st in tree.body if isinstance(st, (ast.Import, ast.ImportFrom)) for a in st.names} | \
                        {st.name for st in tree.body if isinstance(st, (ast.FunctionDef, ast.ClassDef))} | set(dir(builtins))
            for c in ast.walk(tree):
                if not isinstance(c, ast.ClassDef):
                    continue
                for m in c.body:
                    if not isinstance(m, (ast.FunctionDef, ast.AsyncFunctionDef)) or not m.args.args or m.args.args[0].arg != 'self':
                        continue
                    nested = [x for x in ast.walk(m) if isinstance(x, (ast.FunctionDef, ast.Lambda)) and x is not m]
                    for st in ast.walk(m):
                        if not isinstance(st, (ast.Expr, ast.Assign, ast.AugAssign)) or any(any(y is st for y in ast.walk(nf)) for nf in nested):
                            continue
                        if isinstance(st, ast.Expr) and isinstance(st.value, ast.Constant):
                            continue
                        names = {n.id for n in ast.walk(st) if isinstance(n, ast.Name)}
                        if not names <= (mod_names | {'self'}) or 'super' in names or any(isinstance(n, (ast.Yield, ast.YieldFrom, ast.Await, ast.NamedExpr)) for n in ast.walk(st)):
                            continue
                        if any(isinstance(n, ast.Name) and isinstance(n.ctx, ast.Store) for n in ast.walk(st)):
                            continue
                        variants.VARIANTS.append({'kind': 'benign', 'prop': None, 'name': f'extract_stmt:{rel}:{c.name}.{m.name}:{st.lineno}',
                                                  'edits': [(rel, ('extract_stmt', st.lineno, st.col_offset), None)], 'expect': None})
            continue
        if args.kind in selftest.MODERNISE_KINDS:
            for (ln, col) in selftest.modernise_sites(tree, args.kind):
                variants.VARIANTS.append({'kind': 'benign', 'prop': None, 'name': f'{args.kind}:{rel}:{ln}:{col}',
                                          'edits': [(rel, (args.kind, ln, col), None)], 'expect': None})
            continue
        if args.kind == 'move_method':
            for c in ast.walk(tree):
                if isinstance(c, ast.ClassDef):
                    # names the class body itself uses (x = property(f), @f.setter, ...) stay where they are
                    used = {n.id for st in c.body if not isinstance(st, (ast.FunctionDef, ast.AsyncFunctionDef)) for n in ast.walk(st) if isinstance(n, ast.Name)}
                    used |= {n.id for st in c.body if isinstance(st, (ast.FunctionDef, ast.AsyncFunctionDef)) for d in st.decorator_list for n in ast.walk(d) if isinstance(n, ast.Name)}
                    for st in c.body[:-1]:
                        if isinstance(st, (ast.FunctionDef, ast.AsyncFunctionDef)) and not st.decorator_list and st.name not in used:
                            variants.VARIANTS.append({'kind': 'benign', 'prop': None, 'name': f'move_method:{rel}:{c.name}.{st.name}:{st.lineno}',
                                                      'edits': [(rel, ('move_method', st.lineno, st.col_offset), None)], 'expect': None})
            continue
        for fn in ast.walk(tree):
            if not isinstance(fn, (ast.FunctionDef, ast.AsyncFunctionDef)):
                continue
            for st in ast.walk(fn):
                if not isinstance(st, ast.stmt) or st is fn:
                    continue
                if args.kind == 'invert_if' and not (isinstance(st, ast.If) and st.orelse):
                    continue
                if args.kind == 'insert_pass' and isinstance(st, (ast.FunctionDef, ast.ClassDef)):
                    continue
                if args.kind == 'alias_recv':
                    if not isinstance(st, (ast.Expr, ast.Assign, ast.Return, ast.AugAssign)):
                        continue
                    def _self_chain(v):
                        ok = False
                        while isinstance(v, ast.Attribute):
                            v, ok = v.value, True
                        return ok and isinstance(v, ast.Name) and v.id == 'self'
                    if not any(isinstance(n, ast.Call) and isinstance(n.func, ast.Attribute) and _self_chain(n.func.value) for n in ast.walk(st)):
                        continue
                    # only the outermost statement of a nest is rewritten
                    if any(isinstance(n, (ast.Lambda, ast.ListComp, ast.GeneratorExp, ast.DictComp, ast.SetComp)) for n in ast.walk(st)):
                        continue
                if args.kind == 'split_and' and not (isinstance(st, ast.If) and not st.orelse and isinstance(st.test, ast.BoolOp) and isinstance(st.test.op, ast.And)):
                    continue
                if args.kind == 'merge_ifs' and not (isinstance(st, ast.If) and not st.orelse and len(st.body) == 1 and isinstance(st.body[0], ast.If) and not st.body[0].orelse):
                    continue
                name = f'{args.kind}:{rel}:{fn.name}:{st.lineno}'
                if any(v['name'] == name for v in variants.VARIANTS):
                    continue
                variants.VARIANTS.append({'kind': 'benign', 'prop': None, 'name': name, 'edits': [(rel, (args.kind, st.lineno, st.col_offset), None)], 'expect': None})
    try:
        s = selftest.run_selftest(args.repo, None, args.jobs)
    finally:
        shutil.rmtree(snap, ignore_errors=True)
    for r in s['results']:
        if r['status'] != 'silent':
            print(f"{r['status'].upper():12} {r['name']}: {r['detail']}")
    print(f"{args.kind} sweep: {s['variants']} variants, {s['benign_silent']} silent, {len(s['benign_false_alarm'])} false alarms, {len(s['skipped'])} skipped, {len(s['errors'])} errors, {s['wall_s']} s")
    return 0 if not (s['benign_false_alarm'] or s['errors']) else 3


if __name__ == '__main__':
    sys.exit(main())
