#!/venv/bin/python
"""shape_sweep.py [--repo /repo] [--jobs 16] [--kind invert_if|insert_pass] [--file pyworkers/pool.py]

Robustness sweeps of the rules against behaviour-preserving changes of *shape* (companion of rename_sweep.py):

  invert_if    every `if c: A else: B` of the package is rewritten as `if not c: B else: A`
               (elif chains included - the inner if becomes the body of the outer one);
  insert_pass  a `pass` statement is inserted in front of every statement of every function.

Neither changes what the program does, so every finding on such a variant is a false alarm of a rule that matched the
spelling of a test or the position of a statement instead of what it decides.
"""
import argparse
import ast
import os
import sys

sys.path.insert(0, os.path.join(os.path.dirname(os.path.abspath(__file__)), '..'))
from pwsa import selftest, variants  # noqa: E402


def main():
    ap = argparse.ArgumentParser()
    ap.add_argument('--repo', default='/repo')
    ap.add_argument('--jobs', type=int, default=16)
    ap.add_argument('--kind', default='invert_if')
    ap.add_argument('--file')
    args = ap.parse_args()
    variants.VARIANTS.clear()
    for rel in variants.ALL_FILES:
        if args.file and rel != args.file:
            continue
        tree = ast.parse(open(os.path.join(args.repo, rel)).read())
        for fn in ast.walk(tree):
            if not isinstance(fn, (ast.FunctionDef, ast.AsyncFunctionDef)):
                continue
            for st in ast.walk(fn):
                if not isinstance(st, ast.stmt) or st is fn:
                    continue
                if args.kind == 'invert_if' and not (isinstance(st, ast.If) and st.orelse):
                    continue
                if args.kind == 'insert_pass' and isinstance(st, (ast.FunctionDef, ast.ClassDef)):
                    continue
                name = f'{args.kind}:{rel}:{fn.name}:{st.lineno}'
                if any(v['name'] == name for v in variants.VARIANTS):
                    continue
                variants.VARIANTS.append({'kind': 'benign', 'prop': None, 'name': name, 'edits': [(rel, (args.kind, st.lineno, st.col_offset), None)], 'expect': None})
    s = selftest.run_selftest(args.repo, None, args.jobs)
    for r in s['results']:
        if r['status'] != 'silent':
            print(f"{r['status'].upper():12} {r['name']}: {r['detail']}")
    print(f"{args.kind} sweep: {s['variants']} variants, {s['benign_silent']} silent, {len(s['benign_false_alarm'])} false alarms, {len(s['skipped'])} skipped, {len(s['errors'])} errors, {s['wall_s']} s")
    return 0 if not (s['benign_false_alarm'] or s['errors']) else 3


if __name__ == '__main__':
    sys.exit(main())
