#!/venv/bin/python
"""Regenerates the "which check catches which seeded change" table of DESIGN.md (between the SEED-TABLE markers)
from /verif/seeded/*/meta.json."""
import glob
import json
import os
import re

HERE = os.path.dirname(os.path.dirname(os.path.abspath(__file__)))
rows = []
for m in sorted(glob.glob(os.path.join(HERE, 'seeded', '*', 'meta.json'))):
    d = json.load(open(m))
    det = '; '.join(f"{p}: {', '.join(sorted({k.split('|')[0].split('.')[-1] + ' ' + k.split('|', 1)[1] for k in v}))}" for p, v in sorted(d['detected_by'].items())) or '**missed**'
    first = d.get('first_run', '')
    rows.append(f"| `{d['id']}` | {', '.join(d['breaks_properties'])} | {d['needs_to_manifest'][:220]}{'…' if len(d['needs_to_manifest']) > 220 else ''} | {first} | {det} |")
table = ['| seeded change | breaks | what it needs in order to manifest | first run of the checks | caught today by |', '|---|---|---|---|---|'] + rows
p = os.path.join(HERE, 'DESIGN.md')
s = open(p).read()
a, b = '<!-- SEED-TABLE-BEGIN -->', '<!-- SEED-TABLE-END -->'
if a in s:
    s = s[:s.index(a) + len(a)] + '\n' + '\n'.join(table) + '\n' + s[s.index(b):]
    open(p, 'w').write(s)
print('\n'.join(table))
