#!/venv/bin/python
"""replay_seeds.py - apply every kept seeded change to /repo in turn (git apply / git checkout -- .), run the checks of the
properties it breaks, and report whether each is still detected.  /repo must be clean; it is left clean."""
import glob
import json
import os
import subprocess
import sys

assert subprocess.run(['git', '-C', '/repo', 'status', '--porcelain'], capture_output=True, text=True).stdout.strip() == '', '/repo not clean'
bad = 0
touched = set()
for meta_p in sorted(glob.glob('/verif/seeded/*/meta.json')):
    d = os.path.dirname(meta_p)
    meta = json.load(open(meta_p))
    r = subprocess.run(['git', '-C', '/repo', 'apply', f'{d}/patch.diff'], capture_output=True, text=True)
    if r.returncode != 0:
        print(f'{meta["id"]:45} PATCH DOES NOT APPLY: {r.stderr.strip()[:100]}')
        bad += 1
        continue
    try:
        hit = {}
        for p in sorted(set(meta['breaks_properties']) | set(meta.get('detected_by', {}))):
            touched.add(p)
            c = subprocess.run(['/verif/check', p], capture_output=True, text=True)
            if c.returncode == 1:
                hit[p] = [l.split(':', 1)[1].strip() for l in c.stdout.splitlines() if l.strip().startswith('construct')][:2]
            elif c.returncode != 0:
                hit[p] = [f'exit {c.returncode}']
    finally:
        subprocess.check_call(['git', '-C', '/repo', 'checkout', '--', '.'])
    ok = bool(hit)
    bad += 0 if ok else 1
    print(f'{meta["id"]:45} {"detected" if ok else "MISSED  "} {hit}')
# the evidence files were rewritten against patched trees: restore them from the clean tree
for p in sorted(touched):
    subprocess.run(['/verif/check', p], capture_output=True)
print(f'{bad} seed(s) not detected')
sys.exit(1 if bad else 0)
